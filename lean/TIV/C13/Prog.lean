/-!
# C13 — effect programs (DESIGN.md §2.3), the copy used by C13

A small deep embedding of exactly the control flow that the terminal-attribute code uses:
sequencing, `try … finally`, `try … except <classes>`, `raise`, `return` out of a function,
one boolean local that a `finally` block reads (`first_frame_written` of `_animate_`), and
primitive *actions*.  Loops are unrolled at the meta level by structural recursion over the
environment script (how often `select` reported input, what `more` answered …), so a `Prog` is a
finite tree and the interpreter is structurally recursive.

Faults.  A run carries a `Budget`: `pending k exc after` means "the `k`-th (0-based) *effectful*
action from here raises `exc`" — instead of taking effect (`after = false`: the signal arrives
before/inside the call, `EINTR`) or right after it took effect (`after = true`: the Python-level
handler runs when the C call has returned).  When the fault fires the budget becomes
`fired tag`, recording the tag of the action it hit; there is at most one fault per run.
Only import-free core Lean.
-/
namespace TIV.C13

inductive Exc | kbdInt | termiosError | osError | stopIteration | other
  deriving DecidableEq, Repr, Inhabited

/-- `when` argument of `tcsetattr` -/
inductive When | now | flush
  deriving DecidableEq, Repr

/-- The terminal's attribute set as the kernel holds it.  `rest` is everything the library never
    edits (iflag, oflag, cflag, the other lflag bits, speeds, the other control characters). -/
structure KAttrs (α : Type) where
  rest : α
  echo : Bool
  icanon : Bool
  vmin : UInt8
  vtime : UInt8
  deriving DecidableEq, Repr

/-- The list `termios.tcgetattr` returns / `tcsetattr` accepts: `cc` entries are Python ints. -/
structure PyAttrs (α : Type) where
  rest : α
  echo : Bool
  icanon : Bool
  vmin : Nat
  vtime : Nat
  deriving DecidableEq, Repr

def KAttrs.toPy {α} (k : KAttrs α) : PyAttrs α :=
  { rest := k.rest, echo := k.echo, icanon := k.icanon, vmin := k.vmin.toNat, vtime := k.vtime.toNat }

/-- CPython's `tcsetattr`: `mode.c_cc[i] = (cc_t) PyLong_AsLong(x)` — truncation to a byte -/
def PyAttrs.toK {α} (p : PyAttrs α) : KAttrs α :=
  { rest := p.rest, echo := p.echo, icanon := p.icanon, vmin := UInt8.ofNat p.vmin, vtime := UInt8.ofNat p.vtime }

/-- local variables holding attribute lists; one pair per activation record -/
inductive Var | rtOld | rtNew | qtOld | qtNew | drOld | drNew
  deriving DecidableEq, Repr

/-- the in-place edits the code performs on a `new_attr` list -/
inductive Edit | echo (b : Bool) | icanon (b : Bool) | vmin (n : Nat) | vtime (n : Nat)
  deriving DecidableEq, Repr

def Edit.app {α} (e : Edit) (p : PyAttrs α) : PyAttrs α :=
  match e with
  | .echo b => { p with echo := b }
  | .icanon b => { p with icanon := b }
  | .vmin n => { p with vmin := n }
  | .vtime n => { p with vtime := n }

inductive SelT | zero | inf | pos
  deriving DecidableEq, Repr

inductive Out | hide | nl | showCur | frame | move | other
  deriving DecidableEq, Repr

inductive Act
  | tcget (v : Var)                 -- v = termios.tcgetattr(fd)
  | edit (v : Var) (e : Edit)       -- v[…] = …            (pure: no fault can land *in* it)
  | tcset (w : When) (v : Var)      -- termios.tcsetattr(fd, w, v)
  | select (t : SelT)
  | read (n : Nat)                  -- os.read(fd, n)
  | write                           -- os.write(fd, request)
  | drain                           -- termios.tcdrain(fd)
  | clock                           -- monotonic()
  | more                            -- the caller-supplied predicate
  | render                          -- self._render_ / next(render_iter)
  | owrite (o : Out)                -- output.write(…)
  | oflush                          -- output.flush()
  | handle                          -- self._handle_interrupted_draw_
  | sleep
  | iterClose                       -- render_iter.close()
  | finalize                        -- render_data.finalize()
  | setFlag                         -- first_frame_written = True   (pure)
  | ioctl                           -- fcntl.ioctl(fd, TIOCGWINSZ, buf)  (get_cell_size)
  deriving DecidableEq, Repr

def Act.pure : Act → Bool
  | .edit .. => true
  | .setFlag => true
  | _ => false

inductive Owner | readTty | query | draw
  deriving DecidableEq, Repr

/-- Every action carries a tag: `cleanup o` marks the actions of operation `o`'s *own* restore
    sequence — from the first action of its `finally` block up to and including the restoring
    `tcsetattr` (DESIGN §4 "Clean-up"); everything else is `plain`. -/
inductive Tag | plain | cleanup (o : Owner)
  deriving DecidableEq, Repr

inductive Prog
  | skip
  | raise (e : Exc)
  | ret                                             -- `return` (out of the enclosing `call`)
  | act (t : Tag) (a : Act)
  | seq (p q : Prog)
  | tryFinally (body fin : Prog)
  | tryExcept (body : Prog) (catches : Exc → Bool) (handler : Prog)
  | ifFlag (p q : Prog)                             -- if first_frame_written: p else: q
  | call (p : Prog)                                 -- function boundary: absorbs `return`

infixr:60 " ;; " => Prog.seq

inductive Outcome | normal | returned | raised (e : Exc)
  deriving DecidableEq, Repr

inductive Budget
  | never
  | pending (k : Nat) (e : Exc) (after : Bool)
  | fired (t : Tag)
  deriving DecidableEq, Repr

/-- what an action was seen to do (for the correspondence trace only) -/
structure Ev (α : Type) where
  tag : Tag
  act : Act
  arg : Option (PyAttrs α)          -- the list handed to tcsetattr
  fault : Option (Exc × Bool)       -- raised here (exc, after?)

structure World (α : Type) where
  attrs : KAttrs α
  regs : Var → PyAttrs α
  flag : Bool
  trace : List (Ev α)               -- most recent first

def World.setReg {α} (w : World α) (v : Var) (p : PyAttrs α) : World α :=
  { w with regs := fun u => if u = v then p else w.regs u }

/-- effect of an action on the world (the trace is appended by `step`) -/
def applyAct {α} (w : World α) : Act → World α
  | .tcget v => w.setReg v w.attrs.toPy
  | .edit v e => w.setReg v (e.app (w.regs v))
  | .tcset _ v => { w with attrs := (w.regs v).toK }
  | .setFlag => { w with flag := true }
  | _ => w

def evArg {α} (w : World α) : Act → Option (PyAttrs α)
  | .tcset _ v => some (w.regs v)
  | _ => none

def World.log {α} (w : World α) (e : Ev α) : World α := { w with trace := e :: w.trace }

structure Res (α : Type) where
  w : World α
  b : Budget
  out : Outcome

def step {α} (t : Tag) (a : Act) (b : Budget) (w : World α) : Res α :=
  if a.pure then ⟨applyAct w a, b, .normal⟩
  else match b with
    | .pending 0 e after =>
      ⟨((if after then applyAct w a else w).log ⟨t, a, evArg w a, some (e, after)⟩), .fired t, .raised e⟩
    | .pending (k + 1) e after => ⟨(applyAct w a).log ⟨t, a, evArg w a, none⟩, .pending k e after, .normal⟩
    | b => ⟨(applyAct w a).log ⟨t, a, evArg w a, none⟩, b, .normal⟩

/-- big-step interpreter -/
def run {α} : Prog → Budget → World α → Res α
  | .skip, b, w => ⟨w, b, .normal⟩
  | .raise e, b, w => ⟨w, b, .raised e⟩
  | .ret, b, w => ⟨w, b, .returned⟩
  | .act t a, b, w => step t a b w
  | .seq p q, b, w =>
    let r := run p b w
    match r.out with
    | .normal => run q r.b r.w
    | _ => r
  | .tryFinally body fin, b, w =>
    let r := run body b w
    let r2 := run fin r.b r.w
    match r2.out with
    | .normal => ⟨r2.w, r2.b, r.out⟩          -- the pending return / exception continues
    | _ => r2                                    -- an exception in `finally` replaces it
  | .tryExcept body c h, b, w =>
    let r := run body b w
    match r.out with
    | .raised e => if c e then run h r.b r.w else r
    | _ => r
  | .ifFlag p q, b, w => if w.flag then run p b w else run q b w
  | .call p, b, w =>
    let r := run p b w
    match r.out with
    | .returned => ⟨r.w, r.b, .normal⟩
    | _ => r

end TIV.C13
