import TIV.Common.DriverMain
import TIV.C13.Drive
def main : IO Unit := TIV.driverMain TIV.C13.handler
