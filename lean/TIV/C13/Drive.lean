import TIV.Common.Wire
import TIV.C13.Model
/-! driver ops of C13: the model's action trace, outcome and final attributes under a fault plan -/
namespace TIV.C13
open TIV.Wire

def pExc : P Exc := do
  let t ← word
  match t with
  | "kbdInt" => pure .kbdInt
  | "termiosError" => pure .termiosError
  | "osError" => pure .osError
  | "stopIteration" => pure .stopIteration
  | "other" => pure .other
  | _ => failure

def fmtExc : Exc → String
  | .kbdInt => "kbdInt" | .termiosError => "termiosError" | .osError => "osError"
  | .stopIteration => "stopIteration" | .other => "other"

def pEnding : P Ending := do
  let t ← word
  match t with
  | "up" => pure .timeUp
  | "stop" => pure .moreFalse
  | "raise" => do let e ← pExc; pure (.moreRaises e)
  | _ => failure

def pTimed : P (Bool × List Bool × Ending) := do
  let neg ← bool; let steps ← listOf bool; let en ← pEnding
  pure (neg, steps, en)

def pScript : P Script := do
  let t ← word
  match t with
  | "nb" => do let n ← nat; pure (.nonblock n)
  | "timed" => do let (neg, steps, en) ← pTimed; pure (.timed neg steps en)
  | _ => failure

def pPlan : P (Option (Nat × Exc × Bool)) :=
  optOf (do let k ← nat; let e ← pExc; let a ← bool; pure (k, e, a))

/-- initial attributes: echo icanon vmin vtime (the opaque remainder is the number 0) -/
def pAttrs : P (KAttrs Nat) := do
  let e ← bool; let c ← bool; let m ← nat; let t ← nat
  if m < 256 ∧ t < 256 then pure { rest := 0, echo := e, icanon := c, vmin := UInt8.ofNat m, vtime := UInt8.ofNat t }
  else failure

def pBody : P Prog := do
  let t ← word
  match t with
  | "still" => pure stillBody
  | "anim" => do let n ← nat; pure (animBody n)
  | _ => failure

def fmtWhen : When → String | .now => "now" | .flush => "flush"
def fmtSel : SelT → String | .zero => "zero" | .inf => "inf" | .pos => "pos"
def fmtOut : Out → String
  | .hide => "hide" | .nl => "nl" | .showCur => "show" | .frame => "frame" | .move => "move" | .other => "other"

def fmtPy (p : PyAttrs Nat) : String :=
  s!"e{fmtBool p.echo}c{fmtBool p.icanon}m{p.vmin}t{p.vtime}r{fmtBool (p.rest == 0)}"

def fmtEv (e : Ev Nat) : String :=
  let base := match e.act with
    | .tcget _ => "get"
    | .tcset w _ => s!"set({fmtWhen w},{(e.arg.map fmtPy).getD "?"})"
    | .select t => s!"sel({fmtSel t})"
    | .read n => s!"rd({n})"
    | .write => "wr"
    | .drain => "dr"
    | .clock => "clk"
    | .more => "more"
    | .render => "rend"
    | .owrite o => s!"ow({fmtOut o})"
    | .oflush => "ofl"
    | .handle => "hnd"
    | .sleep => "slp"
    | .iterClose => "cls"
    | .finalize => "fin"
    | .edit _ _ => "edit"
    | .setFlag => "flag"
    | .ioctl => "ioctl"
  match e.fault with
  | none => base
  | some (x, after) => base ++ (if after then "!a:" else "!b:") ++ fmtExc x

def fmtOutcome : Outcome → String
  | .normal => "normal" | .returned => "returned" | .raised e => "raised:" ++ fmtExc e

def fmtRes (owner : Owner) (r : Res Nat) : String :=
  let tr := String.intercalate "," (r.w.trace.reverse.map fmtEv)
  let a := r.w.attrs
  let fired := match r.b with | .fired _ => true | _ => false
  let incl := r.b == .fired (.cleanup owner)
  s!"ok {if tr.isEmpty then "-" else tr} out={fmtOutcome r.out} attrs={fmtPy a.toPy} fired={fmtBool fired} cleanup={fmtBool incl}"

def junk : PyAttrs Nat := { rest := 99, echo := true, icanon := false, vmin := 7, vtime := 7 }

def exec (owner : Owner) (p : Prog) (A : KAttrs Nat) (plan : Option (Nat × Exc × Bool)) : String :=
  fmtRes owner (TIV.C13.run p (planBudget plan) (World.init A (fun _ => junk)))

/-- one constituent of a composite query function -/
def pItem : P Prog := do
  let t ← word
  match t with
  | "qt" => do let (neg, steps, e) ← pTimed; pure (queryTerminal true neg steps e)
  | "rt" => do let min ← nat; let echo ← bool; let s ← pScript; pure (readTty min echo s)
  | "io" => pure cellSizeIoctl
  | _ => failure

/-- composite: `cleanup` = the fault landed on some constituent's (possibly nested) restoring tcsetattr -/
def execSeq (p : Prog) (A : KAttrs Nat) (plan : Option (Nat × Exc × Bool)) : String :=
  let r := TIV.C13.run p (planBudget plan) (World.init A (fun _ => junk))
  let tr := String.intercalate "," (r.w.trace.reverse.map fmtEv)
  let fired := match r.b with | .fired _ => true | _ => false
  let incl := match r.b with | .fired (.cleanup _) => true | _ => false
  s!"ok {if tr.isEmpty then "-" else tr} out={fmtOutcome r.out} attrs={fmtPy r.w.attrs.toPy} fired={fmtBool fired} cleanup={fmtBool incl}"

def handler : Handler := fun op args =>
  match op with
  | "rt" => Wire.run (do
      let A ← pAttrs; let min ← nat; let echo ← bool; let s ← pScript; let plan ← pPlan
      pure (exec .readTty (readTty min echo s) A plan)) args
  | "qt" => Wire.run (do
      let A ← pAttrs; let en ← bool; let (neg, steps, e) ← pTimed; let plan ← pPlan
      pure (exec .query (queryTerminal en neg steps e) A plan)) args
  | "draw" => Wire.run (do
      let A ← pAttrs; let hide ← bool; let nei ← bool; let body ← pBody; let plan ← pPlan
      pure (exec .draw (draw hide nei body) A plan)) args
  | "seq" => Wire.run (do
      let A ← pAttrs; let items ← listOf pItem; let plan ← pPlan
      pure (execSeq (items.foldr (fun p k => p ;; k) .skip) A plan)) args
  | _ => none

end TIV.C13
