import TIV.C13.Proofs
/-!
# C13 — a fault at index `k` lands on the `k`-th action of the fault-free run

Until the fault fires, the faulted run and the fault-free run are the same run.  Hence the tag
of the action the fault hits is the tag of the `k`-th action the fault-free run performs — which
turns "the fault did not land in the clean-up" into "`k` is an index before the clean-up".
-/
namespace TIV.C13
open Prog

variable {α : Type}

/-- the `i`-th action the run has logged (0-based, oldest first) -/
def World.nth (w : World α) (i : Nat) : Option (Ev α) := w.trace.reverse[i]?

theorem step_trace (t : Tag) (a : Act) (b : Budget) (w : World α) :
    ∃ l, (step t a b w).w.trace = l ++ w.trace := by
  have h0 : (applyAct w a).trace = w.trace := by cases a <;> rfl
  unfold step
  split
  · exact ⟨[], by simp [h0]⟩
  · split
    · rename_i e after
      cases after
      · exact ⟨[⟨t, a, evArg w a, some (e, false)⟩], rfl⟩
      · exact ⟨[⟨t, a, evArg w a, some (e, true)⟩], by simp [World.log, h0]⟩
    · exact ⟨[⟨t, a, evArg w a, none⟩], by simp [World.log, h0]⟩
    · exact ⟨[⟨t, a, evArg w a, none⟩], by simp [World.log, h0]⟩

theorem all_true (p : Prog) : p.all (fun _ _ => true) = true := by
  induction p <;> simp_all [Prog.all]

theorem run_trace (p : Prog) (b : Budget) (w : World α) : ∃ l, (run p b w).w.trace = l ++ w.trace :=
  run_rel (fun x y => ∃ l, y.trace = l ++ x.trace) (fun _ => ⟨[], rfl⟩)
    (fun x y z ⟨l1, h1⟩ ⟨l2, h2⟩ => ⟨l2 ++ l1, by rw [h2, h1, List.append_assoc]⟩)
    (fun _ _ => true) (fun t a b w _ => step_trace t a b w) p (all_true p) b w

theorem nth_of_append (w w' : World α) (l : List (Ev α)) (h : w'.trace = l ++ w.trace) (i : Nat) (ev : Ev α)
    (hi : w.nth i = some ev) : w'.nth i = some ev := by
  unfold World.nth at hi ⊢
  rw [h, List.reverse_append]
  have hlt : i < w.trace.reverse.length := by
    rcases Nat.lt_or_ge i w.trace.reverse.length with h | h
    · exact h
    · rw [List.getElem?_eq_none h] at hi; cases hi
  rw [List.getElem?_append_left hlt]; exact hi

theorem run_nth (p : Prog) (b : Budget) (w : World α) (i : Nat) (ev : Ev α) (hi : w.nth i = some ev) :
    (run p b w).w.nth i = some ev := by
  obtain ⟨l, h⟩ := run_trace p b w
  exact nth_of_append w _ l h i ev hi

/-- the relation between the run under `pending k e a` (`r`) and the fault-free run (`r0`),
    both started in `w` -/
structure Sim (k : Nat) (e : Exc) (a : Bool) (w : World α) (r r0 : Res α) : Prop where
  notNever : r.b ≠ .never
  pend : ∀ k' e' a', r.b = .pending k' e' a' →
    r.w = r0.w ∧ r.out = r0.out ∧ e' = e ∧ a' = a ∧ k' + r.w.trace.length = k + w.trace.length
  fired : ∀ t, r.b = .fired t → ∃ ev, r0.w.nth (w.trace.length + k) = some ev ∧ ev.tag = t

theorem sim_step (t : Tag) (a : Act) (k : Nat) (e : Exc) (af : Bool) (w : World α) :
    Sim k e af w (step t a (.pending k e af) w) (step t a .never w) := by
  have h0 : (applyAct w a).trace = w.trace := by cases a <;> rfl
  by_cases hp : a.pure = true
  · have h1 : step t a (.pending k e af) w = ⟨applyAct w a, .pending k e af, .normal⟩ := by
      unfold step; simp [hp]
    have h2 : step t a .never w = ⟨applyAct w a, .never, .normal⟩ := by
      unfold step; simp [hp]
    rw [h1, h2]
    refine ⟨(fun h => nomatch h), ?_, (fun t h => nomatch h)⟩
    intro k' e' a' h
    cases h
    exact ⟨rfl, rfl, rfl, rfl, by rw [h0]⟩
  · have h2 : step t a .never w = ⟨(applyAct w a).log ⟨t, a, evArg w a, none⟩, .never, .normal⟩ := by
      unfold step; simp [hp]
    rw [h2]
    cases k with
    | zero =>
      have h1 : step t a (.pending 0 e af) w =
          ⟨(if af then applyAct w a else w).log ⟨t, a, evArg w a, some (e, af)⟩, .fired t, .raised e⟩ := by
        unfold step; simp [hp]
      rw [h1]
      refine ⟨(fun h => nomatch h), (fun k' e' a' h => nomatch h), ?_⟩
      intro t' h
      cases h
      refine ⟨⟨t, a, evArg w a, none⟩, ?_, rfl⟩
      simp [World.nth, World.log, h0]
    | succ k =>
      have h1 : step t a (.pending (k + 1) e af) w =
          ⟨(applyAct w a).log ⟨t, a, evArg w a, none⟩, .pending k e af, .normal⟩ := by
        unfold step; simp [hp]
      rw [h1]
      refine ⟨(fun h => nomatch h), ?_, (fun t h => nomatch h)⟩
      intro k' e' a' h
      cases h
      refine ⟨rfl, rfl, rfl, rfl, ?_⟩
      simp only [World.log, h0, List.length_cons]; omega

/-- transport `Sim` along a common prefix of both runs -/
theorem Sim.trans_pending {k k' : Nat} {e : Exc} {a : Bool} {w w1 : World α} {r r0 : Res α}
    (hk : k' + w1.trace.length = k + w.trace.length) (h : Sim k' e a w1 r r0) : Sim k e a w r r0 := by
  refine ⟨h.notNever, ?_, ?_⟩
  · intro k'' e' a' hb
    obtain ⟨h1, h2, h3, h4, h5⟩ := h.pend k'' e' a' hb
    exact ⟨h1, h2, h3, h4, by omega⟩
  · intro t hb
    obtain ⟨ev, h1, h2⟩ := h.fired t hb
    refine ⟨ev, ?_, h2⟩
    have : w.trace.length + k = w1.trace.length + k' := by omega
    rw [this]; exact h1

/-- once the fault has fired, whatever both runs go on to do keeps the `k`-th logged action -/
theorem Sim.of_fired {k : Nat} {e : Exc} {a : Bool} {w : World α} {r r0 : Res α} {t : Tag}
    (hb : r.b = .fired t) (ev : Ev α) (hev : r0.w.nth (w.trace.length + k) = some ev) (ht : ev.tag = t) :
    Sim k e a w r r0 := by
  refine ⟨(by rw [hb]; exact fun h => nomatch h), ?_, ?_⟩
  · intro k' e' a' h; rw [hb] at h; cases h
  · intro t' h; rw [hb] at h; cases h; exact ⟨ev, hev, ht⟩

theorem run_tryFinally_out (p f : Prog) (b : Budget) (w : World α) :
    (run (tryFinally p f) b w).out =
      match (run f (run p b w).b (run p b w).w).out with
      | .normal => (run p b w).out
      | o => o := by
  simp only [run]; split <;> simp_all

theorem sim_run (p : Prog) (k : Nat) (e : Exc) (a : Bool) (w : World α) :
    Sim k e a w (run p (.pending k e a) w) (run p .never w) := by
  induction p generalizing k w with
  | skip => exact ⟨(fun h => nomatch h), fun _ _ _ h => by cases h; exact ⟨rfl, rfl, rfl, rfl, rfl⟩, (fun _ h => nomatch h)⟩
  | raise x => exact ⟨(fun h => nomatch h), fun _ _ _ h => by cases h; exact ⟨rfl, rfl, rfl, rfl, rfl⟩, (fun _ h => nomatch h)⟩
  | ret => exact ⟨(fun h => nomatch h), fun _ _ _ h => by cases h; exact ⟨rfl, rfl, rfl, rfl, rfl⟩, (fun _ h => nomatch h)⟩
  | act t ac => exact sim_step t ac k e a w
  | seq p q ihp ihq =>
    have h1 := ihp k w
    have hn0 := run_never p w
    cases hb : (run p (.pending k e a) w).b with
    | never => exact absurd hb h1.notNever
    | pending k' e' a' =>
      obtain ⟨hw, ho, rfl, rfl, hk⟩ := h1.pend _ _ _ hb
      by_cases hn : (run p (.pending k e' a') w).out = .normal
      · rw [run_seq_normal _ _ _ _ hn, run_seq_normal _ _ _ _ (ho ▸ hn), hb, hn0, ← hw]
        exact Sim.trans_pending hk (ihq k' _)
      · rw [run_seq_abrupt _ _ _ _ hn, run_seq_abrupt _ _ _ _ (ho ▸ hn)]
        exact h1
    | fired t =>
      obtain ⟨ev, hev, ht⟩ := h1.fired t hb
      have hr : (run (p ;; q) (.pending k e a) w).b = .fired t := by
        by_cases hn : (run p (.pending k e a) w).out = .normal
        · rw [run_seq_normal _ _ _ _ hn, hb]; exact run_fired _ _ _
        · rw [run_seq_abrupt _ _ _ _ hn]; exact hb
      refine Sim.of_fired hr ev ?_ ht
      by_cases hn : (run p .never w).out = .normal
      · rw [run_seq_normal _ _ _ _ hn]; exact run_nth _ _ _ _ _ hev
      · rw [run_seq_abrupt _ _ _ _ hn]; exact hev
  | tryFinally p f ihp ihf =>
    have h1 := ihp k w
    have hn0 := run_never p w
    cases hb : (run p (.pending k e a) w).b with
    | never => exact absurd hb h1.notNever
    | pending k' e' a' =>
      obtain ⟨hw, ho, rfl, rfl, hk⟩ := h1.pend _ _ _ hb
      have h2 := ihf k' (run p (.pending k e' a') w).w
      apply Sim.trans_pending hk
      refine ⟨?_, ?_, ?_⟩
      · rw [run_tryFinally_b, hb]; exact h2.notNever
      · intro k'' e'' a'' hbb
        rw [run_tryFinally_b, hb] at hbb
        obtain ⟨g1, g2, g3, g4, g5⟩ := h2.pend _ _ _ hbb
        refine ⟨?_, ?_, g3, g4, ?_⟩
        · rw [run_tryFinally_w, run_tryFinally_w, hb, hn0, ← hw]; exact g1
        · rw [run_tryFinally_out, run_tryFinally_out, hb, hn0, ← hw, ← ho, ← g2]
        · rw [run_tryFinally_w, hb]; exact g5
      · intro t hbb
        rw [run_tryFinally_b, hb] at hbb
        obtain ⟨ev, g1, g2⟩ := h2.fired t hbb
        refine ⟨ev, ?_, g2⟩
        rw [run_tryFinally_w, hn0, ← hw]; exact g1
    | fired t =>
      obtain ⟨ev, hev, ht⟩ := h1.fired t hb
      refine Sim.of_fired (t := t) ?_ ev ?_ ht
      · rw [run_tryFinally_b, hb, run_fired]
      · rw [run_tryFinally_w]; exact run_nth _ _ _ _ _ hev
  | tryExcept p c h ihp ihh =>
    have h1 := ihp k w
    have hn0 := run_never p w
    cases hb : (run p (.pending k e a) w).b with
    | never => exact absurd hb h1.notNever
    | pending k' e' a' =>
      obtain ⟨hw, ho, rfl, rfl, hk⟩ := h1.pend _ _ _ hb
      cases hout : (run p (.pending k e' a') w).out with
      | raised x =>
        have hout0 : (run p .never w).out = .raised x := by rw [← ho, hout]
        by_cases hc : c x = true
        · have e1 : run (tryExcept p c h) (.pending k e' a') w =
              run h (.pending k' e' a') (run p (.pending k e' a') w).w := by
            simp only [run, hout, hc, if_true, hb]
          have e2 : run (tryExcept p c h) .never w = run h .never (run p (.pending k e' a') w).w := by
            simp only [run, hout0, hc, if_true, hn0, hw]
          rw [e1, e2]
          exact Sim.trans_pending hk (ihh k' _)
        · have e1 : run (tryExcept p c h) (.pending k e' a') w = run p (.pending k e' a') w := by
            simp only [run, hout, hc]; rfl
          have e2 : run (tryExcept p c h) .never w = run p .never w := by
            simp only [run, hout0, hc]; rfl
          rw [e1, e2]; exact h1
      | normal =>
        have hout0 : (run p .never w).out = .normal := by rw [← ho, hout]
        have e1 : run (tryExcept p c h) (.pending k e' a') w = run p (.pending k e' a') w := by
          simp only [run, hout]
        have e2 : run (tryExcept p c h) .never w = run p .never w := by
          simp only [run, hout0]
        rw [e1, e2]; exact h1
      | returned =>
        have hout0 : (run p .never w).out = .returned := by rw [← ho, hout]
        have e1 : run (tryExcept p c h) (.pending k e' a') w = run p (.pending k e' a') w := by
          simp only [run, hout]
        have e2 : run (tryExcept p c h) .never w = run p .never w := by
          simp only [run, hout0]
        rw [e1, e2]; exact h1
    | fired t =>
      obtain ⟨ev, hev, ht⟩ := h1.fired t hb
      refine Sim.of_fired (t := t) ?_ ev ?_ ht
      · simp only [run]
        split
        · split
          · rw [hb]; exact run_fired _ _ _
          · exact hb
        · exact hb
      · simp only [run]
        split
        · split
          · exact run_nth _ _ _ _ _ hev
          · exact hev
        · exact hev
  | ifFlag p q ihp ihq =>
    simp only [run]
    split
    · exact ihp k w
    · exact ihq k w
  | call p ih =>
    have h1 := ih k w
    have hb : (run (call p) (.pending k e a) w).b = (run p (.pending k e a) w).b := by
      simp only [run]; split <;> rfl
    have hw : (run (call p) (.pending k e a) w).w = (run p (.pending k e a) w).w := by
      simp only [run]; split <;> rfl
    have hw0 : (run (call p) .never w).w = (run p .never w).w := by
      simp only [run]; split <;> rfl
    refine ⟨by rw [hb]; exact h1.notNever, ?_, ?_⟩
    · intro k' e' a' hbb
      rw [hb] at hbb
      obtain ⟨g1, g2, g3, g4, g5⟩ := h1.pend _ _ _ hbb
      refine ⟨by rw [hw, hw0]; exact g1, ?_, g3, g4, by rw [hw]; exact g5⟩
      cases hout : (run p (.pending k e a) w).out <;>
        simp only [run, hout, ← g2]
    · intro t hbb
      rw [hb] at hbb
      obtain ⟨ev, g1, g2⟩ := h1.fired t hbb
      exact ⟨ev, by rw [hw0]; exact g1, g2⟩

/-- THE INDEX LEMMA: if the run under "the `k`-th action raises" ends with the fault fired at
    tag `t`, then the `k`-th action the fault-free run performs carries tag `t`. -/
theorem fired_tag_is_kth (p : Prog) (k : Nat) (e : Exc) (a : Bool) (w : World α) (t : Tag)
    (h : (run p (.pending k e a) w).b = .fired t) :
    ∃ ev, (run p .never w).w.nth (w.trace.length + k) = some ev ∧ ev.tag = t := by
  exact (sim_run p k e a w).fired t h

end TIV.C13
