import TIV.C13.Proofs
import TIV.C13.Sim
import TIV.C13.Generated
/-!
# C13 — terminal attributes are always put back exactly as found

`run prog budget world` is the interpreter of `TIV/C13/Prog.lean`; `budget = pending k exc after`
is "the `k`-th effectful action raises `exc`" (before / after taking effect), `never` is the
fault-free run; the result's `b` is `fired tag` iff the fault fired, at an action tagged `tag`.
`cleanup o` tags exactly the actions of operation `o`'s own restore sequence — from the first
action of its `finally` block through its restoring `tcsetattr` (DESIGN §4 "Clean-up").
So `r.b ≠ fired (cleanup o)` reads: *no fault, or a fault anywhere except inside o's own
clean-up*.  The theorems quantify over every initial attribute set `A` (the edited fields and
an opaque remainder of any type `α`), every content of the local variables, every script of
environment answers (how often input was ready, when time was up, what `more` said or raised),
every fault index, exception class and before/after flavour.
-/
namespace TIV.C13
open Prog

variable {α : Type}

/-- `read_tty`, every mode (`timeout` None / ≥ 0 / < 0 with any script), every `min`, `echo`:
    whatever happens — normal return, time-out, `more` raising, an exception or SIGINT at any
    action other than the restoring `tcsetattr` itself — the attributes end as they began. -/
theorem readTty_attrs_restored (min : Nat) (echo : Bool) (s : Script) (b : Budget) (w : World α)
    (hb : (run (readTty min echo s) b w).b ≠ .fired (.cleanup .readTty)) :
    (run (readTty min echo s) b w).w.attrs = w.attrs := by
  unfold readTty readFin at hb ⊢
  refine guarded_restore .rtOld _ .now _ _ .skip .skip rfl ?_ (readTry_neverAssigns _ (by decide) _ _)
    rfl rfl b w hb
  intro b w hn
  exact capture .rtOld .rtNew (by decide) _ rfl b w hn


/- non-vacuity: SIGINT instead of the second `tcsetattr` of a timed read with `min = 2`, echo on,
   from canonical mode: the fault fires (at a plain action), the `try` block had changed the
   attributes, and they are back. -/
example : (run (readTty 2 true (.timed false [true] .moreFalse)) (.pending 5 .kbdInt false) (exW exA)).b
    = .fired .plain := by decide
example : (run (readTry 2 (.timed false [true] .moreFalse)) .never
    (run (readPre 2 true (.timed false [true] .moreFalse)) .never (exW exA)).w).w.attrs ≠ exA := by decide
example : (run (readTty 2 true (.timed false [true] .moreFalse)) (.pending 5 .kbdInt false) (exW exA)).w.attrs
    = exA := by decide
/- the exclusion is needed: a fault *instead of* the restoring `tcsetattr` leaves raw mode behind -/
example : (run (readTty 0 false (.nonblock 0)) (.pending 4 .kbdInt false) (exW exA)).b
      = .fired (.cleanup .readTty) ∧
    (run (readTty 0 false (.nonblock 0)) (.pending 4 .kbdInt false) (exW exA)).w.attrs ≠ exA := by decide

/-- NESTED.  `query_terminal` (echo off with TCSAFLUSH, `write_tty`, nested timed `read_tty`
    which saves/changes/restores on its own): the fault may land anywhere — including on the
    nested `read_tty`'s restoring `tcsetattr` — except on `query_terminal`'s own restore; the
    attributes end as `query_terminal` found them. -/
theorem nested_restored (neg : Bool) (steps : List Bool) (en : Ending) (b : Budget) (w : World α)
    (hb : (run (queryTerminal true neg steps en) b w).b ≠ .fired (.cleanup .query)) :
    (run (queryTerminal true neg steps en) b w).w.attrs = w.attrs := by
  simp only [queryTerminal, if_true] at hb ⊢
  unfold queryFin at hb ⊢
  refine guarded_restore .qtOld _ .now _ _ .skip .skip rfl ?_ ?_ rfl rfl b w hb
  · intro b w hn
    exact capture .qtOld .qtNew (by decide) _ rfl b w hn
  · have h := readTty_neverAssigns .qtOld (by decide) (by decide) 0 false (.timed neg steps en)
    simp only [Prog.neverAssigns] at h
    simp only [queryTry, writeTty, Prog.neverAssigns, Prog.all, h]
    rfl

/- non-vacuity: the fault hits the *nested* `read_tty`'s restoring `tcsetattr` (action 10): that
   is not `query_terminal`'s own clean-up, the hypothesis holds, the outer `finally` restores. -/
example : (run (queryTerminal true false [] .timeUp) (.pending 10 .termiosError false) (exW exRaw)).b
      = .fired (.cleanup .readTty) ∧
    (run (queryTerminal true false [] .timeUp) (.pending 10 .termiosError false) (exW exRaw)).w.attrs
      = exRaw := by decide

/-- with queries disabled `query_terminal` performs no action at all -/
theorem query_disabled_untouched (neg : Bool) (steps : List Bool) (en : Ending) (b : Budget) (w : World α) :
    (run (queryTerminal false neg steps en) b w).w = w ∧ (run (queryTerminal false neg steps en) b w).out = .normal :=
  ⟨rfl, rfl⟩

/-- `draw` with echo suppression, cursor hidden or not, around ANY drawing part `body` (still
    frame, animation of any length, a subclass's own `_animate_`, nested queries …) that does
    not assign draw's local `old_attr`: whatever `body` does and wherever the fault lands outside
    draw's clean-up (`write("\n")` … restoring `tcsetattr`), the attributes end as they began. -/
theorem draw_attrs_restored (hide : Bool) (body : Prog) (hbody : body.neverAssigns .drOld = true)
    (b : Budget) (w : World α)
    (hb : (run (draw hide true body) b w).b ≠ .fired (.cleanup .draw)) :
    (run (draw hide true body) b w).w.attrs = w.attrs := by
  simp only [draw, drawFin, if_true] at hb ⊢
  refine guarded_restore .drOld _ .now _ _ (drawFinPre hide) (act .plain .finalize) rfl ?_ ?_ ?_ rfl b w hb
  · intro b w hn
    exact capture .drOld .drNew (by decide) _ rfl b w hn
  · simp only [Prog.neverAssigns] at hbody
    cases hide <;> simp only [drawTry, Prog.neverAssigns, Prog.all, hbody] <;> rfl
  · cases hide <;> rfl

/- non-vacuity: an `OSError` out of the second frame's write in a 3-frame animation; and the
   boundary: SIGINT in `write("\n")` of the `finally` block (clean-up) does leave echo off. -/
example : (run (draw true true (animBody 2)) (.pending 11 .osError true) (exW exA)).b = .fired .plain ∧
    (run (draw true true (animBody 2)) (.pending 11 .osError true) (exW exA)).out = .raised .osError ∧
    (run (draw true true (animBody 2)) (.pending 11 .osError true) (exW exA)).w.attrs = exA := by decide
example : (run (draw true true stillBody) (.pending 7 .kbdInt false) (exW exA)).b = .fired (.cleanup .draw) ∧
    (run (draw true true stillBody) (.pending 7 .kbdInt false) (exW exA)).w.attrs.echo = false := by decide

/-- `draw(echo_input=True)` (or output not a tty): draw itself never touches the attributes -/
theorem draw_echo_input_untouched (hide : Bool) (body : Prog) (hbody : body.neverSets = true)
    (b : Budget) (w : World α) : (run (draw hide false body) b w).w.attrs = w.attrs := by
  apply run_attrs
  simp only [Prog.neverSets] at hbody
  cases hide <;> simp only [draw, drawTry, drawFin, drawFinPre, Prog.neverSets, Prog.all, hbody] <;> rfl

/-- the literal drawing parts of the code are covered by `draw_attrs_restored` -/
theorem stillBody_wf : stillBody.neverAssigns .drOld = true := rfl

theorem animBody_wf (n : Nat) : (animBody n).neverAssigns .drOld = true := by
  have h := animLoop_all (fun _ a => !a.assigns .drOld) (inert_not_assigns .drOld) n
  simp only [animBody, Prog.neverAssigns, Prog.all, h]
  rfl

/-- ATTRS_RESTORED.  Every operation of the property, every initial attribute set `A`, every
    content of the locals, every fault plan `(k, exc, before/after)` or none: if the fault did
    not land inside the operation's own clean-up, the final attributes are exactly `A`. -/
theorem attrs_restored (op : Op) (hwf : op.wf) (A : KAttrs α) (regs : Var → PyAttrs α)
    (plan : Option (Nat × Exc × Bool))
    (hb : (run op.prog (planBudget plan) (World.init A regs)).b ≠ .fired (.cleanup op.owner)) :
    (run op.prog (planBudget plan) (World.init A regs)).w.attrs = A := by
  cases op with
  | readTty min echo s => exact readTty_attrs_restored min echo s _ _ hb
  | query neg steps en => exact nested_restored neg steps en _ _ hb
  | draw hide body => exact draw_attrs_restored hide body hwf _ _ hb

/-- INDEX FORM (DESIGN: "∀ k strictly before the restoring tcsetattr").  Number the effectful
    actions of the fault-free run 0, 1, 2, …  If the `k`-th of them is not an action of the
    operation's own clean-up (in particular: if `k` is smaller than the index of the first
    clean-up action, or if the run has fewer than `k+1` actions so that the fault never fires),
    then the run in which the `k`-th action raises `exc` — before or after taking effect — ends
    with exactly the attributes `A` it started with. -/
theorem attrs_restored_index (op : Op) (hwf : op.wf) (A : KAttrs α) (regs : Var → PyAttrs α)
    (k : Nat) (exc : Exc) (after : Bool)
    (hk : ∀ ev, (run op.prog .never (World.init A regs)).w.nth k = some ev → ev.tag ≠ .cleanup op.owner) :
    (run op.prog (.pending k exc after) (World.init A regs)).w.attrs = A := by
  refine attrs_restored op hwf A regs (some (k, exc, after)) ?_
  intro h
  obtain ⟨ev, h1, h2⟩ := fired_tag_is_kth op.prog k exc after (World.init A regs) _ h
  simp only [World.init, List.length_nil, Nat.zero_add] at h1
  exact hk ev h1 h2

/- non-vacuity: action 4 of a still-frame draw is `_render_`, not part of the clean-up -/
example : ∀ ev, (run (Op.draw true stillBody).prog .never (World.init exA fun _ => ⟨(), false, true, 9, 9⟩)).w.nth 4
    = some ev → ev.tag ≠ .cleanup .draw := by decide

/-- "exactly": what `tcgetattr` hands out, given back to `tcsetattr`, is the same kernel state
    (flags, both control characters as bytes, and the untouched remainder) -/
theorem roundtrip_exact (A : KAttrs α) : A.toPy.toK = A := toK_toPy A

/-- SEQUENCES (e.g. `get_terminal_name_version` = `query_terminal` then `read_tty`): operations
    run one after the other; if the fault lands in none of the three clean-up sequences, the
    attributes end as they began. -/
theorem sequence_restored (ops : List Op) (hwf : ∀ op ∈ ops, op.wf) (b : Budget) (w : World α)
    (hb : ∀ o, (run (ops.foldr (fun op k => op.prog ;; k) .skip) b w).b ≠ .fired (.cleanup o)) :
    (run (ops.foldr (fun op k => op.prog ;; k) .skip) b w).w.attrs = w.attrs := by
  induction ops generalizing b w with
  | nil => rfl
  | cons op rest ih =>
    simp only [List.foldr] at hb ⊢
    have hop : op.wf := hwf op (List.mem_cons_self ..)
    have one : ∀ (b : Budget) (w : World α), (run op.prog b w).b ≠ .fired (.cleanup op.owner) →
        (run op.prog b w).w.attrs = w.attrs := by
      intro b w h
      cases op with
      | readTty min echo s => exact readTty_attrs_restored min echo s _ _ h
      | query neg steps en => exact nested_restored neg steps en _ _ h
      | draw hide body => exact draw_attrs_restored hide body hop _ _ h
    by_cases hn : (run op.prog b w).out = .normal
    · rw [run_seq_normal _ _ _ _ hn] at hb ⊢
      have h1 : (run op.prog b w).b ≠ .fired (.cleanup op.owner) := by
        intro h
        apply hb op.owner
        rw [h]; exact run_fired _ _ _
      rw [ih (fun o ho => hwf o (List.mem_cons_of_mem _ ho)) _ _ hb, one b w h1]
    · rw [run_seq_abrupt _ _ _ _ hn] at hb ⊢
      exact one b w (hb op.owner)


/- non-vacuity: `query_terminal` then `read_tty()` (as in `get_terminal_name_version`), SIGINT in
   the second operation's `select` -/
example : (run ([Op.query false [true] .moreFalse, Op.readTty 0 false (.nonblock 1)].foldr
      (fun op k => op.prog ;; k) .skip) (.pending 19 .kbdInt false) (exW exA)).b = .fired .plain ∧
    (run ([Op.query false [true] .moreFalse, Op.readTty 0 false (.nonblock 1)].foldr
      (fun op k => op.prog ;; k) .skip) (.pending 19 .kbdInt false) (exW exA)).w.attrs = exA := by decide

/-- every fault-free run of `read_tty` — input exhausted, time up, `more` said stop, `more`
    raised — ends with the outcome the script dictates and with the attributes restored -/
theorem readTty_fault_free (min : Nat) (echo : Bool) (s : Script) (w : World α) :
    (run (readTty min echo s) .never w).out = s.outcome ∧
    (run (readTty min echo s) .never w).w.attrs = w.attrs :=
  ⟨readTty_never_out min echo s w,
   readTty_attrs_restored min echo s .never w (by rw [run_never]; exact fun h => nomatch h)⟩

/-- without a fault every operation restores, no side condition left -/
theorem fault_free_restored (op : Op) (hwf : op.wf) (A : KAttrs α) (regs : Var → PyAttrs α) :
    (run op.prog .never (World.init A regs)).w.attrs = A :=
  attrs_restored op hwf A regs none (by
    show (run op.prog .never _).b ≠ _
    rw [run_never]; exact fun h => nomatch h)

/-! ## tie to the source by the translator (`Generated.lean` is rewritten from the AST and the
signatures of the live functions on every run) -/

/-- the model's `tcgetattr`/`tcsetattr` skeleton — which call, which `when`, which local, and
    whether it sits before the `try`, inside it or in the `finally` — is the one of the source -/
theorem skeleton_matches_source :
    (readTty 1 true (.timed false [] .timeUp)).skeleton .readTty = Generated.readTtySkel ∧
    (queryTerminal true false [] .timeUp).skeleton .query = Generated.queryTerminalSkel ∧
    (draw true true stillBody).skeleton .draw = Generated.drawSkel := by decide

/-- the in-place edits of `new_attr` are the ones of the source (`read_tty`: the `echo` branch
    taken and `VMIN` as written for each mode are checked by the correspondence) -/
theorem edits_match_source :
    Generated.readTtyEdits =
      ["new_attr[3] &= ~termios.ICANON", "new_attr[6][termios.VTIME] = 0",
       "new_attr[6][termios.VMIN] = 0 if timeout is None else min",
       "new_attr[3] |= termios.ECHO", "new_attr[3] &= ~termios.ECHO",
       "new_attr[6][termios.VMIN] = 0"] ∧
    (readTty 1 true (.nonblock 0)).edits .readTty =
      ["new_attr[3] &= ~termios.ICANON", "new_attr[6][termios.VTIME] = 0",
       "new_attr[3] |= termios.ECHO", "new_attr[6][termios.VMIN] = 0"] ∧
    (queryTerminal true false [] .timeUp).edits .query = Generated.queryTerminalEdits ∧
    (draw true true stillBody).edits .draw = Generated.drawEdits := by decide

/-- the `finally` blocks: `read_tty`/`query_terminal` restore first thing; `draw` writes, writes
    (if the cursor was hidden), flushes, then restores (if echo was suppressed), then finalizes —
    the order the clean-up tags of `drawFinPre`/`drawFin` encode -/
theorem finally_blocks_match_source :
    Generated.readTtyFinally = ["tcsetattr"] ∧ Generated.queryTerminalFinally = ["tcsetattr"] ∧
    Generated.drawFinally = ["write", "if:write", "flush", "if:tcsetattr", "finalize"] ∧
    Generated.writeTtySkel = [("try", "tcdrain", "-", "-")] := by decide

/-- CLOSED WORLD.  An AST walk over every module of the package finds `tcsetattr` (or `tty.setraw`
    / `setcbreak` / `cfmakeraw`) mentioned in exactly the three modelled functions, and `termios.tc*`
    calls in those plus `write_tty` (`tcdrain`).  A new mode-changing site anywhere in the package
    changes the generated list, this theorem stops building, and the check runs the fault-injection
    histories of the public composite query functions (`get_terminal_name_version`,
    `get_fg_bg_colors`, `get_cell_size`, `KittyImage/ITerm2Image.is_supported`) against the
    attribute oracle. -/
theorem termios_sites_are_the_modelled_ones :
    Generated.tcsetattrSites =
      ["renderable._renderable:Renderable.draw", "utils:query_terminal", "utils:read_tty"] ∧
    Generated.termiosCallSites =
      ["renderable._renderable:Renderable.draw", "utils:query_terminal", "utils:read_tty",
       "utils:write_tty"] := by decide

/-- SIGNALS.  Nowhere does the package import `signal`, install a handler or touch the signal
    mask (`pthread_sigmask`, `siginterrupt`, `set_wakeup_fd`, …): a SIGINT is therefore an
    exception at an action boundary, which is what the fault plans of this file are.  Code that
    defers SIGINT breaks this obligation; the check then relies on the pending-signal model of the
    fake system-call layer and on real signals on a real pty. -/
theorem no_signal_handling : Generated.signalSites = [] := by decide

/-- defaults the model relies on: `read_tty()` is the non-blocking mode with `min = 0`, echo off;
    `query_terminal`'s `timeout or _query_timeout` is never `None`/0 (so the nested read is timed);
    `draw` suppresses echo and hides the cursor by default -/
theorem defaults_match_source :
    Generated.readTtyTimeoutDefaultIsNone = true ∧ Generated.readTtyMinDefault = 0 ∧
    Generated.readTtyEchoDefault = false ∧ Generated.queryTimeoutDefaultIsNone = true ∧
    Generated.defaultQueryTimeoutPositive = true ∧ Generated.drawEchoInputDefault = false ∧
    Generated.drawHideCursorDefault = true := by decide

end TIV.C13
