import TIV.C13.Prog
/-!
# C13 — the programs of the operations that change terminal modes

Line numbers refer to `src/term_image/utils.py` (`query_terminal` 587-628, `read_tty` 630-717,
`write_tty` 735-746) and `src/term_image/renderable/_renderable.py` (`draw` 476-591,
`_animate_` 700-813).  Each definition follows the statements of the function in order; the
environment's answers (is input ready, what did `more` say, is the time up) are a *script*
the program is unrolled over, so every finite run of the real loop is one `Prog`.
-/
namespace TIV.C13
open Prog Act Tag

/-- how the timed loop `while (timeout < 0 or duration < timeout) and more(input)` ends -/
inductive Ending
  | timeUp                 -- `duration < timeout` became false (for timeout < 0: the run is cut here)
  | moreFalse              -- `more(input)` returned False
  | moreRaises (e : Exc)   -- `more(input)` raised
  deriving DecidableEq, Repr

/-- the environment of one `read_tty` call -/
inductive Script
  /-- `timeout is None`: `n` = number of `select` calls that report input before one does not -/
  | nonblock (n : Nat)
  /-- `timeout` given; `neg` = `timeout < 0`; one entry per loop iteration that is entered
      (`more` said True), the entry = did `select` report input; then the `ending` -/
  | timed (neg : Bool) (steps : List Bool) (ending : Ending)
  deriving Repr

/-- l.694-696  `while select(r, w, x, 0.0)[0]: input.extend(os.read(_tty_fd, 100))` -/
def nbLoop : Nat → Prog
  | 0 => act plain (select .zero)
  | n + 1 => act plain (select .zero) ;; act plain (read 100) ;; nbLoop n

/-- l.707-712  the timed loop -/
def timedLoop (neg : Bool) : List Bool → Ending → Prog
  | [], .timeUp => skip
  | [], .moreFalse => act plain more
  | [], .moreRaises e => act plain more ;; raise e
  | ready :: rest, en =>
    act plain more ;;
    act plain (select (if neg then .inf else .pos)) ;;
    (if ready then act plain (read 1) else skip) ;;
    act plain clock ;;
    timedLoop neg rest en

def Script.vmin (min : Nat) : Script → Nat
  | .nonblock _ => 0
  | .timed .. => min

/-- l.692-712, the part of the `try` block after the first `tcsetattr` -/
def readBody (min : Nat) : Script → Prog
  | .nonblock n => nbLoop n
  | .timed neg steps en =>
    act plain clock ;;                                         -- start = monotonic()
    (if min > 0 then
       act plain (read min) ;;                                 -- os.read(_tty_fd, min)
       act plain (edit .rtNew (.vmin 0)) ;;
       act plain (tcset .now .rtNew)
     else skip) ;;
    act plain clock ;;                                         -- duration = monotonic() - start
    timedLoop neg steps en

/-- l.675-685: the two `tcgetattr` calls and the edits of `new_attr`, before the `try` -/
def readPre (min : Nat) (echo : Bool) (s : Script) : Prog :=
  act plain (tcget .rtOld) ;;
  act plain (tcget .rtNew) ;;
  act plain (edit .rtNew (.icanon false)) ;;
  act plain (edit .rtNew (.vtime 0)) ;;
  act plain (edit .rtNew (.echo echo)) ;;
  act plain (edit .rtNew (.vmin (s.vmin min)))

/-- the `try` block of `read_tty` -/
def readTry (min : Nat) (s : Script) : Prog :=
  act plain (tcset .now .rtNew) ;; readBody min s

/-- the `finally` block of `read_tty`, in the shape `finPre ;; restore ;; finPost` -/
def readFin : Prog :=
  skip ;; act (cleanup .readTty) (tcset .now .rtOld) ;; skip

/-- `read_tty(more, timeout, min, echo=echo)` -/
def readTty (min : Nat) (echo : Bool) (s : Script) : Prog :=
  readPre min echo s ;; tryFinally (readTry min s) readFin

/-- `write_tty(data)` l.742-746 -/
def writeTty : Prog :=
  act plain write ;; tryExcept (act plain drain) (fun e => e == .termiosError) skip

def queryPre : Prog :=
  act plain (tcget .qtOld) ;; act plain (tcget .qtNew) ;; act plain (edit .qtNew (.echo false))

/-- the `try` block of `query_terminal`: `timeout or _query_timeout` is never `None`, so the
    nested `read_tty` is always timed, with `min = 0`, `echo = False` -/
def queryTry (neg : Bool) (steps : List Bool) (en : Ending) : Prog :=
  act plain (tcset .flush .qtNew) ;; writeTty ;; readTty 0 false (.timed neg steps en)

def queryFin : Prog :=
  skip ;; act (cleanup .query) (tcset .now .qtOld) ;; skip

/-- `query_terminal(request, more, timeout)` l.617-628 -/
def queryTerminal (enabled neg : Bool) (steps : List Bool) (en : Ending) : Prog :=
  if enabled then queryPre ;; tryFinally (queryTry neg steps en) queryFin
  else skip                                                    -- `return None`

/-! ### `Renderable.draw` -/

def isKbd (e : Exc) : Bool := e == .kbdInt
def isStop (e : Exc) : Bool := e == .stopIteration

/-- l.554-557 (only when `not_echo_input`) -/
def drawPre : Prog :=
  act plain (tcget .drOld) ;; act plain (tcget .drNew) ;; act plain (edit .drNew (.echo false))

/-- l.559-562 followed by the animation / still-frame part `body` -/
def drawTry (hide nei : Bool) (body : Prog) : Prog :=
  (if hide then act plain (owrite .hide) else skip) ;;
  (if nei then act plain (tcset .flush .drNew) else skip) ;;
  body

/-- l.585-588: what the `finally` block does before it gets to the attributes -/
def drawFinPre (hide : Bool) : Prog :=
  act (cleanup .draw) (owrite .nl) ;;
  (if hide then act (cleanup .draw) (owrite .showCur) else skip) ;;
  act (cleanup .draw) oflush

/-- l.585-591 -/
def drawFin (hide nei : Bool) : Prog :=
  if nei then drawFinPre hide ;; act (cleanup .draw) (tcset .now .drOld) ;; act plain finalize
  else drawFinPre hide ;; act plain finalize

/-- `draw(…)` from l.554 on (after `_init_render_`), for `hide_cursor and isatty` = `hide`,
    `OS_IS_UNIX and not echo_input and isatty` = `nei`, with the drawing part `body` -/
def draw (hide nei : Bool) (body : Prog) : Prog :=
  (if nei then drawPre else skip) ;; tryFinally (drawTry hide nei body) (drawFin hide nei)

/-- l.568-583 the non-animated part -/
def stillBody : Prog :=
  act plain render ;;
  tryExcept (act plain (owrite .frame) ;; act plain oflush) isKbd (act plain handle ;; raise .kbdInt)

/-- one pass of `for frame in render_iter:` l.778-801 per remaining frame -/
def animLoop : Nat → Prog
  | 0 => skip
  | n + 1 =>
    act plain render ;;
    act plain sleep ;;
    tryExcept (act plain (owrite .frame) ;; act plain oflush) isKbd (act plain handle ;; ret) ;;
    act plain (owrite .move) ;; act plain oflush ;;
    animLoop n

/-- `_animate_` l.746-813 for an iterator that yields `1 + n` frames -/
def animBody (n : Nat) : Prog :=
  call (tryFinally
    (tryExcept
      (tryExcept (act plain render) isStop ret ;;
       tryExcept (act plain (owrite .frame) ;; act plain oflush) isKbd (act plain handle ;; ret) ;;
       act plain (owrite .move) ;; act plain oflush ;;
       act plain setFlag ;;
       animLoop n ;;
       act plain sleep)
      isKbd skip)
    (act plain iterClose ;; ifFlag (act plain (owrite .other) ;; act plain oflush) skip))

/-- `get_cell_size` l.~433-440: `try: fcntl.ioctl(…) except OSError: pass` before the XTWINOPS query -/
def cellSizeIoctl : Prog :=
  tryExcept (act plain ioctl) (fun e => e == .osError) skip

/-! ### the operations of the property -/

inductive Op
  | readTty (min : Nat) (echo : Bool) (s : Script)
  | query (neg : Bool) (steps : List Bool) (en : Ending)
  | draw (hide : Bool) (body : Prog)           -- with echo suppression (`nei = true`)

def Op.prog : Op → Prog
  | .readTty min echo s => TIV.C13.readTty min echo s
  | .query neg steps en => queryTerminal true neg steps en
  | .draw hide body => TIV.C13.draw hide true body

def Op.owner : Op → Owner
  | .readTty .. => .readTty
  | .query .. => .query
  | .draw .. => .draw

/-- every action of the program (with its tag) satisfies `ok` -/
def Prog.all (ok : Tag → Act → Bool) : Prog → Bool
  | .act t a => ok t a
  | .seq p q => p.all ok && q.all ok
  | .tryFinally p q => p.all ok && q.all ok
  | .tryExcept p _ h => p.all ok && h.all ok
  | .ifFlag p q => p.all ok && q.all ok
  | .call p => p.all ok
  | _ => true

/-- the action assigns variable `v` (by `tcgetattr` or an in-place edit) -/
def Act.assigns (v : Var) : Act → Bool
  | .tcget u => u == v
  | .edit u _ => u == v
  | _ => false

def Act.isTcset : Act → Bool
  | .tcset _ _ => true
  | _ => false

/-- actions that touch neither the terminal attributes nor any local -/
def Act.inert : Act → Bool
  | .tcget _ | .edit _ _ | .tcset _ _ | .setFlag => false
  | _ => true

/-- a straight-line block of inert actions all tagged `t` (the part of a `finally` block that
    precedes the restoring `tcsetattr`) -/
def Prog.straight (t : Tag) : Prog → Bool
  | .skip => true
  | .act t' a => t' == t && a.inert
  | .seq p q => p.straight t && q.straight t
  | _ => false

/-- no statement of the program assigns variable `v` -/
def Prog.neverAssigns (v : Var) (p : Prog) : Bool := p.all fun _ a => !a.assigns v

/-- the program never calls `tcsetattr` -/
def Prog.neverSets (p : Prog) : Bool := p.all fun _ a => !a.isTcset

/-- locals are private to an activation: the drawing part of `draw` cannot assign `old_attr` -/
def Op.wf : Op → Prop
  | .draw _ body => body.neverAssigns .drOld = true
  | _ => True

/-! ### the termios skeleton of a program, in the vocabulary of the source (tied to the AST of the
live functions by `Props.skeleton_matches_source`) -/

def Var.pyName : Var → String
  | .rtOld | .qtOld | .drOld => "old_attr"
  | .rtNew | .qtNew | .drNew => "new_attr"

def Var.frame : Var → Owner
  | .rtOld | .rtNew => .readTty
  | .qtOld | .qtNew => .query
  | .drOld | .drNew => .draw

def When.pyName : When → String
  | .now => "TCSANOW"
  | .flush => "TCSAFLUSH"

/-- the `tcgetattr`/`tcsetattr` calls on the locals of activation `o`, in program order -/
def Prog.calls (o : Owner) (region : String) : Prog → List (String × String × String × String)
  | .act _ (.tcget v) => if v.frame = o then [(region, "tcgetattr", "-", v.pyName)] else []
  | .act _ (.tcset w v) => if v.frame = o then [(region, "tcsetattr", w.pyName, v.pyName)] else []
  | .seq p q => p.calls o region ++ q.calls o region
  | .tryFinally p q => p.calls o region ++ q.calls o region
  | .tryExcept p _ h => p.calls o region ++ h.calls o region
  | .ifFlag p q => p.calls o region ++ q.calls o region
  | .call p => p.calls o region
  | _ => []

/-- (region, function, when, variable) for a function of the shape `pre; try: … finally: …` -/
def Prog.skeleton (o : Owner) : Prog → List (String × String × String × String)
  | .seq pre (.tryFinally body fin) => pre.calls o "pre" ++ body.calls o "try" ++ fin.calls o "finally"
  | p => p.calls o "pre"

/-- the in-place edits of `new_attr`, as source statements -/
def Edit.pySrc : Edit → String
  | .echo true => "new_attr[3] |= termios.ECHO"
  | .echo false => "new_attr[3] &= ~termios.ECHO"
  | .icanon false => "new_attr[3] &= ~termios.ICANON"
  | .icanon true => "new_attr[3] |= termios.ICANON"
  | .vmin n => s!"new_attr[6][termios.VMIN] = {n}"
  | .vtime n => s!"new_attr[6][termios.VTIME] = {n}"

def Prog.edits (o : Owner) : Prog → List String
  | .act _ (.edit v e) => if v.frame = o then [e.pySrc] else []
  | .seq p q => p.edits o ++ q.edits o
  | .tryFinally p q => p.edits o ++ q.edits o
  | .tryExcept p _ h => p.edits o ++ h.edits o
  | .ifFlag p q => p.edits o ++ q.edits o
  | .call p => p.edits o
  | _ => []

def World.init {α} (A : KAttrs α) (regs : Var → PyAttrs α) : World α :=
  { attrs := A, regs := regs, flag := false, trace := [] }

def planBudget : Option (Nat × Exc × Bool) → Budget
  | none => .never
  | some (k, e, after) => .pending k e after

end TIV.C13
