import TIV.Common.TermDrive
import TIV.C01.Model
/-! driver ops of C01 (also serves C02's line op and the shared `term.run` / `tok.str`) -/
namespace TIV.C01
open TIV TIV.Wire

def toNats (bs : List UInt8) : List Nat := bs.map (·.toNat)

def rgbs : List Nat → List RGB
  | r :: g :: b :: rest => (r, g, b) :: rgbs rest
  | _ => []

def pBg : P (Option RGB) := do
  let w ← word
  if w == "none" then pure none
  else match TermDrive.nats w with
    | some [r, g, b] => pure (some (r, g, b))
    | _ => failure

def pCfg : P Block.Cfg := do
  let alpha ← bool; let kitty ← bool; let bgColor ← pBg; let split ← bool
  pure { alpha, kitty, bgColor, split }

def strHex (s : String) : String := hexEncode s.toUTF8.toList

def handler : Handler := fun op args =>
  match op with
  | "block" => run (do
      let cfg ← pCfg; let width ← nat; let rgb ← hex; let a ← hex
      let px := rgbs (toNats rgb)
      let rows := Block.rowPairs width px (toNats a) (px.length + 1)
      pure ("ok " ++ strHex (toksStr (Block.render cfg rows)))) args
  | "kitty" => run (do
      let whole ← bool; let blend ← bool; let mix ← bool; let z ← int; let level ← nat; let fmt ← nat
      let rw ← nat; let rh ← nat; let width ← nat; let height ← nat
      let ps ← listOf hex
      let a : KittyArgs := { whole, blend, mix, z, level, fmt, rw, rh, width, height }
      pure ("ok " ++ strHex (toksStr (joinLines (kittyLinesOf a (ps.map toNats)))))) args
  | "iterm" => run (do
      let whole ← bool; let konsole ← bool; let wezterm ← bool; let mix ← bool
      let rw ← nat; let rh ← nat
      let ps ← listOf hex
      let a : ITermArgs := { whole, konsole, wezterm, mix, rw, rh }
      pure ("ok " ++ strHex (toksStr (joinLines (itermLinesOf a (ps.map toNats)))))) args
  | _ => TermDrive.handler op args

end TIV.C01
