import TIV.C01.Model
import TIV.Common.ScanProofs
import TIV.Common.Base64Proofs
import TIV.C03.Props
import TIV.Common.BlockProofs
import TIV.Common.Gfx
/-! the tokens the three render models produce are well formed (`Scan.WfTok`), contain no `lf`
    inside a line, and every line ends in a non-`lf` token with a non-empty serialisation -/
namespace TIV.C01
open TIV Scan

theorem count_lf_joinLines (ls : List (List Tok)) (h : ∀ l ∈ ls, Tok.lf ∉ l) :
    (joinLines ls).count .lf = ls.length - 1 := by
  induction ls with
  | nil => rfl
  | cons l rest ih =>
    have hl : l.count .lf = 0 := List.count_eq_zero_of_not_mem (h l (by simp))
    cases rest with
    | nil => simp [joinLines, hl]
    | cons l2 rest2 =>
      have := ih (fun m hm => h m (by simp [hm]))
      simp only [joinLines, List.count_append, List.count_cons, hl] at this ⊢
      simp at this ⊢; omega

theorem mem_joinLines {ls : List (List Tok)} {t : Tok} (h : t ∈ joinLines ls) : t = .lf ∨ ∃ l ∈ ls, t ∈ l := by
  induction ls with
  | nil => simp [joinLines] at h
  | cons l rest ih =>
    cases rest with
    | nil => simp [joinLines] at h; exact Or.inr ⟨l, by simp, h⟩
    | cons l2 rest2 =>
      simp only [joinLines, List.mem_append, List.mem_cons] at h
      rcases h with h | h | h
      · exact Or.inr ⟨l, by simp, h⟩
      · exact Or.inl h
      · rcases ih h with h | ⟨m, hm, ht⟩
        · exact Or.inl h
        · exact Or.inr ⟨m, by simp [hm], ht⟩

/-! ### base64 output is printable ASCII -/
theorem chr_range (n : Nat) : 43 ≤ Base64.chr n ∧ Base64.chr n ≤ 122 := by
  unfold Base64.chr; split <;> (try split) <;> (try split) <;> (try split) <;> omega

theorem enc_range (x : List Nat) : ∀ b ∈ Base64.enc x, 43 ≤ b ∧ b ≤ 122 := by
  fun_induction Base64.enc x with
  | case1 => simp
  | case2 a =>
    intro b hb; simp at hb
    rcases hb with rfl | rfl | rfl <;> first | exact chr_range _ | (simp [Base64.pad])
  | case3 a b =>
    intro c hc; simp at hc
    rcases hc with rfl | rfl | rfl | rfl <;> first | exact chr_range _ | (simp [Base64.pad])
  | case4 a b c rest ih =>
    intro d hd; simp at hd
    rcases hd with rfl | rfl | rfl | rfl | hd <;> first | exact chr_range _ | exact ih d hd

theorem ofNat_strChar (b : Nat) (h : 32 ≤ b ∧ b ≤ 126) : isStrChar (Char.ofNat b) = true := by
  have hv : (Char.ofNat b).toNat = b := by
    unfold Char.ofNat
    have : b.isValidChar := Or.inl (by omega)
    simp [this, Char.ofNatAux, Char.toNat]
  simp [isStrChar, hv]; omega

theorem enc_strChars (x : List Nat) : ∀ b ∈ Base64.enc x, isStrChar (Char.ofNat b) = true := by
  intro b hb; have := enc_range x b hb; exact ofNat_strChar b (by omega)

/-! ### control data is printable ASCII -/
theorem mem_intercalate {sep : List Char} {ls : List (List Char)} {c : Char}
    (h : c ∈ sep.intercalate ls) : c ∈ sep ∨ ∃ s ∈ ls, c ∈ s := by
  induction ls with
  | nil => simp [List.intercalate] at h
  | cons s rest ih =>
    cases rest with
    | nil => simp [List.intercalate, List.intersperse] at h; exact Or.inr ⟨s, by simp, h⟩
    | cons s2 rest2 =>
      have e : sep.intercalate (s :: s2 :: rest2) = s ++ sep ++ sep.intercalate (s2 :: rest2) := by
        simp [List.intercalate, List.intersperse]
      rw [e] at h
      simp only [List.mem_append] at h
      rcases h with (h | h) | h
      · exact Or.inr ⟨s, by simp, h⟩
      · exact Or.inl h
      · rcases ih h with h | ⟨u, hu, hc⟩
        · exact Or.inl h
        · exact Or.inr ⟨u, by simp [hu], hc⟩

theorem kv_strChars (k : String) (v : Option String) (hk : ∀ c ∈ k.toList, isStrChar c = true)
    (hv : ∀ s, v = some s → ∀ c ∈ s.toList, isStrChar c = true) :
    ∀ s ∈ C03.kv k v, ∀ c ∈ s.toList, isStrChar c = true := by
  intro s hs c hc
  cases v with
  | none => simp [C03.kv] at hs
  | some val =>
    simp [C03.kv] at hs; subst hs
    simp only [String.toList_append, List.mem_append] at hc
    rcases hc with (h | h) | h
    · exact hk c h
    · revert c; decide
    · exact hv val rfl c h

theorem control_strChars (d : C03.Control) (ha : ∀ s, d.a = some s → ∀ c ∈ s.toList, isStrChar c = true)
    (ht : ∀ s, d.t = some s → ∀ c ∈ s.toList, isStrChar c = true)
    (ho : ∀ s, d.o = some s → ∀ c ∈ s.toList, isStrChar c = true) :
    ∀ c ∈ d.render.toList, isStrChar c = true := by
  intro c hc
  unfold C03.Control.render at hc
  rw [String.toList_intercalate] at hc
  rcases mem_intercalate hc with h | ⟨s, hs, hcs⟩
  · have e : ",".toList = [','] := by decide
    rw [e] at h; simp at h; subst h; decide
  · simp only [List.mem_map, List.mem_append] at hs
    obtain ⟨str, hstr, rfl⟩ := hs
    have hn : ∀ (o : Option Nat) (s : String), o.map toString = some s → ∀ c ∈ s.toList, isStrChar c = true := by
      intro o s h c hc
      cases o with
      | none => simp at h
      | some n => simp at h; subst h; exact natStr_strChars n c hc
    have hz : ∀ (o : Option Int) (s : String), o.map toString = some s → ∀ c ∈ s.toList, isStrChar c = true := by
      intro o s h c hc
      cases o with
      | none => simp at h
      | some n => simp at h; subst h; exact intStr_strChars n c hc
    rcases hstr with ((((((((h | h) | h) | h) | h) | h) | h) | h) | h) | h
    · exact kv_strChars "a" d.a (by decide) ha str h c hcs
    · exact kv_strChars "f" _ (by decide) (hn d.f) str h c hcs
    · exact kv_strChars "t" d.t (by decide) ht str h c hcs
    · exact kv_strChars "s" _ (by decide) (hn d.s) str h c hcs
    · exact kv_strChars "v" _ (by decide) (hn d.v) str h c hcs
    · exact kv_strChars "z" _ (by decide) (hz d.z) str h c hcs
    · exact kv_strChars "o" d.o (by decide) ho str h c hcs
    · exact kv_strChars "C" _ (by decide) (hn d.C) str h c hcs
    · exact kv_strChars "c" _ (by decide) (hn d.c) str h c hcs
    · exact kv_strChars "r" _ (by decide) (hn d.r) str h c hcs

theorem wf_kittyCmd (fmt width v z : Int) (rw r level : Nat) (p : List Nat) :
    WfTok (.kitty (kittyCmd fmt width v z rw r level p)) := by
  refine ⟨?_, ?_⟩
  · apply control_strChars
    · intro s hs c hc
      simp [C03.Control.withLevel] at hs
      split at hs <;> (simp at hs; subst hs; revert c; decide)
    · intro s hs c hc
      simp [C03.Control.withLevel] at hs
      split at hs <;> (simp at hs; subst hs; revert c; decide)
    · intro s hs c hc
      simp [C03.Control.withLevel] at hs
      split at hs <;> simp at hs <;> (try (subst hs; revert c; decide))
  · intro ch hch b hb
    have hcat := C03.chunks_concat 4096 (by decide) (Base64.enc p)
    have : b ∈ Base64.enc p := by
      rw [← hcat]
      simp only [List.mem_flatten, List.mem_map]
      exact ⟨ch.2, ⟨ch, hch, rfl⟩, hb⟩
    exact enc_strChars p b this


theorem wf_itermCmd (w h : Nat) (konsole : Bool) (p : List Nat) : WfTok (.iterm (itermCmd w h konsole p)) := by
  refine ⟨?_, fun b hb => enc_strChars p b hb⟩
  intro c hc
  have hd := fun n c (h : c ∈ Nat.toDigits 10 n) => digit_isStrChar h
  simp only [itermCmd, toString, String.toList_append, List.mem_append] at hc
  simp only [Nat.toList_repr] at hc
  rcases hc with ((((((h | h) | h) | h) | h) | h) | h) | h
  · revert c; decide
  · exact hd _ c h
  · revert c; decide
  · exact hd _ c h
  · revert c; decide
  · exact hd _ c h
  · revert c; decide
  · cases konsole <;> (revert c; decide)

theorem isBlock_wf (t : Tok) (h : t.isBlock = true) : WfTok t ∧ t ≠ .lf := by
  cases t <;> simp [Tok.isBlock] at h <;> first | exact ⟨trivial, by simp⟩ | skip
  rename_i g
  cases g <;> simp [Tok.isBlock] at h <;> exact ⟨trivial, by simp⟩

theorem blockLine_toks (cfg : Block.Cfg) (row : List Block.PP) :
    ∀ t ∈ Block.line cfg row ++ [Tok.sgr0], WfTok t ∧ t ≠ .lf := by
  intro t ht
  rcases List.mem_append.mp ht with h | h
  · exact isBlock_wf t (Block.line_block cfg row t h)
  · simp at h; subst h; exact ⟨trivial, by simp⟩

/-- well-formedness and "no `lf` inside a line" for all lines of a render, given it per line -/
theorem lines_wf (ls : List (List Tok)) (h : ∀ l ∈ ls, ∀ t ∈ l, WfTok t ∧ t ≠ .lf) :
    (∀ t ∈ joinLines ls, WfTok t) ∧ (∀ l ∈ ls, Tok.lf ∉ l) := by
  refine ⟨?_, fun l hl hm => (h l hl _ hm).2 rfl⟩
  intro t ht
  rcases mem_joinLines ht with rfl | ⟨l, hl, htl⟩
  · trivial
  · exact (h l hl t htl).1

theorem block_lines_wf (cfg : Block.Cfg) (rows : List (List Block.PP)) :
    ∀ l ∈ Block.renderLines cfg rows, ∀ t ∈ l, WfTok t ∧ t ≠ .lf := by
  intro l hl t ht
  simp only [Block.renderLines, List.mem_map] at hl
  obtain ⟨row, _, rfl⟩ := hl
  exact blockLine_toks cfg row t ht

theorem fill_wf (mix : Bool) (w : Nat) : ∀ t ∈ Gfx.fillToks mix w, WfTok t ∧ t ≠ .lf := by
  intro t ht
  cases mix <;> simp [Gfx.fillToks] at ht
  · rcases ht with rfl | rfl <;> exact ⟨trivial, by simp⟩
  · subst ht; exact ⟨trivial, by simp⟩

theorem kitty_lines_wf (a : KittyArgs) (payloads : List (List Nat)) :
    ∀ l ∈ kittyLinesOf a payloads, ∀ t ∈ l, WfTok t ∧ t ≠ .lf := by
  have hline : ∀ k, WfTok (.kitty k) → ∀ t ∈ Gfx.kittyLine a.blend a.mix a.rw k, WfTok t ∧ t ≠ .lf := by
    intro k hk t ht
    simp only [Gfx.kittyLine, List.mem_append, List.mem_singleton] at ht
    rcases ht with (h | h) | h
    · cases hb : a.blend <;> simp [hb] at h; subst h; exact ⟨trivial, by simp⟩
    · subst h; exact ⟨hk, by simp⟩
    · exact fill_wf a.mix a.rw t h
  intro l hl t ht
  unfold kittyLinesOf at hl
  split at hl
  · cases payloads with
    | nil => simp at hl
    | cons p ps =>
      cases ps with
      | cons _ _ => simp at hl
      | nil =>
        simp only [Gfx.kittyWhole, List.mem_cons, List.mem_replicate] at hl
        rcases hl with rfl | ⟨_, rfl⟩
        · exact hline _ (wf_kittyCmd ..) t ht
        · exact fill_wf a.mix a.rw t ht
  · simp only [Gfx.kittyLines, List.mem_map] at hl
    obtain ⟨k, ⟨p, _, rfl⟩, rfl⟩ := hl
    exact hline _ (wf_kittyCmd ..) t ht

theorem iterm_lines_wf (a : ITermArgs) (payloads : List (List Nat)) :
    ∀ l ∈ itermLinesOf a payloads, ∀ t ∈ l, WfTok t ∧ t ≠ .lf := by
  have herase : ∀ e w, ∀ t ∈ Gfx.eraseToks e w, WfTok t ∧ t ≠ .lf := by
    intro e w t ht
    cases e <;> simp [Gfx.eraseToks] at ht
    subst ht; exact ⟨trivial, by simp⟩
  have hup : ∀ h, ∀ t ∈ Gfx.upToks h, WfTok t ∧ t ≠ .lf := by
    intro h t ht
    unfold Gfx.upToks at ht
    split at ht <;> simp at ht
    subst ht; exact ⟨trivial, by simp⟩
  intro l hl t ht
  unfold itermLinesOf at hl
  split at hl
  · cases payloads with
    | nil => simp at hl
    | cons p ps =>
      cases ps with
      | cons _ _ => simp at hl
      | nil =>
        simp only [Gfx.itermWhole] at hl
        cases hk : a.konsole
        · simp only [hk, Bool.false_eq_true, if_false, List.mem_append, List.mem_replicate, List.mem_singleton] at hl
          rcases hl with ⟨_, rfl⟩ | rfl
          · simp only [List.mem_append, List.mem_singleton] at ht
            rcases ht with h | rfl
            · exact herase _ _ t h
            · exact ⟨trivial, by simp⟩
          · simp only [List.mem_append, List.mem_singleton] at ht
            rcases ht with (h | h) | rfl
            · exact herase _ _ t h
            · exact hup _ t h
            · exact ⟨wf_itermCmd .., by simp⟩
        · simp only [hk, if_true, List.mem_cons, List.mem_replicate] at hl
          rcases hl with rfl | ⟨_, rfl⟩
          · simp only [List.mem_append, List.mem_cons, List.not_mem_nil, or_false] at ht
            rcases ht with h | rfl | rfl
            · exact herase _ _ t h
            · exact ⟨wf_itermCmd .., by simp⟩
            · exact ⟨trivial, by simp⟩
          · simp at ht; subst ht; exact ⟨trivial, by simp⟩
  · simp only [Gfx.itermLines, List.mem_map] at hl
    obtain ⟨c, ⟨p, _, rfl⟩, rfl⟩ := hl
    simp only [Gfx.itermLine, List.mem_append, List.mem_singleton] at ht
    rcases ht with (h | rfl) | h
    · exact herase _ _ t h
    · exact ⟨wf_itermCmd .., by simp⟩
    · cases hk : a.konsole <;> simp [hk] at h
      subst h; exact ⟨trivial, by simp⟩

end TIV.C01
