import TIV.Common.DriverMain
import TIV.C01.Drive
def main : IO Unit := TIV.driverMain TIV.C01.handler
