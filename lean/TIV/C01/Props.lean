import TIV.C01.Model
import TIV.Common.BlockProofs
import TIV.Common.GfxProofs
import TIV.Common.GenCtl
/-!
# C01 — a render output occupies exactly its advertised columns × lines rectangle.

For each of the three renderers, for every input data (pixels, payloads), every size, every
flag combination and every terminal state in which the `w × h` block fits at the cursor:
running the render's tokens changes only cells of the block, covers every cell of it, does not
scroll or wrap, ends on the last line at `min (x+w) (W-1)` and leaves the text attributes reset
(text) / untouched (graphics).  (`BlockEffect`, TIV/Common/WB.lean.)
-/
namespace TIV.C01
open TIV Term

/-- the control sequence templates are the ones the token serialiser was written for -/
theorem generated_templates :
    GenCtl.CURSOR_UP = ["\x1b[", "A"] ∧ GenCtl.CURSOR_DOWN = ["\x1b[", "B"] ∧
    GenCtl.CURSOR_FORWARD = ["\x1b[", "C"] ∧ GenCtl.CURSOR_BACKWARD = ["\x1b[", "D"] ∧
    GenCtl.ERASE_CHARS = ["\x1b[", "X"] ∧ GenCtl.SGR_DEFAULT = ["\x1b[m"] ∧
    GenCtl.SGR_FG_DIRECT = ["\x1b[38;2;", ";", ";", "m"] ∧ GenCtl.SGR_BG_DIRECT = ["\x1b[48;2;", ";", ";", "m"] ∧
    GenCtl.KITTY_TRANSMISSION = ["\x1b_G", ";", "\x1b\\"] ∧
    GenCtl.KITTY_DELETE_CURSOR = ["\x1b_Ga=d,d=C;\x1b\\"] ∧
    GenCtl.ITERM2_START = ["\x1b]1337;File="] ∧ GenCtl.ST = ["\x1b\\"] ∧
    GenCtl.UPPER_PIXEL = "▀" ∧ GenCtl.LOWER_PIXEL = "▄" := by decide

/-- BLOCK: every pixel content, every size, kitty workaround / split cells / alpha on or off -/
theorem block_rect (cfg : Block.Cfg) (rows : List (List Block.PP)) (w h : Nat)
    (hh : rows.length = h) (hw : ∀ row ∈ rows, row.length = w) (hpos : 0 < h)
    (t : Term) (r0 x : Nat) (hlm : t.lm = x) (hR : Ready t r0 x w h 0) :
    BlockEffect t (t.run (Block.render cfg rows)) r0 x w h .reset := by
  unfold Block.render
  apply render_block (fun _ => True) w h .reset (fun j di => di = j) (Block.renderLines cfg rows)
    (by simp [Block.renderLines, hh]) hpos
  · intro j hj
    simp only [Block.renderLines, List.getElem_map]
    apply Block.blockLine_ok
    exact hw _ (List.getElem_mem _)
  · intro di hdi; exact ⟨di, hdi, rfl⟩
  · trivial
  · exact hlm
  · exact hR

theorem kitty_lines_rect (blend mix : Bool) (w h : Nat) (ks : List KittyCmd) (hlen : ks.length = h)
    (hk : ∀ k ∈ ks, k.cols = w ∧ k.rows = 1) (hpos : 0 < h)
    (t : Term) (r0 x : Nat) (hlm : t.lm = x) (hR : Ready t r0 x w h 0) :
    BlockEffect t (t.run (joinLines (Gfx.kittyLines blend mix w ks))) r0 x w h .kept := by
  apply render_block Gfx.anyKind w h .kept (fun j => Gfx.rowsFrom j 1) _
    (by simp [Gfx.kittyLines, hlen]) hpos
  · intro j hj
    have hj' : j < ks.length := by simpa [Gfx.kittyLines] using hj
    have hkj := hk ks[j] (List.getElem_mem _)
    have := Gfx.kittyLine_ok blend mix w h j ks[j] hkj.1 (by rw [hkj.2]; omega)
    rw [hkj.2] at this
    simpa [Gfx.kittyLines] using this
  · intro di hdi; exact ⟨di, hdi, by simp [Gfx.rowsFrom]⟩
  · trivial
  · exact hlm
  · exact hR

theorem kitty_whole_rect (blend mix : Bool) (w h : Nat) (k : KittyCmd) (hc : k.cols = w) (hr : k.rows = h)
    (hpos : 0 < h) (t : Term) (r0 x : Nat) (hlm : t.lm = x) (hR : Ready t r0 x w h 0) :
    BlockEffect t (t.run (joinLines (Gfx.kittyWhole blend mix w h k))) r0 x w h .kept := by
  apply render_block Gfx.anyKind w h .kept
    (fun j => if j = 0 then Gfx.rowsFrom 0 h else Gfx.noRows) _
    (by simp [Gfx.kittyWhole]; omega) hpos
  · intro j hj
    cases j with
    | zero =>
      simp only [Gfx.kittyWhole, List.getElem_cons_zero, if_true]
      have := Gfx.kittyLine_ok blend mix w h 0 k hc (by omega)
      rw [hr] at this; exact this
    | succ j =>
      simp only [Gfx.kittyWhole, List.getElem_cons_succ, List.getElem_replicate]
      simpa using Gfx.fill_ok mix w h (j + 1)
  · intro di hdi; exact ⟨0, hpos, by simp [Gfx.rowsFrom]; omega⟩
  · trivial
  · exact hlm
  · exact hR

/-- KITTY, both render methods, every payload, z-index, compression level, mix/blend flag -/
theorem kitty_rect (a : KittyArgs) (payloads : List (List Nat))
    (hp : payloads.length = if a.whole then 1 else a.rh) (hpos : 0 < a.rh)
    (t : Term) (r0 x : Nat) (hlm : t.lm = x) (hR : Ready t r0 x a.rw a.rh 0) :
    BlockEffect t (t.run (joinLines (kittyLinesOf a payloads))) r0 x a.rw a.rh .kept := by
  unfold kittyLinesOf
  split
  · rename_i hw
    rw [hw] at hp
    match payloads, hp with
    | [p], _ => exact kitty_whole_rect a.blend a.mix a.rw a.rh _ rfl rfl hpos t r0 x hlm hR
  · rename_i hw
    have hw' : a.whole = false := by simpa using hw
    rw [hw'] at hp
    apply kitty_lines_rect _ _ _ _ _ (by simpa using hp) _ hpos t r0 x hlm hR
    intro k hk
    simp only [List.mem_map] at hk
    obtain ⟨p, _, rfl⟩ := hk
    exact ⟨rfl, rfl⟩


/-- the kinds a render produced with `konsole := b` is meant for -/
def kindOf (konsole : Bool) : TermKind → Prop := if konsole then Gfx.isKonsole else Gfx.notKonsole

theorem iterm_lines_rect (erase konsole : Bool) (w h : Nat) (cs : List ITermCmd) (hlen : cs.length = h)
    (hc : ∀ c ∈ cs, c.cols = w ∧ c.rows = 1 ∧ c.noMove = konsole) (hpos : 0 < h)
    (t : Term) (r0 x : Nat) (hK : kindOf konsole t.kind) (hlm : t.lm = x) (hR : Ready t r0 x w h 0) :
    BlockEffect t (t.run (joinLines (Gfx.itermLines erase konsole w cs))) r0 x w h .kept := by
  apply render_block (kindOf konsole) w h .kept (fun j => Gfx.rowsFrom j 1) _
    (by simp [Gfx.itermLines, hlen]) hpos
  · intro j hj
    have hj' : j < cs.length := by simpa [Gfx.itermLines] using hj
    obtain ⟨h1, h2, h3⟩ := hc cs[j] (List.getElem_mem _)
    cases konsole
    · have := Gfx.itermLine_ok_other erase w h j cs[j] h1 h2 h3
      simpa [Gfx.itermLines, kindOf] using this
    · have := Gfx.itermLine_ok_konsole erase w h j cs[j] h1 (by rw [h2]; omega) h3
      rw [h2] at this
      simpa [Gfx.itermLines, kindOf] using this
  · intro di hdi; exact ⟨di, hdi, by simp [Gfx.rowsFrom]⟩
  · exact hK
  · exact hlm
  · exact hR

theorem iterm_whole_rect (erase konsole : Bool) (w h : Nat) (c : ITermCmd)
    (hc : c.cols = w ∧ c.rows = h ∧ c.noMove = konsole) (hpos : 0 < h)
    (t : Term) (r0 x : Nat) (hK : kindOf konsole t.kind) (hlm : t.lm = x) (hR : Ready t r0 x w h 0) :
    BlockEffect t (t.run (joinLines (Gfx.itermWhole erase konsole w h c))) r0 x w h .kept := by
  obtain ⟨h1, h2, h3⟩ := hc
  cases konsole
  · -- iterm2 / wezterm / others: reserve the lines, go back up, draw
    apply render_block Gfx.notKonsole w h .kept
      (fun j => if j = h - 1 then (fun di => di < h) else Gfx.noRows) _
      (by simp [Gfx.itermWhole]; omega) hpos
    · intro j hj
      have hj' : j < h := by simp [Gfx.itermWhole] at hj; omega
      simp only [Gfx.itermWhole, Bool.false_eq_true, if_false]
      by_cases hjl : j = h - 1
      · subst hjl
        rw [List.getElem_append_right (by simp)]
        simp only [List.length_replicate, Nat.sub_self, List.getElem_cons_zero, if_true]
        exact Gfx.itermWholeLast_ok_other erase w h c h1 h2 h3 hpos
      · rw [List.getElem_append_left (by simp; omega)]
        simp only [List.getElem_replicate, hjl, if_false]
        have := Gfx.fill_ok (!erase) w h j
        cases erase <;> exact LineOK.mono (K := Gfx.anyKind) (fun _ _ => trivial) (by simpa [Gfx.fillToks, Gfx.eraseToks] using this)
    · intro di hdi; exact ⟨h - 1, by omega, by simp; exact hdi⟩
    · exact hK
    · exact hlm
    · exact hR
  · -- konsole: draw first (the cursor stays), then walk down the right edge
    apply render_block Gfx.isKonsole w h .kept
      (fun j => if j = 0 then Gfx.rowsFrom 0 h else Gfx.noRows) _
      (by simp [Gfx.itermWhole]; omega) hpos
    · intro j hj
      simp only [Gfx.itermWhole, if_true]
      cases j with
      | zero =>
        simp only [List.getElem_cons_zero, if_true]
        have := Gfx.itermWholeFirst_ok_konsole erase w h c h1 (by omega) h3
        rw [h2] at this; exact this
      | succ j =>
        simp only [List.getElem_cons_succ, List.getElem_replicate]
        exact LineOK.mono (K := Gfx.anyKind) (fun _ _ => trivial) (Gfx.cuf_ok w h (j + 1))
    · intro di hdi; exact ⟨0, hpos, by simp [Gfx.rowsFrom]; omega⟩
    · exact hK
    · exact hlm
    · exact hR

/-- ITERM2: LINES / WHOLE / ANIM × konsole / wezterm / iterm2 / other, every payload, mix flag -/
theorem iterm_rect (a : ITermArgs) (payloads : List (List Nat))
    (hp : payloads.length = if a.whole then 1 else a.rh) (hpos : 0 < a.rh)
    (t : Term) (r0 x : Nat) (hK : kindOf a.konsole t.kind) (hlm : t.lm = x) (hR : Ready t r0 x a.rw a.rh 0) :
    BlockEffect t (t.run (joinLines (itermLinesOf a payloads))) r0 x a.rw a.rh .kept := by
  unfold itermLinesOf
  split
  · rename_i hw
    rw [hw] at hp
    match payloads, hp with
    | [p], _ => exact iterm_whole_rect a.erase a.konsole a.rw a.rh _ ⟨rfl, rfl, rfl⟩ hpos t r0 x hK hlm hR
  · rename_i hw
    have hw' : a.whole = false := by simpa using hw
    rw [hw'] at hp
    apply iterm_lines_rect _ _ _ _ _ (by simpa using hp) _ hpos t r0 x hK hlm hR
    intro c hc
    simp only [List.mem_map] at hc
    obtain ⟨p, _, rfl⟩ := hc
    exact ⟨rfl, rfl, rfl⟩

/-- non-vacuity: a 3×2 block fits at (row 4, column 5) of a 10×8 terminal -/
example : Ready ({ W := 10, H := 8, row := 4, col := 5, lm := 5 } : Term) 4 5 3 2 0 :=
  ⟨rfl, rfl, rfl, by decide, by decide, by decide, by decide, by decide⟩

end TIV.C01
