import TIV.C01.Model
import TIV.Common.BlockProofs
import TIV.Common.GfxProofs
import TIV.Common.GenCtl
import TIV.C01.Strings
/-!
# C01 — a render output occupies exactly its advertised columns × lines rectangle.

For each of the three renderers, for every input data (pixels, payloads), every size, every
flag combination and every terminal state in which the `w × h` block fits at the cursor:
running the render's tokens changes only cells of the block, covers every cell of it, does not
scroll or wrap, ends on the last line at `min (x+w) (W-1)` and leaves the text attributes reset
(text) / untouched (graphics).  (`BlockEffect`, TIV/Common/WB.lean.)
-/
namespace TIV.C01
open TIV Term

/-- the control sequence templates are the ones the token serialiser was written for -/
theorem generated_templates :
    GenCtl.CURSOR_UP = ["\x1b[", "A"] ∧ GenCtl.CURSOR_DOWN = ["\x1b[", "B"] ∧
    GenCtl.CURSOR_FORWARD = ["\x1b[", "C"] ∧ GenCtl.CURSOR_BACKWARD = ["\x1b[", "D"] ∧
    GenCtl.ERASE_CHARS = ["\x1b[", "X"] ∧ GenCtl.SGR_DEFAULT = ["\x1b[m"] ∧
    GenCtl.SGR_FG_DIRECT = ["\x1b[38;2;", ";", ";", "m"] ∧ GenCtl.SGR_BG_DIRECT = ["\x1b[48;2;", ";", ";", "m"] ∧
    GenCtl.KITTY_TRANSMISSION = ["\x1b_G", ";", "\x1b\\"] ∧
    GenCtl.KITTY_DELETE_CURSOR = ["\x1b_Ga=d,d=C;\x1b\\"] ∧
    GenCtl.ITERM2_START = ["\x1b]1337;File="] ∧ GenCtl.ST = ["\x1b\\"] ∧
    GenCtl.UPPER_PIXEL = "▀" ∧ GenCtl.LOWER_PIXEL = "▄" := by decide

/-- BLOCK: every pixel content, every size, kitty workaround / split cells / alpha on or off -/
theorem block_rect (cfg : Block.Cfg) (rows : List (List Block.PP)) (w h : Nat)
    (hh : rows.length = h) (hw : ∀ row ∈ rows, row.length = w) (hpos : 0 < h)
    (t : Term) (r0 x : Nat) (hlm : t.lm = x) (hR : Ready t r0 x w h 0) :
    BlockEffect t (t.run (Block.render cfg rows)) r0 x w h .reset := by
  unfold Block.render
  apply render_block (fun _ => True) w h .reset (fun j di => di = j) (Block.renderLines cfg rows)
    (by simp [Block.renderLines, hh]) hpos
  · intro j hj
    simp only [Block.renderLines, List.getElem_map]
    apply Block.blockLine_ok
    exact hw _ (List.getElem_mem _)
  · intro di hdi; exact ⟨di, hdi, rfl⟩
  · trivial
  · exact hlm
  · exact hR

theorem kitty_lines_rect (blend mix : Bool) (w h : Nat) (ks : List KittyCmd) (hlen : ks.length = h)
    (hk : ∀ k ∈ ks, k.cols = w ∧ k.rows = 1) (hpos : 0 < h)
    (t : Term) (r0 x : Nat) (hlm : t.lm = x) (hR : Ready t r0 x w h 0) :
    BlockEffect t (t.run (joinLines (Gfx.kittyLines blend mix w ks))) r0 x w h .kept := by
  apply render_block Gfx.anyKind w h .kept (fun j => Gfx.rowsFrom j 1) _
    (by simp [Gfx.kittyLines, hlen]) hpos
  · intro j hj
    have hj' : j < ks.length := by simpa [Gfx.kittyLines] using hj
    have hkj := hk ks[j] (List.getElem_mem _)
    have := Gfx.kittyLine_ok blend mix w h j ks[j] hkj.1 (by rw [hkj.2]; omega)
    rw [hkj.2] at this
    simpa [Gfx.kittyLines] using this
  · intro di hdi; exact ⟨di, hdi, by simp [Gfx.rowsFrom]⟩
  · trivial
  · exact hlm
  · exact hR

theorem kitty_whole_rect (blend mix : Bool) (w h : Nat) (k : KittyCmd) (hc : k.cols = w) (hr : k.rows = h)
    (hpos : 0 < h) (t : Term) (r0 x : Nat) (hlm : t.lm = x) (hR : Ready t r0 x w h 0) :
    BlockEffect t (t.run (joinLines (Gfx.kittyWhole blend mix w h k))) r0 x w h .kept := by
  apply render_block Gfx.anyKind w h .kept
    (fun j => if j = 0 then Gfx.rowsFrom 0 h else Gfx.noRows) _
    (by simp [Gfx.kittyWhole]; omega) hpos
  · intro j hj
    cases j with
    | zero =>
      simp only [Gfx.kittyWhole, List.getElem_cons_zero, if_true]
      have := Gfx.kittyLine_ok blend mix w h 0 k hc (by omega)
      rw [hr] at this; exact this
    | succ j =>
      simp only [Gfx.kittyWhole, List.getElem_cons_succ, List.getElem_replicate]
      simpa using Gfx.fill_ok mix w h (j + 1)
  · intro di hdi; exact ⟨0, hpos, by simp [Gfx.rowsFrom]; omega⟩
  · trivial
  · exact hlm
  · exact hR

/-- KITTY, both render methods, every payload, z-index, compression level, mix/blend flag -/
theorem kitty_rect (a : KittyArgs) (payloads : List (List Nat))
    (hp : payloads.length = if a.whole then 1 else a.rh) (hpos : 0 < a.rh)
    (t : Term) (r0 x : Nat) (hlm : t.lm = x) (hR : Ready t r0 x a.rw a.rh 0) :
    BlockEffect t (t.run (joinLines (kittyLinesOf a payloads))) r0 x a.rw a.rh .kept := by
  unfold kittyLinesOf
  split
  · rename_i hw
    rw [hw] at hp
    match payloads, hp with
    | [p], _ => exact kitty_whole_rect a.blend a.mix a.rw a.rh _ rfl rfl hpos t r0 x hlm hR
  · rename_i hw
    have hw' : a.whole = false := by simpa using hw
    rw [hw'] at hp
    apply kitty_lines_rect _ _ _ _ _ (by simpa using hp) _ hpos t r0 x hlm hR
    intro k hk
    simp only [List.mem_map] at hk
    obtain ⟨p, _, rfl⟩ := hk
    exact ⟨rfl, rfl⟩


/-- the kinds a render produced with `konsole := b` is meant for -/
def kindOf (konsole : Bool) : TermKind → Prop := if konsole then Gfx.isKonsole else Gfx.notKonsole

theorem iterm_lines_rect (erase konsole : Bool) (w h : Nat) (cs : List ITermCmd) (hlen : cs.length = h)
    (hc : ∀ c ∈ cs, c.cols = w ∧ c.rows = 1 ∧ c.noMove = konsole) (hpos : 0 < h)
    (t : Term) (r0 x : Nat) (hK : kindOf konsole t.kind) (hlm : t.lm = x) (hR : Ready t r0 x w h 0) :
    BlockEffect t (t.run (joinLines (Gfx.itermLines erase konsole w cs))) r0 x w h .kept := by
  apply render_block (kindOf konsole) w h .kept (fun j => Gfx.rowsFrom j 1) _
    (by simp [Gfx.itermLines, hlen]) hpos
  · intro j hj
    have hj' : j < cs.length := by simpa [Gfx.itermLines] using hj
    obtain ⟨h1, h2, h3⟩ := hc cs[j] (List.getElem_mem _)
    cases konsole
    · have := Gfx.itermLine_ok_other erase w h j cs[j] h1 h2 h3
      simpa [Gfx.itermLines, kindOf] using this
    · have := Gfx.itermLine_ok_konsole erase w h j cs[j] h1 (by rw [h2]; omega) h3
      rw [h2] at this
      simpa [Gfx.itermLines, kindOf] using this
  · intro di hdi; exact ⟨di, hdi, by simp [Gfx.rowsFrom]⟩
  · exact hK
  · exact hlm
  · exact hR

theorem iterm_whole_rect (erase konsole : Bool) (w h : Nat) (c : ITermCmd)
    (hc : c.cols = w ∧ c.rows = h ∧ c.noMove = konsole) (hpos : 0 < h)
    (t : Term) (r0 x : Nat) (hK : kindOf konsole t.kind) (hlm : t.lm = x) (hR : Ready t r0 x w h 0) :
    BlockEffect t (t.run (joinLines (Gfx.itermWhole erase konsole w h c))) r0 x w h .kept := by
  obtain ⟨h1, h2, h3⟩ := hc
  cases konsole
  · -- iterm2 / wezterm / others: reserve the lines, go back up, draw
    apply render_block Gfx.notKonsole w h .kept
      (fun j => if j = h - 1 then (fun di => di < h) else Gfx.noRows) _
      (by simp [Gfx.itermWhole]; omega) hpos
    · intro j hj
      have hj' : j < h := by simp [Gfx.itermWhole] at hj; omega
      simp only [Gfx.itermWhole, Bool.false_eq_true, if_false]
      by_cases hjl : j = h - 1
      · subst hjl
        rw [List.getElem_append_right (by simp)]
        simp only [List.length_replicate, Nat.sub_self, List.getElem_cons_zero, if_true]
        exact Gfx.itermWholeLast_ok_other erase w h c h1 h2 h3 hpos
      · rw [List.getElem_append_left (by simp; omega)]
        simp only [List.getElem_replicate, hjl, if_false]
        have := Gfx.fill_ok (!erase) w h j
        cases erase <;> exact LineOK.mono (K := Gfx.anyKind) (fun _ _ => trivial) (by simpa [Gfx.fillToks, Gfx.eraseToks] using this)
    · intro di hdi; exact ⟨h - 1, by omega, by simp; exact hdi⟩
    · exact hK
    · exact hlm
    · exact hR
  · -- konsole: draw first (the cursor stays), then walk down the right edge
    apply render_block Gfx.isKonsole w h .kept
      (fun j => if j = 0 then Gfx.rowsFrom 0 h else Gfx.noRows) _
      (by simp [Gfx.itermWhole]; omega) hpos
    · intro j hj
      simp only [Gfx.itermWhole, if_true]
      cases j with
      | zero =>
        simp only [List.getElem_cons_zero, if_true]
        have := Gfx.itermWholeFirst_ok_konsole erase w h c h1 (by omega) h3
        rw [h2] at this; exact this
      | succ j =>
        simp only [List.getElem_cons_succ, List.getElem_replicate]
        exact LineOK.mono (K := Gfx.anyKind) (fun _ _ => trivial) (Gfx.cuf_ok w h (j + 1))
    · intro di hdi; exact ⟨0, hpos, by simp [Gfx.rowsFrom]; omega⟩
    · exact hK
    · exact hlm
    · exact hR

/-- ITERM2: LINES / WHOLE / ANIM × konsole / wezterm / iterm2 / other, every payload, mix flag -/
theorem iterm_rect (a : ITermArgs) (payloads : List (List Nat))
    (hp : payloads.length = if a.whole then 1 else a.rh) (hpos : 0 < a.rh)
    (t : Term) (r0 x : Nat) (hK : kindOf a.konsole t.kind) (hlm : t.lm = x) (hR : Ready t r0 x a.rw a.rh 0) :
    BlockEffect t (t.run (joinLines (itermLinesOf a payloads))) r0 x a.rw a.rh .kept := by
  unfold itermLinesOf
  split
  · rename_i hw
    rw [hw] at hp
    match payloads, hp with
    | [p], _ => exact iterm_whole_rect a.erase a.konsole a.rw a.rh _ ⟨rfl, rfl, rfl⟩ hpos t r0 x hK hlm hR
  · rename_i hw
    have hw' : a.whole = false := by simpa using hw
    rw [hw'] at hp
    apply iterm_lines_rect _ _ _ _ _ (by simpa using hp) _ hpos t r0 x hK hlm hR
    intro c hc
    simp only [List.mem_map] at hc
    obtain ⟨p, _, rfl⟩ := hc
    exact ⟨rfl, rfl, rfl⟩

/-! ## the string itself: complete control sequences, `h - 1` newlines, none at the end -/

/-- what C01 says about the render *string* -/
structure StringOK (s : String) (h : Nat) : Prop where
  /-- every control sequence in it is complete (`Scan.Complete`: scanning ends in `ground`, never `bad`) -/
  complete : Scan.Complete s
  /-- exactly `h - 1` newline characters -/
  newlines : Scan.nlCount s = h - 1
  /-- it does not end with a newline -/
  noTrailingNl : s.toList.getLast? ≠ some '\n'

theorem getLast?_append_ne_nil {α} (a b : List α) (h : b ≠ []) : (a ++ b).getLast? = b.getLast? := by
  simp [List.getLast?_append]
  cases hb : b.getLast? with
  | none => simp [List.getLast?_eq_none_iff] at hb; exact absurd hb h
  | some x => simp

theorem last_not_nl (ts : List Tok) (t : Tok) (hw : Scan.WfTok t) (hne : t ≠ .lf) (hs : t.str.toList ≠ []) :
    (toksStr (ts ++ [t])).toList.getLast? ≠ some '\n' := by
  have e : (toksStr (ts ++ [t])).toList = (toksStr ts).toList ++ t.str.toList := by
    simp [toksStr, String.toList_join]
  rw [e, getLast?_append_ne_nil _ _ hs]
  intro h
  have := List.mem_of_getLast? h
  exact Scan.tok_noNl t hne hw this

/-- from per-line well-formedness to the string-level claim, for a render whose last line ends in
    a token with a non-empty serialisation -/
theorem stringOK_of_lines (ls : List (List Tok)) (h : Nat) (hlen : ls.length = h)
    (hwf : ∀ l ∈ ls, ∀ t ∈ l, Scan.WfTok t ∧ t ≠ .lf)
    (hlast : ∃ pre t, joinLines ls = pre ++ [t] ∧ t ≠ .lf ∧ t.str.toList ≠ [] ∧ Scan.WfTok t) :
    StringOK (toksStr (joinLines ls)) h := by
  obtain ⟨hw, hnolf⟩ := lines_wf ls hwf
  refine ⟨Scan.toks_complete _ hw, ?_, ?_⟩
  · rw [Scan.nlCount_toks _ hw, count_lf_joinLines ls hnolf, hlen]
  · obtain ⟨pre, t, he, hne, hs, hwt⟩ := hlast
    rw [he]; exact last_not_nl pre t hwt hne hs

theorem joinLines_last (ls : List (List Tok)) (t : Tok) (pre : List Tok)
    (h : ls.getLast? = some (pre ++ [t])) : ∃ pre', joinLines ls = pre' ++ [t] := by
  induction ls with
  | nil => simp at h
  | cons a rest ih =>
    cases rest with
    | nil => simp at h; exact ⟨pre, by simp [joinLines, h]⟩
    | cons b rest2 =>
      have : (b :: rest2).getLast? = some (pre ++ [t]) := by simpa [List.getLast?_cons_cons] using h
      obtain ⟨p', hp'⟩ := ih this
      exact ⟨a ++ Tok.lf :: p', by simp [joinLines, hp']⟩

/-- BLOCK string: complete, `h - 1` newlines, no trailing newline — every pixel content -/
theorem block_string (cfg : Block.Cfg) (rows : List (List Block.PP)) (hpos : rows ≠ []) :
    StringOK (toksStr (Block.render cfg rows)) rows.length := by
  unfold Block.render
  apply stringOK_of_lines _ _ (by simp [Block.renderLines]) (block_lines_wf cfg rows)
  have hne : Block.renderLines cfg rows ≠ [] := by simp [Block.renderLines, hpos]
  have hl : (Block.renderLines cfg rows).getLast? = some (Block.line cfg (rows.getLast hpos) ++ [Tok.sgr0]) := by
    simp [Block.renderLines, List.getLast?_map, List.getLast?_eq_some_getLast hpos]
  obtain ⟨pre', hp'⟩ := joinLines_last _ Tok.sgr0 _ hl
  exact ⟨pre', Tok.sgr0, hp', by simp, by decide, trivial⟩

/-- a token fit to end a render: not `lf`, non-empty serialisation, well formed -/
def EndTok (t : Tok) : Prop := t ≠ .lf ∧ t.str.toList ≠ [] ∧ Scan.WfTok t

theorem lines_last (ls : List (List Tok)) (hne : ls ≠ []) (h : ∀ l ∈ ls, ∃ pre t, l = pre ++ [t] ∧ EndTok t) :
    ∃ pre t, joinLines ls = pre ++ [t] ∧ t ≠ .lf ∧ t.str.toList ≠ [] ∧ Scan.WfTok t := by
  obtain ⟨pre, t, he, ht⟩ := h (ls.getLast hne) (List.getLast_mem hne)
  obtain ⟨pre', hp'⟩ := joinLines_last ls t pre (by rw [List.getLast?_eq_some_getLast hne, he])
  exact ⟨pre', t, hp', ht.1, ht.2.1, ht.2.2⟩

theorem endTok_cuf (w : Nat) : EndTok (.cuf w) :=
  ⟨by simp, by simp [Tok.str, fill, GenCtl.CURSOR_FORWARD], trivial⟩

theorem endTok_iterm (w h : Nat) (k : Bool) (p : List Nat) : EndTok (.iterm (itermCmd w h k p)) :=
  ⟨by simp, by simp [Tok.str, ITermCmd.str, fill, GenCtl.ITERM2_START], wf_itermCmd w h k p⟩

theorem fill_ends (mix : Bool) (w : Nat) : ∃ pre t, Gfx.fillToks mix w = pre ++ [t] ∧ EndTok t :=
  ⟨_, _, rfl, endTok_cuf w⟩

theorem kittyLine_ends (blend mix : Bool) (w : Nat) (k : KittyCmd) :
    ∃ pre t, Gfx.kittyLine blend mix w k = pre ++ [t] ∧ EndTok t := by
  refine ⟨(if blend then [] else [Tok.kittyDelCursor]) ++ [Tok.kitty k] ++ (if mix then [] else [Tok.ech w]),
    .cuf w, ?_, endTok_cuf w⟩
  simp [Gfx.kittyLine, Gfx.fillToks]

/-- KITTY string: complete, `h - 1` newlines, no trailing newline — every payload and flag -/
theorem kitty_string (a : KittyArgs) (payloads : List (List Nat))
    (hp : payloads.length = if a.whole then 1 else a.rh) (hpos : 0 < a.rh) :
    StringOK (toksStr (joinLines (kittyLinesOf a payloads))) a.rh := by
  have hlen : (kittyLinesOf a payloads).length = a.rh := by
    unfold kittyLinesOf
    cases hw : a.whole <;> simp only [hw] at hp ⊢
    · simp [Gfx.kittyLines, hp]
    · match payloads, hp with
      | [p], _ => simp [Gfx.kittyWhole]; omega
  apply stringOK_of_lines _ _ hlen (kitty_lines_wf a payloads)
  apply lines_last _ (by intro h0; rw [h0] at hlen; simp at hlen; omega)
  intro l hl
  unfold kittyLinesOf at hl
  cases hw : a.whole <;> simp only [hw] at hp hl
  · simp only [Bool.false_eq_true, if_false, Gfx.kittyLines, List.mem_map] at hl
    obtain ⟨k, _, rfl⟩ := hl
    exact kittyLine_ends ..
  · match payloads, hp, hl with
    | [p], _, hl =>
      simp only [if_true, Gfx.kittyWhole, List.mem_cons, List.mem_replicate] at hl
      rcases hl with rfl | ⟨_, rfl⟩
      · exact kittyLine_ends ..
      · exact fill_ends ..

/-- ITERM2 string: complete, `h - 1` newlines, no trailing newline — every payload, method, terminal -/
theorem iterm_string (a : ITermArgs) (payloads : List (List Nat))
    (hp : payloads.length = if a.whole then 1 else a.rh) (hpos : 0 < a.rh) :
    StringOK (toksStr (joinLines (itermLinesOf a payloads))) a.rh := by
  have hlen : (itermLinesOf a payloads).length = a.rh := by
    unfold itermLinesOf
    cases hw : a.whole <;> simp only [hw] at hp ⊢
    · simp [Gfx.itermLines, hp]
    · match payloads, hp with
      | [p], _ => cases hk : a.konsole <;> simp [Gfx.itermWhole, hk] <;> omega
  apply stringOK_of_lines _ _ hlen (iterm_lines_wf a payloads)
  apply lines_last _ (by intro h0; rw [h0] at hlen; simp at hlen; omega)
  intro l hl
  unfold itermLinesOf at hl
  cases hw : a.whole <;> simp only [hw] at hp hl
  · simp only [Bool.false_eq_true, if_false, Gfx.itermLines, List.mem_map] at hl
    obtain ⟨c, ⟨p, _, rfl⟩, rfl⟩ := hl
    cases hk : a.konsole
    · exact ⟨Gfx.eraseToks a.erase a.rw, .iterm (itermCmd a.rw 1 false p), by simp [Gfx.itermLine, hk], endTok_iterm ..⟩
    · exact ⟨Gfx.eraseToks a.erase a.rw ++ [Tok.iterm (itermCmd a.rw 1 true p)], _,
        by simp [Gfx.itermLine, hk], endTok_cuf a.rw⟩
  · match payloads, hp, hl with
    | [p], _, hl =>
      cases hk : a.konsole <;> simp only [if_true, Gfx.itermWhole, hk, Bool.false_eq_true, if_false] at hl
      · simp only [List.mem_append, List.mem_replicate, List.mem_singleton] at hl
        rcases hl with ⟨_, rfl⟩ | rfl
        · exact ⟨Gfx.eraseToks a.erase a.rw, _, rfl, endTok_cuf a.rw⟩
        · exact ⟨Gfx.eraseToks a.erase a.rw ++ Gfx.upToks a.rh, _, rfl, endTok_iterm ..⟩
      · simp only [List.mem_cons, List.mem_replicate] at hl
        rcases hl with rfl | ⟨_, rfl⟩
        · exact ⟨Gfx.eraseToks a.erase a.rw ++ [Tok.iterm (itermCmd a.rw a.rh true p)], _, by simp, endTok_cuf a.rw⟩
        · exact ⟨[], _, rfl, endTok_cuf a.rw⟩

/-- non-vacuity: a 3×2 block fits at (row 4, column 5) of a 10×8 terminal -/
example : Ready ({ W := 10, H := 8, row := 4, col := 5, lm := 5 } : Term) 4 5 3 2 0 :=
  ⟨rfl, rfl, rfl, by decide, by decide, by decide, by decide, by decide⟩

end TIV.C01
