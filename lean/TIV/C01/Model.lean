import TIV.Common.Block
import TIV.Common.Gfx
import TIV.C03.Model
/-!
# C01 model — the three `_render_image` functions as token producers.
Inputs are what the functions receive after Pillow/zlib/PNG did their part (pixel lists,
compressed strips, encoded images) plus the sizes and flags they read.
-/
namespace TIV.C01
open TIV

/-- block: lines of `BlockImage._render_image` -/
def blockLines (cfg : Block.Cfg) (rows : List (List Block.PP)) : List (List Tok) := Block.renderLines cfg rows

/-- `ControlData(f=format, s=width, c=r_width, z=z_index)` updated with `v=…, r=…`, through
    `Transmission(control, payload, compress)` -/
def kittyCmd (fmt width v z : Int) (rw r level : Nat) (payload : List Nat) : KittyCmd :=
  let ctrl : C03.Control := { f := some fmt.toNat, s := some width.toNat, v := some v.toNat, z := some z, c := some rw, r := some r }
  { cols := rw, rows := r, z := z,
    control := (ctrl.withLevel level).render,
    chunks := C03.getChunks 4096 (Base64.enc payload) }

structure KittyArgs where
  whole : Bool          -- render method WHOLE (else LINES)
  blend : Bool
  mix : Bool
  z : Int
  level : Nat           -- compress
  fmt : Nat             -- 24 | 32
  rw : Nat              -- rendered width (columns)
  rh : Nat              -- rendered height (lines)
  width : Nat           -- pixel width transmitted
  height : Nat          -- pixel height of the whole image
deriving Repr

/-- `KittyImage._render_image` after `_get_render_data`; `payloads` = the (compressed) strips, one
    per line for LINES, a single one for WHOLE -/
def kittyLinesOf (a : KittyArgs) (payloads : List (List Nat)) : List (List Tok) :=
  if a.whole then
    match payloads with
    | [p] => Gfx.kittyWhole a.blend a.mix a.rw a.rh (kittyCmd a.fmt a.width a.height a.z a.rw a.rh a.level p)
    | _ => []
  else
    Gfx.kittyLines a.blend a.mix a.rw
      (payloads.map fun p => kittyCmd a.fmt a.width (a.height / a.rh) a.z a.rw 1 a.level p)

/-- iterm2 control data: `size=…;width=…;height=…;preserveAspectRatio=0;inline=1[;doNotMoveCursor=1]` -/
def itermCmd (w h : Nat) (konsole : Bool) (payload : List Nat) : ITermCmd :=
  { cols := w, rows := h, noMove := konsole,
    control := s!"size={payload.length};width={w};height={h};preserveAspectRatio=0;inline=1" ++
      (if konsole then ";doNotMoveCursor=1" else ""),
    payload := Base64.enc payload }

structure ITermArgs where
  whole : Bool          -- WHOLE or ANIM (else LINES)
  konsole : Bool
  wezterm : Bool
  mix : Bool
  rw : Nat
  rh : Nat
deriving Repr

def ITermArgs.erase (a : ITermArgs) : Bool := !a.mix && a.wezterm

/-- `ITerm2Image._render_image`; `payloads` = encoded image per line (LINES) or one (WHOLE/ANIM) -/
def itermLinesOf (a : ITermArgs) (payloads : List (List Nat)) : List (List Tok) :=
  if a.whole then
    match payloads with
    | [p] => Gfx.itermWhole a.erase a.konsole a.rw a.rh (itermCmd a.rw a.rh a.konsole p)
    | _ => []
  else
    Gfx.itermLines a.erase a.konsole a.rw (payloads.map fun p => itermCmd a.rw 1 a.konsole p)

end TIV.C01
