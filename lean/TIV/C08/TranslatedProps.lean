import TIV.C08.Model
import TIV.C08.Translated
/-!
# C08 — the range arithmetic of `RenderIterator.seek` IS the translation of the current source

`TIV.C08.Translated.seek_definite` / `seek_indefinite_rejects` are regenerated on every run from
the source of `RenderIterator.seek` (the definite-frame-count branch: target frame + range
check; the indefinite branch: the test that rejects an offset).
-/
namespace TIV.C08

/-- the `IntEnum` value of a `Seek` member (the translation reads `Seek.START` = 0, `Seek.CURRENT`
    = 1, `Seek.END` = 2 from the live enum and compares against them) -/
def Whence.val : Whence → Int
  | .start => 0
  | .current => 1
  | .end_ => 2

variable {ρ O : Type}

/-- TRANSLATION TIE, definite frame count: an open iterator's `seek` rejects exactly when the
    translated source raises (a `ValueError`), and otherwise stores exactly the frame it computes -/
theorem seekOp_definite_eq_translated (s : St ρ O) (off : Int) (wh : Whence) (n : Nat)
    (hc : s.closed = false) (hn : s.count = some n) :
    seekOp s off wh =
      match Translated.seek_definite off wh.val s.frameOffset n with
      | .ok frame => ({ s with frameOffset := frame, whence := .start }, .ok)
      | .error _ => (s, .err .ValueError) := by
  unfold seekOp Translated.seek_definite
  cases wh <;> simp [hc, hn, Whence.val] <;> split <;> simp_all

/-- the only exception of that branch is `ValueError` -/
theorem translated_seek_definite_error (off wh cur n : Int) (e : String)
    (h : Translated.seek_definite off wh cur n = .error e) : e = "ValueError" := by
  unfold Translated.seek_definite at h
  generalize (if wh = (0 : Int) then off else (if wh = (1 : Int) then (cur + off) else ((n + off) - (1 : Int)))) = fr at h
  simp only [] at h
  split at h
  · exact (Except.error.inj h).symm
  · cases h

/-- TRANSLATION TIE, INDEFINITE frame count: the offsets an open iterator rejects -/
theorem seekOp_indefinite_eq_translated (s : St ρ O) (off : Int) (wh : Whence)
    (hc : s.closed = false) (hn : s.count = none) :
    seekOp s off wh =
      if Translated.seek_indefinite_rejects off wh.val then (s, .err .ValueError)
      else ({ s with frameOffset := off, whence := wh }, .ok) := by
  unfold seekOp Translated.seek_indefinite_rejects
  cases wh <;> simp [hc, hn, Whence.val]

example : Translated.seek_definite (-1) 2 0 10 = .ok 8 := by decide
example : Translated.seek_definite 3 1 7 10 = .error "ValueError" := by decide
example : Translated.seek_indefinite_rejects 1 2 = true ∧ Translated.seek_indefinite_rejects 1 1 = false := by decide

end TIV.C08
