import TIV.Common.DriverMain
import TIV.C08.Drive
def main : IO Unit := TIV.driverMain TIV.C08.handler
