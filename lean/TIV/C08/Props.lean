import TIV.C08.Proofs
import TIV.C08.Generated
/-!
# C08 — property theorems

A render iterator yields exactly the frames its operation history dictates.  `St`/`step` is the
implementation state machine (src/term_image/render/_iterator.py, with
fixes/C08-set-padding-relative.diff applied), `Sp`/`Spec.step` the documented model; `Renderable ρ O`
is an arbitrary renderable.  All statements are over every state / every history.
-/
namespace TIV.C08
variable {ρ O : Type}

/-- the generated constants are the ones the model was written for -/
theorem generated_constants :
    Generated.alignRatios = alignRatios ∧
    Generated.seekMembers = [("START", 0), ("CURRENT", 1), ("END", 2)] ∧
    Generated.hAlign = [("LEFT", 0), ("CENTER", 1), ("RIGHT", 2)] ∧
    Generated.vAlign = [("TOP", 0), ("MIDDLE", 1), ("BOTTOM", 2)] ∧
    Generated.defaultPadding = [0, 0, 0, 0] ∧ Generated.dummyFrame = [0, 0, 1, 1] ∧
    -- relative paddings are resolved against the *active terminal* (`term_image.utils.get_terminal_size`) in
    -- `RenderIterator.set_padding`/`_from_render_data_` and in `Renderable._init_render_`
    Generated.terminalSizeSource = [("render._iterator", "term_image.utils"),
      ("renderable._renderable", "term_image.utils")] ∧
    Generated.defaultLoops ≠ 0 ∧ 0 < Generated.defaultCache := by decide

/-- REFINEMENT. For every construction and every history of operations, the implementation state
    machine (generator unrolled, cache, stored padded size, local/public loop, shared render data)
    and the documented model make the same observations: per operation the frame (number,
    duration, size, padding, output) or the error, `iterator.loop` and `renderable.tell()`;
    construction errors included.  With caching on, the renderable has to be a function of the
    request (`IsPure`); with caching off it may be any state machine. -/
theorem refines (R : Renderable ρ O) (f : Req → RRes O) (i : Init) (r0 : ρ)
    (hP : cachedDecision i.count i.cache = true → IsPure R f) (ops : List Op) :
    (init (O := O) i r0).map (fun s => outputs R s ops) =
      (Spec.init i r0).map (fun t => Spec.outputs R t ops) := by
  obtain ⟨h1, h2⟩ := init_sim R f i r0 hP
  cases hi : init (O := O) i r0 with
  | error e => rw [h2 e hi]; rfl
  | ok s =>
    obtain ⟨t, ht, hrel⟩ := h1 s hi
    rw [ht]
    simp only [Except.map, outputs, Spec.outputs]
    rw [(sim_run R f ops s t hrel).2]

/-- POSTPONED. The iterator of a renderable constructed with `FrameCount.POSTPONED` is, from
    construction on and under every history, the iterator of the count `_get_frame_count_()` resolves
    to (INDEFINITE or definite): same construction result, hence (by `refines`) same observations. -/
theorem postponed_as_resolved (res : Option Nat) (i : Init) (r0 : ρ) :
    initD (O := O) (.postponed res) i r0 =
      initD (match res with | none => .indefinite | some n => .definite n) i r0 ∧
    ∀ (R : Renderable ρ O) (f : Req → RRes O),
      (cachedDecision res i.cache = true → IsPure R f) → ∀ ops : List Op,
      (initD (O := O) (.postponed res) i r0).map (fun s => outputs R s ops) =
        (Spec.init { i with count := res } r0).map (fun t => Spec.outputs R t ops) := by
  constructor
  · cases res <;> rfl
  · intro R f hP ops
    exact refines R f { i with count := res } r0 hP ops

/-- the constructed state carries the *resolved* count (and the `_cached` decision made over it) -/
theorem initD_resolved (d : Declared) (i : Init) (r0 : ρ) (s : St ρ O) (h : initD d i r0 = .ok s) :
    s.count = d.resolve ∧ s.cached = cachedDecision d.resolve i.cache := by
  obtain ⟨_, _, _, _, hs⟩ := init_shape { i with count := d.resolve } r0 s h
  rw [hs]; exact ⟨rfl, rfl⟩

/-- `starts_at_zero`: whatever the renderable's own current frame (`i.rFrame`, which is what the
    render data's `frame_offset` holds when the iterator receives it), the first `next` asks the
    renderable for frame 0 (INDEFINITE: offset 0 from START), with the initial settings. -/
theorem starts_at_zero (R : Renderable ρ O) (i : Init) (r0 : ρ) (s0 : St ρ O) (h0 : init i r0 = .ok s0) :
    (nextOp R s0).1.calls = [⟨0, .start, i.size, i.dur, s0.args⟩] := by
  obtain ⟨args, ps, hc, hps, hs⟩ := init_shape i r0 s0 h0
  have hl := initCheck_loops hc
  have hfc : (0 : Int) < (s0.frameCount : Int) := by
    subst hs
    cases hcount : i.count with
    | none => simp
    | some n => have := initCheck_count hc n hcount; simp; omega
  have hloop : s0.loop ≠ 0 := by subst hs; simp only; split <;> omega
  have hnext : nextOp R s0 = body R s0 := by
    have e1 : s0.closed = false := by subst hs; rfl
    have e2 : s0.phase = .dummy := by subst hs; rfl
    have e3 : s0.frameOffset = 0 := by subst hs; rfl
    have e4 : s0.frameNo = 0 := by subst hs; rfl
    have e5 : ({ s0 with frameNo := 0 } : St ρ O) = s0 := by subst hs; rfl
    simp only [nextOp, e1, e2, e3, Int.zero_mul, e5, hloop, inner, e4, hfc]
    simp only [Bool.false_eq_true, if_false, if_true]
    congr 1
    subst hs
    rfl
  have hlook : cacheLookup s0 = .ok none := by
    subst hs
    simp only [cacheLookup]
    cases hcd : cachedDecision i.count i.cache
    · simp
    · cases hcount : i.count with
      | none => simp [cachedDecision, hcount] at hcd
      | some n =>
        have := initCheck_count hc n hcount
        have hget : pyGet (List.replicate n (none : Option (CacheEntry O))) 0 = some none := by
          simp only [pyGet, Int.le_refl, if_true, Int.toNat_zero]
          cases n with
          | zero => omega
          | succ m => rfl
        have hne : (List.replicate n (none : Option (CacheEntry O))).isEmpty = false := by
          cases n with
          | zero => omega
          | succ m => rfl
        simp [hne, hget]
  rw [hnext, body_calls_miss R s0 hlook]
  subst hs
  rfl

/-- `seek_no_loop`: a seek — accepted or rejected — touches neither loop counter, renders nothing and
    leaves the generator where it is suspended. -/
theorem seek_no_loop (s : St ρ O) (off : Int) (wh : Whence) :
    (seekOp s off wh).1.pubLoop = s.pubLoop ∧ (seekOp s off wh).1.loop = s.loop ∧
    (seekOp s off wh).1.calls = s.calls ∧ (seekOp s off wh).1.phase = s.phase ∧
    (seekOp s off wh).1.closed = s.closed := by
  cases wh <;> grind [seekOp]

/-- …and it takes effect at the next render: in the documented model an accepted seek on a definite
    source sets the next frame to a number inside the current loop, so the following `next`
    renders that frame directly — no new loop is started, even when the seek comes right after the
    last frame of a loop. -/
theorem seek_takes_effect (R : Renderable ρ O) (t : Sp ρ) (n : Nat) (off : Int) (wh : Whence)
    (hn : t.count = some n) (hopen : t.closed = false) (hl : t.loopsLeft ≠ 0)
    (hok : (Spec.seekOp (O := O) t off wh).2 = .ok) :
    (Spec.seekOp (O := O) t off wh).1.loopsLeft = t.loopsLeft ∧
    (Spec.seekOp (O := O) t off wh).1.shown = t.shown ∧
    0 ≤ (Spec.seekOp (O := O) t off wh).1.next ∧ (Spec.seekOp (O := O) t off wh).1.next < n ∧
    Spec.nextOp R (Spec.seekOp (O := O) t off wh).1 = Spec.renderDef R (Spec.seekOp (O := O) t off wh).1 := by
  cases wh <;> grind [Spec.seekOp, Spec.nextOp, Spec.newLoop]

/-- `current_relative_to_next`: on a definite source `seek(off, CURRENT)` is accepted exactly when
    `0 ≤ next + off < frame_count`, where `next` is the documented model's next frame number
    (so right after the last frame of a loop, `next = frame_count` and `off = 0` is rejected),
    and then the next frame is `next + off`. -/
theorem current_relative_to_next (R : Renderable ρ O) (f) (s : St ρ O) (t : Sp ρ) (h : Rel R f s t)
    (hopen : s.closed = false) (n : Nat) (hn : s.count = some n) (off : Int) :
    (seekOp s off .current).2 = (if 0 ≤ t.next + off ∧ t.next + off < n then .ok else .err .ValueError) ∧
    ((seekOp s off .current).2 = .ok → (seekOp s off .current).1.frameOffset = t.next + off) := by
  have : s.frameOffset = t.next := by grind [Rel, Live, DefInv]
  grind [seekOp]

/-- `settings_next_frame`: a setting changed on an open iterator applies to the very next frame:
    the next `next` answers exactly as the documented model does with that setting replaced
    (`Spec.nextOp` renders with `t.size`, `t.dur`, `t.args` and pads with `t.padding`). -/
theorem settings_next_frame (R : Renderable ρ O) (f) (s : St ρ O) (t : Sp ρ) (h : Rel R f s t)
    (hopen : s.closed = false) :
    (∀ z, (step R (step R s (.setSize z)).1 .next).2 = (Spec.nextOp R { t with size := z }).2) ∧
    (∀ d, (d = .dynamic ∨ ∃ m, d = .ms m ∧ 0 < m) →
      (step R (step R s (.setDuration d)).1 .next).2 = (Spec.nextOp R { t with dur := d }).2) ∧
    (∀ a args, convertArgs a = .ok args →
      (step R (step R s (.setArgs a)).1 .next).2 = (Spec.nextOp R { t with args := args }).2) ∧
    (∀ p, (step R (step R s (.setPadding p)).1 .next).2 =
      (Spec.nextOp R { t with padding := p.takeIn t.term }).2) := by
  have hc : t.closed = false := by grind [Rel]
  refine ⟨?_, ?_, ?_, ?_⟩
  · intro z
    have h1 := sim_step R f s t h (.setSize z)
    have h2 := sim_step R f _ _ h1.1 .next
    have e : (Spec.step R t (.setSize z)).1 = { t with size := z } := by simp [Spec.step, hc]
    rw [h2.2, e]; rfl
  · intro d hd
    have h1 := sim_step R f s t h (.setDuration d)
    have h2 := sim_step R f _ _ h1.1 .next
    have e : (Spec.step R t (.setDuration d)).1 = { t with dur := d } := by
      rcases hd with rfl | ⟨m, rfl, hm⟩
      · simp [Spec.step, hc]
      · have : ¬ m ≤ 0 := by omega
        simp [Spec.step, hc, this]
    rw [h2.2, e]; rfl
  · intro a args ha
    have h1 := sim_step R f s t h (.setArgs a)
    have h2 := sim_step R f _ _ h1.1 .next
    have e : (Spec.step R t (.setArgs a)).1 = { t with args := args } := by simp [Spec.step, hc, ha]
    rw [h2.2, e]; rfl
  · intro p
    have h1 := sim_step R f s t h (.setPadding p)
    have h2 := sim_step R f _ _ h1.1 .next
    have e : (Spec.step R t (.setPadding p)).1 = { t with padding := p.takeIn t.term } := by simp [Spec.step, hc]
    rw [h2.2, e]; rfl

/-- `indefinite_seek_once`: on an INDEFINITE source the seek last requested before a `next` is what
    the renderable receives with that render (one call, carrying exactly that offset and whence);
    once a frame came back the pending seek is cleared to (0, CURRENT), so the following render
    asks for "the next frame on the stream" — the seek reaches the renderable exactly once. -/
theorem indefinite_seek_once (R : Renderable ρ O) (f) (s : St ρ O) (t : Sp ρ) (h : Rel R f s t)
    (hopen : s.closed = false) (hn : s.count = none) (off : Int) (wh : Whence)
    (hok : (seekOp s off wh).2 = .ok) :
    (nextOp R (seekOp s off wh).1).1.calls = ⟨off, wh, s.size, s.dur, s.args⟩ :: s.calls ∧
    (∀ y, (nextOp R (seekOp s off wh).1).2 = .frame y →
      (nextOp R (seekOp s off wh).1).1.frameOffset = 0 ∧ (nextOp R (seekOp s off wh).1).1.whence = .current) := by
  have hI : IndefInv s t ∧ s.loop ≠ 0 := by grind [Rel, Live]
  obtain ⟨⟨i1, i2, i3, i4, i5⟩, hl⟩ := hI
  have hs1 : (seekOp s off wh).1 = { s with frameOffset := off, whence := wh } := by
    cases wh <;> grind [seekOp]
  rw [hs1]
  have hnext : ∃ s' : St ρ O, nextOp R { s with frameOffset := off, whence := wh } = body R s' ∧
      reqOf s' = ⟨off, wh, s.size, s.dur, s.args⟩ ∧ s'.calls = s.calls ∧ s'.cache = [] ∧ s'.definite = false := by
    cases hph : s.phase with
    | dummy =>
      refine ⟨{ s with frameOffset := off, whence := wh, frameNo := 0 }, ?_, rfl, rfl, i4, i1⟩
      simp [nextOp, hopen, hph, i1, hl, inner, i2]
    | running =>
      refine ⟨{ s with frameOffset := off, whence := wh }, ?_, rfl, rfl, i4, i1⟩
      simp [nextOp, hopen, hph, i1, inner, i2, i3 hph]
  obtain ⟨s', e1, e2, e3, e4, e5⟩ := hnext
  have hlook : cacheLookup s' = .ok none := by simp [cacheLookup, e4]
  rw [e1]
  refine ⟨by rw [body_calls_miss R s' hlook, e2, e3], ?_⟩
  intro y hy
  unfold body at hy ⊢
  rw [hlook] at hy ⊢
  rcases hres : R.render s'.rstate (reqOf s') with ⟨r', res⟩
  simp only [hres] at hy ⊢
  cases res with
  | frame fr =>
    simp only [e4, List.isEmpty_nil, if_true, afterRender] at hy ⊢
    cases hp : presentWith s'.padding s'.paddedSize fr with
    | error e => simp [hp] at hy
    | ok y' =>
      simp only [advance, e5, Bool.false_eq_true, if_false]
      by_cases hq : s'.frameOffset ≠ 0 ∨ s'.whence ≠ Whence.current
      · simp [hq]
      · simp only [hq, if_false]
        simp only [ne_eq, not_or, Decidable.not_not] at hq
        exact hq
  | stop => simp only [e5] at hy; simp at hy
  | fail => simp at hy

/-- `reject_no_change`: whatever the history, an operation other than `next` that raises leaves
    the iterator exactly as it was (every field of the state, the renderable's included). -/
theorem reject_no_change (R : Renderable ρ O) (i : Init) (r0 : ρ) (s0 : St ρ O) (h0 : init i r0 = .ok s0)
    (ops : List Op) (op : Op) (hne : op ≠ .next) (e : Err)
    (herr : (step R (run R s0 ops).1 op).2 = .err e) :
    (step R (run R s0 ops).1 op).1 = (run R s0 ops).1 := by
  have hnr := notRel_run R ops s0 (notRel_init i r0 s0 h0)
  generalize (run R s0 ops).1 = s at *
  cases op with
  | next => exact absurd rfl hne
  | setPadding p =>
    have h1 := Padding.takeIn_not_relative s.term p
    obtain ⟨ps, h2⟩ := Padding.paddedSize_ok h1 s.size
    simp only [step, setPaddingOp] at herr ⊢
    split
    · rfl
    · simp only [h2] at herr ⊢
      split at herr <;> simp_all
  | setSize z =>
    obtain ⟨ps, h2⟩ := Padding.paddedSize_ok hnr z
    simp only [step, setSizeOp] at herr ⊢
    split
    · rfl
    · simp only [h2] at herr ⊢
      split at herr <;> simp_all
  | seek o w => cases w <;> grind [step, seekOp]
  | setDuration d => cases d <;> grind [step, setDurationOp]
  | setArgs a => cases hc : convertArgs a <;> grind [step, setArgsOp]
  | close => simp only [step, closeOp] at herr; split at herr <;> simp at herr
  | pokeLoop v => simp [step] at herr
  | rseek o w => simp only [step, rseekOp] at herr ⊢; repeat' split
                 all_goals simp_all
  | rnoise => rfl
  | termSize z => simp [step] at herr

/-- `closed_rejects`: on a finalized iterator `next` raises StopIteration, `close` is a no-op that
    succeeds, every other iterator method raises FinalizedIteratorError — and nothing changes. -/
theorem closed_rejects (R : Renderable ρ O) (s : St ρ O) (h : s.closed = true) :
    step R s .next = (s, .err .StopIteration) ∧ step R s .close = (s, .ok) ∧
    (∀ o w, step R s (.seek o w) = (s, .err .FinalizedIteratorError)) ∧
    (∀ d, step R s (.setDuration d) = (s, .err .FinalizedIteratorError)) ∧
    (∀ p, step R s (.setPadding p) = (s, .err .FinalizedIteratorError)) ∧
    (∀ a, step R s (.setArgs a) = (s, .err .FinalizedIteratorError)) ∧
    (∀ z, step R s (.setSize z) = (s, .err .FinalizedIteratorError)) := by
  simp [step, nextOp, closeOp, seekOp, setDurationOp, setPaddingOp, setArgsOp, setSizeOp, h]

/-- once finalized, always finalized -/
theorem closed_stays (R : Renderable ρ O) (s : St ρ O) (h : s.closed = true) (op : Op) :
    (step R s op).1.closed = true := by
  cases op <;> simp [step, nextOp, closeOp, seekOp, setDurationOp, setPaddingOp, setArgsOp, setSizeOp, rseekOp, h]
  case rseek o w => cases rseekTarget s.count s.rFrame o w <;> simp [h]

/-- `renderable_frame_untouched`: no iterator operation moves the renderable's own current frame;
    only `Renderable.seek` itself does. -/
theorem renderable_frame_untouched (R : Renderable ρ O) (s : St ρ O) (op : Op)
    (hop : ∀ o w, op ≠ .rseek o w) : (step R s op).1.rFrame = s.rFrame := by
  cases op with
  | next => have := nextOp_static R s; grind [Static, step]
  | rseek o w => exact absurd rfl (hop o w)
  | seek o w => cases w <;> grind [step, seekOp]
  | setDuration d => cases d <;> grind [step, setDurationOp]
  | setPadding p => simp only [step, setPaddingOp]; repeat' split
                    all_goals simp_all
  | setArgs a => cases hc : convertArgs a <;> grind [step, setArgsOp]
  | setSize z => simp only [step, setSizeOp]; repeat' split
                 all_goals simp_all
  | close => grind [step, closeOp, shut]
  | pokeLoop v => rfl
  | rnoise => rfl
  | termSize z => rfl

/-- …and over a whole history without `Renderable.seek` it is still where the caller left it -/
theorem renderable_frame_untouched_run (R : Renderable ρ O) (i : Init) (r0 : ρ) (s0 : St ρ O)
    (h0 : init i r0 = .ok s0) (ops : List Op) (hops : ∀ op ∈ ops, ∀ o w, op ≠ .rseek o w) :
    (run R s0 ops).1.rFrame = i.rFrame := by
  have hi : s0.rFrame = i.rFrame := by
    unfold init at h0
    cases hc : initCheck i with
    | error e => simp [hc] at h0
    | ok args =>
      cases hps : (i.padding.takeIn i.term).paddedSize i.size with
      | error e => simp [hc, hps] at h0
      | ok ps => simp only [hc, hps] at h0; injection h0 with h0; subst h0; rfl
  rw [← hi]
  clear hi h0
  induction ops generalizing s0 with
  | nil => rfl
  | cons op ops ih =>
    simp only [run]
    rw [ih _ (fun o ho => hops o (List.mem_cons_of_mem _ ho))]
    exact renderable_frame_untouched R s0 op (hops op (List.mem_cons_self ..))

/-- `count_no_seek`: absent seeks (and anything else: the history is `next` repeated `k` times) on a
    definite source whose renderable always answers with a frame, exactly `loops × frame_count`
    frames are produced — `min k (loops · n)` of the first `k` results are frames, the rest
    StopIteration — cache on or off. -/
theorem count_no_seek (R : Renderable ρ O) (f : Req → RRes O) (i : Init) (r0 : ρ) (s0 : St ρ O)
    (h0 : init i r0 = .ok s0) (hP : cachedDecision i.count i.cache = true → IsPure R f)
    (hR : AlwaysFrame R) (n l : Nat) (hc : i.count = some n) (hl : i.loops = ((l + 1 : Nat) : Int))
    (k : Nat) :
    List.countP isFrame (outputs R s0 (List.replicate k .next)) = min k ((l + 1) * n) := by
  obtain ⟨t0, ht0, hrel⟩ := (init_sim R f i r0 hP).1 s0 h0
  have hout : outputs R s0 (List.replicate k .next) = Spec.outputs R t0 (List.replicate k .next) :=
    (sim_run R f _ s0 t0 hrel).2
  rw [hout]
  unfold Spec.init at ht0
  cases hck : initCheck i with
  | error e => simp [hck] at ht0
  | ok args =>
    have hn2 := initCheck_count hck n hc
    cases hps : (i.padding.takeIn i.term).paddedSize i.size with
    | error e => simp [hck, hps] at ht0
    | ok ps =>
      simp only [hck, hps] at ht0
      injection ht0 with ht0
      have e1 : t0.count = some n := by rw [← ht0]; exact hc
      have e2 : t0.closed = false := by rw [← ht0]
      have e3 : t0.padding.relative = false := by rw [← ht0]; exact Padding.takeIn_not_relative _ _
      have e4 : t0.next = ((0 : Nat) : Int) := by rw [← ht0]; rfl
      have e5 : t0.loopsLeft = ((l + 1 : Nat) : Int) := by rw [← ht0]; simp [hc, hl]
      have := spec_count R hR n (by omega) k t0 0 l e1 e2 e3 e4 (by omega) e5
      rw [this, Nat.succ_mul]
      simp

/-- the unrepaired `set_padding` (`padding.get_padded_size(...)` on the caller's, unresolved,
    padding) violates `reject_no_change`: with a terminal-relative padding it raises
    RelativePaddingDimensionError *after* `_padding` was replaced. -/
theorem orig_set_padding_counterexample :
    ∃ (s : St Unit Unit) (p : Padding), s.padding.relative = false ∧
      (setPaddingOrig s p).2 = .err .RelativePaddingDimensionError ∧
      (setPaddingOrig s p).1.padding ≠ s.padding ∧
      (setPaddingOrig s p).1.paddedSize = s.paddedSize := by
  refine ⟨{ count := some 3, rFrame := 0, term := ⟨20, 6⟩, rstate := (), closed := false, pubLoop := 1,
            cached := false, padding := .exact 1 0 0 0 0, paddedSize := ⟨3, 1⟩, args := ⟨0, 0⟩,
            size := ⟨2, 1⟩, dur := .ms 7, frameOffset := 1, whence := .start, frameCount := 3,
            definite := true, loop := 1, frameNo := 0, cache := [], phase := .running, calls := [] },
          .aligned 0 (-2) 1 1 0, rfl, rfl, by decide, rfl⟩

/-! non-vacuity: the hypotheses of the theorems above are met by non-trivial instances -/

/-- a definite test renderable is a function of the request -/
example : IsPure (testR ⟨some 3, 0, none, none⟩)
    (fun q => .frame ⟨q.off, tDuration q.dur q.off, q.size, ⟨0, q⟩⟩) := by
  intro r q; simp [testR]

example : AlwaysFrame (testR ⟨some 3, 0, none, none⟩) := by
  intro r q; exact ⟨r, ⟨q.off, tDuration q.dur q.off, q.size, ⟨0, q⟩⟩, by simp [testR]⟩

/-- a cached, padded, two-loop iterator over 3 frames constructs -/
example : ∃ s : St Nat TOut,
    init ⟨some 3, 2, .flag true, .aligned 0 (-2) 1 1 0, none, ⟨2, 1⟩, .dynamic, 2, ⟨20, 6⟩⟩ 0 = .ok s ∧
    s.cached = true ∧ s.padding = .aligned 20 4 1 1 0 ∧ s.paddedSize = ⟨20, 4⟩ := ⟨_, rfl, rfl, by decide, by decide⟩

/-- an accepted and a rejected seek, a terminal-relative `set_padding`, an INDEFINITE seek -/
example : (seekOp (ρ := Unit) (O := Unit)
    { count := some 3, rFrame := 0, term := ⟨20, 6⟩, rstate := (), closed := false, pubLoop := 2,
      cached := false, padding := .exact 1 0 0 0 0, paddedSize := ⟨3, 1⟩, args := ⟨0, 0⟩,
      size := ⟨2, 1⟩, dur := .ms 7, frameOffset := 3, whence := .start, frameCount := 3,
      definite := true, loop := 2, frameNo := 2, cache := [], phase := .running, calls := [] } 0 .current).2
    = .err .ValueError := rfl

end TIV.C08
