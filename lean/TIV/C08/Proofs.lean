import TIV.C08.Model
/-! helper lemmas for C08/C09: padding facts, the simulation relation between the implementation
state machine and the documented model, and its preservation by every operation -/
namespace TIV.C08

/-! ## padding -/
namespace Padding

theorem takeIn_not_relative (term : Size) (p : Padding) : (p.takeIn term).relative = false := by
  cases p with
  | exact l t r b f => simp [takeIn, isAligned, relative]
  | aligned w h ha va f =>
    by_cases hr : relative (.aligned w h ha va f) = true
    · simp only [takeIn, isAligned, hr, Bool.and_self, if_true, resolve, Bool.not_true]
      simp only [Bool.false_eq_true, if_false, relative]
      simp only [Bool.not_eq_eq_eq_not, Bool.not_false, Bool.and_eq_true, decide_eq_true_eq]
      constructor <;> split <;> omega
    · simp only [takeIn, isAligned, hr, Bool.true_and, Bool.false_eq_true, if_false]

theorem paddedSize_ok {p : Padding} (h : p.relative = false) (rs : Size) :
    ∃ ps, p.paddedSize rs = .ok ps := by
  cases p with
  | exact l t r b f => exact ⟨_, rfl⟩
  | aligned w hh ha va f => simp [paddedSize, h]

theorem exactDims_ok {p : Padding} (h : p.relative = false) (rs : Size) :
    ∃ d, p.exactDims rs = .ok d := by
  cases p with
  | exact l t r b f => exact ⟨_, rfl⟩
  | aligned w hh ha va f => simp [exactDims, h]

end Padding

/-! ## the simulation relation -/
section
variable {ρ O : Type}

/-- the renderable answers a request the same way whatever happened before, and keeps no state -/
def IsPure (R : Renderable ρ O) (f : Req → RRes O) : Prop := ∀ r q, R.render r q = (r, f q)

def CacheOK (f : Req → RRes O) (cache : List (Option (CacheEntry O))) : Prop :=
  ∀ (k : Nat) (e : CacheEntry O), cache[k]? = some (some e) →
    f ⟨k, .start, e.size, e.dur, e.args⟩ = .frame e.frame

def DefInv (R : Renderable ρ O) (f : Req → RRes O) (s : St ρ O) (t : Sp ρ) (n : Nat) : Prop :=
  2 ≤ n ∧ s.definite = true ∧ s.frameCount = n ∧ s.whence = .start ∧ s.frameOffset = t.next ∧
  0 ≤ t.next ∧ t.next ≤ n ∧ (s.cached = false → s.cache = []) ∧
  (s.cached = true → IsPure R f ∧ s.cache.length = n ∧ CacheOK f s.cache)

def IndefInv (s : St ρ O) (t : Sp ρ) : Prop :=
  s.definite = false ∧ s.frameCount = 1 ∧ (s.phase = .running → s.frameNo = 0) ∧ s.cache = [] ∧
  t.pending = (s.frameOffset, s.whence)

def Live (R : Renderable ρ O) (f : Req → RRes O) (s : St ρ O) (t : Sp ρ) : Prop :=
  s.rstate = t.rstate ∧ s.size = t.size ∧ s.dur = t.dur ∧ s.args = t.args ∧ s.padding = t.padding ∧
  s.padding.relative = false ∧ s.padding.paddedSize s.size = .ok s.paddedSize ∧
  s.loop = t.loopsLeft ∧ s.loop ≠ 0 ∧
  (∀ n, s.count = some n → DefInv R f s t n) ∧ (s.count = none → IndefInv s t)

def Rel (R : Renderable ρ O) (f : Req → RRes O) (s : St ρ O) (t : Sp ρ) : Prop :=
  s.count = t.count ∧ s.rFrame = t.rFrame ∧ s.term = t.term ∧ s.closed = t.closed ∧ s.pubLoop = t.shown ∧
  (s.closed = false → Live R f s t)

/-- one step of both machines: related states, same observation -/
def Sim (R : Renderable ρ O) (f : Req → RRes O) (p : St ρ O × Resp O) (q : Sp ρ × Resp O) : Prop :=
  Rel R f p.1 q.1 ∧ p.2 = q.2

/-! ## every operation preserves the relation and gives the same observation -/

theorem sim_seek (R : Renderable ρ O) (f) (s : St ρ O) (t : Sp ρ) (h : Rel R f s t) (off : Int) (wh : Whence) :
    Sim R f (seekOp s off wh) (Spec.seekOp t off wh) := by
  cases wh <;> grind (splits := 40) [seekOp, Spec.seekOp, Sim, Rel, Live, DefInv, IndefInv]

theorem sim_setDuration (R : Renderable ρ O) (f) (s : St ρ O) (t : Sp ρ) (h : Rel R f s t) (d : Dur) :
    Sim R f (setDurationOp s d) (Spec.step R t (.setDuration d)) := by
  cases d <;> grind (splits := 40) [setDurationOp, Spec.step, Sim, Rel, Live, DefInv, IndefInv]

theorem sim_setPadding (R : Renderable ρ O) (f) (s : St ρ O) (t : Sp ρ) (h : Rel R f s t) (p : Padding) :
    Sim R f (setPaddingOp s p) (Spec.step R t (.setPadding p)) := by
  have h1 := Padding.takeIn_not_relative s.term p
  obtain ⟨ps, h2⟩ := Padding.paddedSize_ok h1 s.size
  grind (splits := 40) [setPaddingOp, Spec.step, Sim, Rel, Live, DefInv, IndefInv]

theorem sim_setArgs (R : Renderable ρ O) (f) (s : St ρ O) (t : Sp ρ) (h : Rel R f s t) (a : ArgsIn) :
    Sim R f (setArgsOp s a) (Spec.step R t (.setArgs a)) := by
  cases hc : convertArgs a <;> grind (splits := 40) [setArgsOp, Spec.step, Sim, Rel, Live, DefInv, IndefInv]

theorem sim_setSize (R : Renderable ρ O) (f) (s : St ρ O) (t : Sp ρ) (h : Rel R f s t) (sz : Size) :
    Sim R f (setSizeOp s sz) (Spec.step R t (.setSize sz)) := by
  by_cases hcl : s.closed = true
  · grind (splits := 40) [setSizeOp, Spec.step, Sim, Rel, Live, DefInv, IndefInv]
  · have hr : s.padding.relative = false := by grind [Rel, Live]
    obtain ⟨ps, h2⟩ := Padding.paddedSize_ok hr sz
    grind (splits := 40) [setSizeOp, Spec.step, Sim, Rel, Live, DefInv, IndefInv]

theorem sim_close (R : Renderable ρ O) (f) (s : St ρ O) (t : Sp ρ) (h : Rel R f s t) :
    Sim R f (closeOp s) (Spec.step R t .close) := by
  grind (splits := 40) [closeOp, shut, Spec.shut, Spec.step, Sim, Rel, Live, DefInv, IndefInv]

theorem sim_misc (R : Renderable ρ O) (f) (s : St ρ O) (t : Sp ρ) (h : Rel R f s t) :
    (∀ v, Sim R f (step R s (.pokeLoop v)) (Spec.step R t (.pokeLoop v))) ∧
    (∀ o w, Sim R f (step R s (.rseek o w)) (Spec.step R t (.rseek o w))) ∧
    Sim R f (step R s .rnoise) (Spec.step R t .rnoise) ∧
    (∀ z, Sim R f (step R s (.termSize z)) (Spec.step R t (.termSize z))) := by
  refine ⟨?_, ?_, ?_, ?_⟩
  · intro v; grind (splits := 40) [step, Spec.step, Sim, Rel, Live, DefInv, IndefInv]
  · intro o w
    have : t.count = s.count ∧ t.rFrame = s.rFrame := by grind [Rel]
    simp only [step, Spec.step, rseekOp, this.1, this.2]
    cases rseekTarget s.count s.rFrame o w <;> grind (splits := 40) [Sim, Rel, Live, DefInv, IndefInv]
  · grind (splits := 40) [step, Spec.step, Sim, Rel, Live, DefInv, IndefInv]
  · intro z; grind (splits := 40) [step, Spec.step, Sim, Rel, Live, DefInv, IndefInv]

/-! ### `next` -/

theorem present_eq (s : St ρ O) (t' : Sp ρ) (fr : Frame O) (e1 : t'.padding = s.padding) (e2 : t'.size = s.size)
    (hp : s.padding.paddedSize s.size = .ok s.paddedSize) :
    Spec.present t' fr = presentWith s.padding s.paddedSize fr := by
  simp only [Spec.present, e1, e2, hp]

theorem pyGet_nat {α} (l : List α) (k : Nat) : pyGet l (k : Int) = l[k]? := by
  simp [pyGet]

theorem pySet_nat {α} (l : List α) (k : Nat) (v : α) : pySet l (k : Int) v = l.set k v := by
  simp [pySet]

theorem CacheOK.set {f : Req → RRes O} {cache : List (Option (CacheEntry O))} (h : CacheOK f cache) (k : Nat)
    (e : CacheEntry O) (he : f ⟨k, .start, e.size, e.dur, e.args⟩ = .frame e.frame) :
    CacheOK f (cache.set k (some e)) := by
  intro j e' hj
  by_cases hjk : k = j
  · subst hjk
    rw [List.getElem?_set] at hj
    simp at hj
    obtain ⟨_, rfl⟩ := hj
    exact he
  · rw [List.getElem?_set_ne hjk] at hj
    exact h j e' hj

theorem body_def_plain (R : Renderable ρ O) (f) (s : St ρ O) (t : Sp ρ) (h : Rel R f s t) (n : Nat)
    (hcl : s.closed = false) (hn : s.count = some n) (hlt : t.next < n)
    (hcached : s.cached = false) :
    Sim R f (body R s) (Spec.renderDef R t) := by
  have hL : Live R f s t := by grind [Rel]
  have hD : DefInv R f s t n := by grind [Live]
  have hce : s.cache.isEmpty = true := by grind [DefInv]
  have hc : cacheLookup s = .ok none := by grind [cacheLookup]
  have hreq : (⟨t.next, .start, t.size, t.dur, t.args⟩ : Req) = reqOf s := by grind [reqOf, Live, DefInv]
  have hrs : t.rstate = s.rstate := by grind [Live]
  unfold body Spec.renderDef
  rw [hc, hreq, hrs]
  rcases hres : R.render s.rstate (reqOf s) with ⟨r', res⟩
  cases res with
  | frame fr =>
    have hp := present_eq s { t with rstate := r' } fr (by grind [Live]) (by grind [Live]) (by grind [Live])
    simp only [hres, hce, if_true, afterRender, hp]
    cases hy : presentWith s.padding s.paddedSize fr with
    | error e => grind (splits := 40) [shut, Spec.shut, Sim, Rel, Live, DefInv, IndefInv]
    | ok y => grind (splits := 40) [advance, Sim, Rel, Live, DefInv, IndefInv]
  | stop => grind (splits := 40) [shut, Spec.shut, Sim, Rel, Live, DefInv, IndefInv]
  | fail => grind (splits := 40) [shut, Spec.shut, Sim, Rel, Live, DefInv, IndefInv]

theorem body_def_cached (R : Renderable ρ O) (f) (s : St ρ O) (t : Sp ρ) (h : Rel R f s t) (n : Nat)
    (hcl : s.closed = false) (hn : s.count = some n) (hfn : s.frameNo = s.frameOffset) (hlt : t.next < n)
    (hcached : s.cached = true) :
    Sim R f (body R s) (Spec.renderDef R t) := by
  have hL : Live R f s t := by grind [Rel]
  have hD : DefInv R f s t n := by grind [Live]
  obtain ⟨hpure, hlen, hok⟩ : IsPure R f ∧ s.cache.length = n ∧ CacheOK f s.cache := by grind [DefInv]
  have hnext : s.frameOffset = t.next := by grind [DefInv]
  have h0 : 0 ≤ t.next := by grind [DefInv]
  obtain ⟨k, hk⟩ := Int.eq_ofNat_of_zero_le h0
  have hkn : k < n := by omega
  have hce : s.cache.isEmpty = false := by
    cases hcache : s.cache with
    | nil => simp [hcache] at hlen; omega
    | cons a l => rfl
  have hreq : (⟨t.next, .start, t.size, t.dur, t.args⟩ : Req) = reqOf s := by grind [reqOf, Live, DefInv]
  have hreq' : reqOf s = ⟨(k : Int), .start, s.size, s.dur, s.args⟩ := by grind [reqOf, Live, DefInv]
  have hrs : t.rstate = s.rstate := by grind [Live]
  have hget : pyGet s.cache s.frameNo = s.cache[k]? := by rw [hfn, hnext, hk, pyGet_nat]
  have hset : ∀ v, pySet s.cache s.frameNo v = s.cache.set k v := by intro v; rw [hfn, hnext, hk, pySet_nat]
  have hrender : R.render s.rstate (reqOf s) = (s.rstate, f (reqOf s)) := hpure _ _
  obtain ⟨ent, hent⟩ : ∃ ent, s.cache[k]? = some ent := by
    have : k < s.cache.length := by omega
    exact ⟨s.cache[k], by simp [this]⟩
  -- the miss path, shared by "no entry" and "entry for other settings"
  have miss : cacheLookup s = .ok none → Sim R f (body R s) (Spec.renderDef R t) := by
    intro hc
    unfold body Spec.renderDef
    rw [hc, hreq, hrs, hrender]
    cases hres : f (reqOf s) with
    | frame fr =>
      have hp := present_eq s { t with rstate := s.rstate } fr (by grind [Live]) (by grind [Live]) (by grind [Live])
      have hok' : CacheOK f (s.cache.set k (some ⟨fr, s.size, s.dur, s.args⟩)) :=
        hok.set k ⟨fr, s.size, s.dur, s.args⟩ (by rw [← hreq']; exact hres)
      simp only [hce, Bool.false_eq_true, if_false, afterRender, hp, hset]
      cases hy : presentWith s.padding s.paddedSize fr with
      | error e => grind (splits := 40) [shut, Spec.shut, Sim, Rel, Live, DefInv, IndefInv]
      | ok y => grind (splits := 40) [advance, Sim, Rel, Live, DefInv, IndefInv, List.length_set]
    | stop => grind (splits := 40) [shut, Spec.shut, Sim, Rel, Live, DefInv, IndefInv]
    | fail => grind (splits := 40) [shut, Spec.shut, Sim, Rel, Live, DefInv, IndefInv]
  cases ent with
  | none => exact miss (by simp [cacheLookup, hce, hget, hent])
  | some e =>
    by_cases hdet : (e.size, e.dur, e.args) = (s.size, s.dur, s.args)
    · -- hit
      have hc : cacheLookup s = .ok (some e.frame) := by simp [cacheLookup, hce, hget, hent, hdet]
      have hfe := hok k e hent
      have hreq2 : reqOf s = ⟨(k : Int), .start, e.size, e.dur, e.args⟩ := by
        rw [hreq']; simp only [Prod.mk.injEq] at hdet; simp [hdet.1, hdet.2.1, hdet.2.2]
      unfold body Spec.renderDef
      rw [hc, hreq, hrs, hrender, hreq2, hfe]
      have hp := present_eq s { t with rstate := s.rstate } e.frame (by grind [Live]) (by grind [Live]) (by grind [Live])
      simp only [afterRender, hp]
      cases hy : presentWith s.padding s.paddedSize e.frame with
      | error e => grind (splits := 40) [shut, Spec.shut, Sim, Rel, Live, DefInv, IndefInv]
      | ok y => grind (splits := 40) [advance, Sim, Rel, Live, DefInv, IndefInv]
    · exact miss (by simp [cacheLookup, hce, hget, hent, hdet])

theorem body_indef (R : Renderable ρ O) (f) (s : St ρ O) (t : Sp ρ) (h : Rel R f s t)
    (hcl : s.closed = false) (hn : s.count = none) (hfn : s.frameNo = 0) :
    Sim R f (body R s) (Spec.renderIndef R t) := by
  have hL : Live R f s t := by grind [Rel]
  have hI : IndefInv s t := by grind [Live]
  have hc : cacheLookup s = .ok none := by grind [cacheLookup, IndefInv]
  have hreq : (⟨t.pending.1, t.pending.2, t.size, t.dur, t.args⟩ : Req) = reqOf s := by grind [reqOf, Live, IndefInv]
  have hrs : t.rstate = s.rstate := by grind [Live]
  have hce : s.cache.isEmpty = true := by grind [IndefInv]
  unfold body Spec.renderIndef
  rw [hc, hreq, hrs]
  rcases hres : R.render s.rstate (reqOf s) with ⟨r', res⟩
  cases res with
  | frame fr =>
    have hp := present_eq s { t with rstate := r' } fr (by grind [Live]) (by grind [Live]) (by grind [Live])
    simp only [hres, hce, if_true, afterRender, hp]
    cases hy : presentWith s.padding s.paddedSize fr with
    | error e => grind (splits := 40) [shut, Spec.shut, Sim, Rel, Live, DefInv, IndefInv]
    | ok y => grind (splits := 40) [advance, Sim, Rel, Live, DefInv, IndefInv]
  | stop => grind (splits := 40) [shut, Spec.shut, Sim, Rel, Live, DefInv, IndefInv]
  | fail => grind (splits := 40) [shut, Spec.shut, Sim, Rel, Live, DefInv, IndefInv]

theorem body_def (R : Renderable ρ O) (f) (s : St ρ O) (t : Sp ρ) (h : Rel R f s t) (n : Nat)
    (hcl : s.closed = false) (hn : s.count = some n) (hfn : s.frameNo = s.frameOffset) (hlt : t.next < n) :
    Sim R f (body R s) (Spec.renderDef R t) := by
  cases hc : s.cached
  · exact body_def_plain R f s t h n hcl hn hlt hc
  · exact body_def_cached R f s t h n hcl hn hfn hlt hc

theorem inner_def (R : Renderable ρ O) (f) (s : St ρ O) (t : Sp ρ) (h : Rel R f s t) (n : Nat)
    (hcl : s.closed = false) (hn : s.count = some n) (hfn : s.frameNo = s.frameOffset) :
    Sim R f (inner R s)
      (let t' := Spec.newLoop n t
       if t'.loopsLeft = 0 then (Spec.shut t', .err .StopIteration) else Spec.renderDef R t') := by
  have hL : Live R f s t := by grind [Rel]
  have hD : DefInv R f s t n := by grind [Live]
  have hfc : s.frameCount = n := by grind [DefInv]
  have hnext : s.frameOffset = t.next := by grind [DefInv]
  have hll : t.loopsLeft ≠ 0 := by grind [Live]
  have hloop : s.loop = t.loopsLeft := by grind [Live]
  have hshown : s.pubLoop = t.shown := by grind [Rel]
  unfold inner
  by_cases hlt : t.next < n
  · have h1 : s.frameNo < (s.frameCount : Int) := by omega
    have h2 : Spec.newLoop n t = t := by simp [Spec.newLoop]; omega
    simp only [h1, if_true, h2, hll, if_false]
    exact body_def R f s t h n hcl hn hfn hlt
  · have h1 : ¬ s.frameNo < (s.frameCount : Int) := by omega
    simp only [h1, if_false]
    have hl2 : (wrap s).loop = (Spec.newLoop n t).loopsLeft := by grind [wrap, Spec.newLoop, Live]
    by_cases hz : (wrap s).loop = 0
    · have hz' : (Spec.newLoop n t).loopsLeft = 0 := by omega
      simp only [hz, hz', if_true]
      grind (splits := 40) [wrap, Spec.newLoop, shut, Spec.shut, Sim, Rel]
    · have hz' : ¬ (Spec.newLoop n t).loopsLeft = 0 := by omega
      have hrel : Rel R f (wrap s) (Spec.newLoop n t) := by
        grind (splits := 40) [wrap, Spec.newLoop, Rel, Live, DefInv, IndefInv]
      have h3 : (wrap s).frameNo < ((wrap s).frameCount : Int) := by grind [wrap, DefInv]
      simp only [hz, hz', if_false, h3, if_true]
      exact body_def R f (wrap s) (Spec.newLoop n t) hrel n (by grind [wrap]) (by grind [wrap]) (by grind [wrap])
        (by grind [Spec.newLoop, DefInv])

theorem sim_next (R : Renderable ρ O) (f) (s : St ρ O) (t : Sp ρ) (h : Rel R f s t) :
    Sim R f (nextOp R s) (Spec.nextOp R t) := by
  unfold nextOp Spec.nextOp
  have hc : t.closed = s.closed := by grind [Rel]
  have hcount : t.count = s.count := by grind [Rel]
  rw [hc, hcount]
  cases hcl : s.closed
  · simp only [Bool.false_eq_true, if_false]
    have hL : Live R f s t := by grind [Rel]
    have hlnz : s.loop ≠ 0 := by grind [Live]
    cases hn : s.count with
    | none =>
      have hI : IndefInv s t := by grind [Live]
      simp only
      cases hph : s.phase with
      | dummy =>
        have hdef : s.definite = false := by grind [IndefInv]
        simp only [hdef, Bool.false_eq_true, if_false, Int.mul_zero, hlnz]
        unfold inner
        have h1 : (0 : Int) < (s.frameCount : Int) := by grind [IndefInv]
        simp only [h1, if_true]
        exact body_indef R f _ t (by grind (splits := 40) [Rel, Live, DefInv, IndefInv]) rfl rfl rfl
      | running =>
        have hdef : s.definite = false := by grind [IndefInv]
        simp only [hdef, Bool.false_eq_true, if_false]
        unfold inner
        have h1 : s.frameNo < (s.frameCount : Int) := by grind [IndefInv]
        simp only [h1, if_true]
        exact body_indef R f s t h hcl hn (by grind [IndefInv])
    | some n =>
      have hD : DefInv R f s t n := by grind [Live]
      have hdef : s.definite = true := by grind [DefInv]
      simp only
      cases hph : s.phase with
      | dummy =>
        simp only [hdef, if_true, Int.mul_one, hlnz, if_false]
        exact inner_def R f _ t (by grind (splits := 40) [Rel, Live, DefInv, IndefInv]) n rfl rfl rfl
      | running =>
        simp only [hdef, if_true]
        exact inner_def R f _ t (by grind (splits := 40) [Rel, Live, DefInv, IndefInv]) n rfl rfl rfl
  · simp only [if_true]
    grind [Sim, Rel]

/-! ### whole histories -/

theorem sim_step (R : Renderable ρ O) (f) (s : St ρ O) (t : Sp ρ) (h : Rel R f s t) (op : Op) :
    Sim R f (step R s op) (Spec.step R t op) := by
  cases op with
  | next => exact sim_next R f s t h
  | seek o w => exact sim_seek R f s t h o w
  | setDuration d => exact sim_setDuration R f s t h d
  | setPadding p => exact sim_setPadding R f s t h p
  | setArgs a => exact sim_setArgs R f s t h a
  | setSize z => exact sim_setSize R f s t h z
  | close => exact sim_close R f s t h
  | pokeLoop v => exact (sim_misc R f s t h).1 v
  | rseek o w => exact (sim_misc R f s t h).2.1 o w
  | rnoise => exact (sim_misc R f s t h).2.2.1
  | termSize z => exact (sim_misc R f s t h).2.2.2 z

theorem sim_observe (R : Renderable ρ O) (f) (p : St ρ O × Resp O) (q : Sp ρ × Resp O) (h : Sim R f p q) :
    observe p = Spec.observe q := by
  obtain ⟨h1, h2⟩ := h
  simp only [observe, Spec.observe, h2]
  have : p.1.pubLoop = q.1.shown ∧ p.1.rFrame = q.1.rFrame := by grind [Rel]
  rw [this.1, this.2]

theorem sim_run (R : Renderable ρ O) (f) (ops : List Op) : ∀ (s : St ρ O) (t : Sp ρ), Rel R f s t →
    Rel R f (run R s ops).1 (Spec.run R t ops).1 ∧ (run R s ops).2 = (Spec.run R t ops).2 := by
  induction ops with
  | nil => intro s t h; exact ⟨h, rfl⟩
  | cons op ops ih =>
    intro s t h
    have hs := sim_step R f s t h op
    have ho := sim_observe R f _ _ hs
    have := ih _ _ hs.1
    simp only [run, Spec.run]
    exact ⟨this.1, by rw [ho, this.2]⟩

theorem initCheck_count {i : Init} {args : Args} (h : initCheck i = .ok args) (n : Nat) (hn : i.count = some n) :
    2 ≤ n := by
  unfold initCheck at h
  simp only [hn] at h
  split at h
  · simp at h
  · simp_all

theorem initCheck_loops {i : Init} {args : Args} (h : initCheck i = .ok args) : i.loops ≠ 0 := by
  unfold initCheck at h
  intro h0
  simp only [h0, if_true] at h
  split at h <;> simp at h

theorem init_sim (R : Renderable ρ O) (f) (i : Init) (r0 : ρ)
    (hP : cachedDecision i.count i.cache = true → IsPure R f) :
    (∀ s, init (O := O) i r0 = .ok s → ∃ t, Spec.init i r0 = .ok t ∧ Rel R f s t) ∧
    (∀ e, init (ρ := ρ) (O := O) i r0 = .error e → Spec.init i r0 = .error e) := by
  have hnr := Padding.takeIn_not_relative i.term i.padding
  have hrep : ∀ n, CacheOK f (List.replicate n (none : Option (CacheEntry O))) := by
    intro n k e hk
    rw [List.getElem?_replicate] at hk
    split at hk <;> simp at hk
  unfold init Spec.init
  cases hargs : initCheck i with
  | error e => simp
  | ok args =>
    have hl := initCheck_loops hargs
    cases hps : (i.padding.takeIn i.term).paddedSize i.size with
    | error e => simp [hps]
    | ok ps =>
      simp only [hps, reduceCtorEq, false_implies, implies_true, and_true]
      intro s hs
      injection hs with hs
      subst hs
      refine ⟨_, rfl, ?_⟩
      cases hcount : i.count with
      | none => grind (splits := 40) [Rel, Live, DefInv, IndefInv, cachedDecision]
      | some n =>
        have hn2 := initCheck_count hargs n hcount
        have := hrep n
        grind (splits := 40) [Rel, Live, DefInv, IndefInv, cachedDecision, List.length_replicate]

/-! ### frame lemmas and the padding invariant -/

/-- the fields no `next` ever writes -/
def Static (s s' : St ρ O) : Prop :=
  s'.padding = s.padding ∧ s'.rFrame = s.rFrame ∧ s'.count = s.count ∧ s'.term = s.term ∧ s'.size = s.size ∧
  s'.dur = s.dur ∧ s'.args = s.args ∧ s'.paddedSize = s.paddedSize ∧ s'.cached = s.cached

theorem afterRender_static (s : St ρ O) (fr : Frame O) : Static s (afterRender s fr).1 := by
  unfold afterRender
  cases presentWith s.padding s.paddedSize fr <;> grind [Static, advance, shut]

theorem body_static (R : Renderable ρ O) (s : St ρ O) : Static s (body R s).1 := by
  unfold body
  cases cacheLookup s with
  | error e => grind [Static, shut]
  | ok o =>
    cases o with
    | some fr => exact afterRender_static s fr
    | none =>
      rcases hres : R.render s.rstate (reqOf s) with ⟨r', res⟩
      simp only [hres]
      cases res with
      | frame fr =>
        simp only
        split
        · exact (by
            have := afterRender_static
              ({ s with rstate := r', calls := (reqOf s :: s.calls) } : St ρ O) fr
            grind [Static])
        · exact (by
            have := afterRender_static
              ({ s with rstate := r', calls := (reqOf s :: s.calls),
                        cache := pySet s.cache s.frameNo (some ⟨fr, s.size, s.dur, s.args⟩) } : St ρ O) fr
            grind [Static])
      | stop => grind [Static, shut]
      | fail => grind [Static, shut]

theorem inner_static (R : Renderable ρ O) (s : St ρ O) : Static s (inner R s).1 := by
  unfold inner
  split
  · exact body_static R s
  · have hw : Static s (wrap s) := by grind [Static, wrap]
    simp only
    split
    · grind [Static, shut]
    · split
      · have := body_static R (wrap s); grind [Static]
      · grind [Static, shut]

theorem nextOp_static (R : Renderable ρ O) (s : St ρ O) : Static s (nextOp R s).1 := by
  unfold nextOp
  split
  · grind [Static]
  · split
    · simp only
      split
      · grind [Static, shut]
      · have := inner_static R { s with frameNo := s.frameOffset * (if s.definite then 1 else 0) }
        grind [Static]
    · split
      · have := inner_static R { s with frameNo := s.frameOffset }
        grind [Static]
      · exact inner_static R s

/-- the stored padding is never terminal-relative: an invariant of every reachable state -/
theorem notRel_step (R : Renderable ρ O) (s : St ρ O) (op : Op) (h : s.padding.relative = false) :
    (step R s op).1.padding.relative = false := by
  cases op with
  | setPadding p =>
    have h1 := Padding.takeIn_not_relative s.term p
    obtain ⟨ps, h2⟩ := Padding.paddedSize_ok h1 s.size
    grind [step, setPaddingOp]
  | next => have := nextOp_static R s; grind [Static, step]
  | seek o w => cases w <;> grind [step, seekOp]
  | setDuration d => cases d <;> grind [step, setDurationOp]
  | setArgs a => cases hc : convertArgs a <;> grind [step, setArgsOp]
  | setSize z => simp only [step, setSizeOp]; repeat' split
                 all_goals simp_all
  | close => grind [step, closeOp, shut]
  | pokeLoop v => grind [step]
  | rseek o w => simp only [step, rseekOp]; cases rseekTarget s.count s.rFrame o w <;> simpa using h
  | rnoise => grind [step]
  | termSize z => grind [step]

theorem notRel_run (R : Renderable ρ O) (ops : List Op) : ∀ (s : St ρ O), s.padding.relative = false →
    (run R s ops).1.padding.relative = false := by
  induction ops with
  | nil => intro s h; exact h
  | cons op ops ih => intro s h; simp only [run]; exact ih _ (notRel_step R s op h)

theorem notRel_init (i : Init) (r0 : ρ) (s : St ρ O) (h : init i r0 = .ok s) : s.padding.relative = false := by
  unfold init at h
  cases hc : initCheck i with
  | error e => simp [hc] at h
  | ok args =>
    cases hps : (i.padding.takeIn i.term).paddedSize i.size with
    | error e => simp [hc, hps] at h
    | ok ps =>
      simp only [hc, hps] at h
      injection h with h; subst h; exact Padding.takeIn_not_relative _ _

/-! ### construction, render calls, frame counting -/

/-- what a freshly constructed iterator looks like -/
theorem init_shape (i : Init) (r0 : ρ) (s : St ρ O) (h : init i r0 = .ok s) :
    ∃ args ps, initCheck i = .ok args ∧ (i.padding.takeIn i.term).paddedSize i.size = .ok ps ∧
    s = { count := i.count, rFrame := i.rFrame, term := i.term, rstate := r0,
          closed := false, pubLoop := if i.count.isNone then 1 else i.loops,
          cached := cachedDecision i.count i.cache, padding := i.padding.takeIn i.term,
          paddedSize := ps, args := args,
          size := i.size, dur := i.dur, frameOffset := 0, whence := .start,
          frameCount := (match i.count with | none => 1 | some n => n),
          definite := decide ((match i.count with | none => 1 | some n => n) > 1),
          loop := if i.count.isNone then 1 else i.loops,
          frameNo := 0,
          cache := if cachedDecision i.count i.cache then
            List.replicate (match i.count with | none => 1 | some n => n) none else [],
          phase := .dummy, calls := [] } := by
  unfold init at h
  cases hc : initCheck i with
  | error e => simp [hc] at h
  | ok args =>
    cases hps : (i.padding.takeIn i.term).paddedSize i.size with
    | error e => simp [hc, hps] at h
    | ok ps =>
      simp only [hc, hps] at h
      injection h with h
      exact ⟨args, ps, rfl, rfl, h.symm⟩

theorem afterRender_calls (s : St ρ O) (fr : Frame O) : (afterRender s fr).1.calls = s.calls := by
  unfold afterRender
  cases presentWith s.padding s.paddedSize fr <;> grind [advance, shut]

/-- a cache miss hands exactly one request — the current settings — to the renderable -/
theorem body_calls_miss (R : Renderable ρ O) (s : St ρ O) (h : cacheLookup s = .ok none) :
    (body R s).1.calls = reqOf s :: s.calls := by
  unfold body
  rw [h]
  rcases hres : R.render s.rstate (reqOf s) with ⟨r', res⟩
  simp only [hres]
  cases res with
  | frame fr => simp only; split <;> rw [afterRender_calls]
  | stop => simp only; split <;> rfl
  | fail => rfl

/-- a cache hit does not call the renderable -/
theorem body_calls_hit (R : Renderable ρ O) (s : St ρ O) (fr : Frame O) (h : cacheLookup s = .ok (some fr)) :
    (body R s).1.calls = s.calls := by
  unfold body
  rw [h]
  exact afterRender_calls s fr

def isFrame : Obs O → Bool
  | ⟨.frame _, _, _⟩ => true
  | _ => false

/-- the renderable always produces a frame (never raises) -/
def AlwaysFrame (R : Renderable ρ O) : Prop := ∀ r q, ∃ r' fr, R.render r q = (r', .frame fr)

theorem spec_present_ok (t : Sp ρ) (fr : Frame O) (h : t.padding.relative = false) :
    ∃ y, Spec.present t fr = .ok y := by
  obtain ⟨ps, hps⟩ := Padding.paddedSize_ok h t.size
  obtain ⟨⟨l, t', r, b⟩, hd⟩ := Padding.exactDims_ok h fr.size
  simp only [Spec.present, hps, presentWith, hd]
  split <;> exact ⟨_, rfl⟩

theorem spec_present_ok' (t : Sp ρ) (fr : Frame O) (h : t.padding.relative = false) :
    ∃ y, ∀ t' : Sp ρ, t'.padding = t.padding → t'.size = t.size → Spec.present t' fr = .ok y := by
  obtain ⟨y, hy⟩ := spec_present_ok t fr h
  refine ⟨y, fun t' e1 e2 => ?_⟩
  rw [← hy]; simp only [Spec.present, e1, e2]

theorem spec_closed_frames (R : Renderable ρ O) (k : Nat) : ∀ (t : Sp ρ), t.closed = true →
    List.countP isFrame (Spec.outputs R t (List.replicate k .next)) = 0 := by
  induction k with
  | zero => intro t _; rfl
  | succ k ih =>
    intro t h
    have e : Spec.step R t .next = (t, .err .StopIteration) := by simp [Spec.step, Spec.nextOp, h]
    simp only [List.replicate_succ, Spec.outputs, Spec.run, e]
    have := ih t h
    simp only [Spec.outputs] at this
    simp [List.countP_cons, this, isFrame, Spec.observe]

theorem spec_count (R : Renderable ρ O) (hR : AlwaysFrame R) (n : Nat) (hn : 1 ≤ n) (k : Nat) :
    ∀ (t : Sp ρ) (m l : Nat), t.count = some n → t.closed = false → t.padding.relative = false →
      t.next = m → m ≤ n → t.loopsLeft = ((l + 1 : Nat) : Int) →
      List.countP isFrame (Spec.outputs R t (List.replicate k .next)) = min k (l * n + (n - m)) := by
  induction k with
  | zero => intro t m l _ _ _ _ _ _; simp [Spec.outputs, Spec.run]
  | succ k ih =>
    intro t m l hc ho hp hm hmn hl
    simp only [List.replicate_succ, Spec.outputs, Spec.run]
    by_cases hlt : m < n
    · -- inside a loop
      have hnl : Spec.newLoop n t = t := by simp [Spec.newLoop, hm]; omega
      obtain ⟨r', fr, hr⟩ := hR t.rstate ⟨t.next, .start, t.size, t.dur, t.args⟩
      obtain ⟨y, hy⟩ := spec_present_ok' t fr hp
      have hl0 : ¬ t.loopsLeft = 0 := by omega
      have e : Spec.step R t .next = ({ t with rstate := r', next := t.next + 1 }, .frame y) := by
        simp only [Spec.step, Spec.nextOp, ho, hc, hnl, hl0, Spec.renderDef, hr]
        simp [hy]
      have := ih { t with rstate := r', next := t.next + 1 } (m + 1) l hc ho hp (by simp [hm]) (by omega) hl
      simp only [Spec.outputs] at this
      simp only [e, List.countP_cons, this, isFrame, Spec.observe]
      simp; omega
    · -- at the end of a loop
      have hmn' : m = n := by omega
      subst hmn'
      cases l with
      | zero =>
        have e : Spec.step R t .next =
            (Spec.shut { t with next := 0, loopsLeft := t.loopsLeft - 1, shown := t.loopsLeft - 1 },
              .err .StopIteration) := by
          simp only [Spec.step, Spec.nextOp, ho, hc, Spec.newLoop, hm]
          simp [hl]
        have := spec_closed_frames R k
          (Spec.shut { t with next := 0, loopsLeft := t.loopsLeft - 1, shown := t.loopsLeft - 1 }) rfl
        simp only [Spec.outputs] at this
        simp only [e, List.countP_cons, this, isFrame, Spec.observe]
        simp
      | succ l' =>
        let t1 : Sp ρ := { t with next := 0, loopsLeft := t.loopsLeft - 1, shown := t.loopsLeft - 1 }
        obtain ⟨r', fr, hr⟩ := hR t.rstate ⟨0, .start, t.size, t.dur, t.args⟩
        obtain ⟨y, hy⟩ := spec_present_ok' t fr hp
        have e : Spec.step R t .next = ({ t1 with rstate := r', next := 1 }, .frame y) := by
          have h1 : Spec.newLoop m t = t1 := by simp [Spec.newLoop, hm, hl, t1]; omega
          have h2 : ¬ t1.loopsLeft = 0 := by simp [t1, hl]; omega
          simp only [Spec.step, Spec.nextOp, ho, hc, h1, h2, Spec.renderDef]
          simp only [t1] at hr ⊢
          simp [hr, hy]
        have := ih { t1 with rstate := r', next := 1 } 1 l' hc ho hp rfl (by omega)
          (by simp [t1, hl])
        simp only [Spec.outputs] at this
        simp only [e, List.countP_cons, this, isFrame, Spec.observe]
        simp [Nat.succ_mul]
        try omega

end
end TIV.C08
