import TIV.Common.Wire
import TIV.C08.Model
/-! driver ops of C08 (also used by C09's driver): wire format of configurations, operations, observations -/
namespace TIV.C08
open TIV.Wire

def pWhence : P Whence := do
  let n ← nat
  match n with
  | 0 => pure .start
  | 1 => pure .current
  | 2 => pure .end_
  | _ => failure

def pSize : P Size := do let w ← nat; let h ← nat; pure ⟨w, h⟩

def pDur : P Dur := do
  let t ← word
  if t == "D" then pure .dynamic
  else match t.toInt? with
    | some n => pure (.ms n)
    | none => failure

def pPadding : P Padding := do
  let k ← word
  if k == "exact" then do
    let l ← nat; let t ← nat; let r ← nat; let b ← nat; let f ← nat
    pure (.exact l t r b f)
  else if k == "aligned" then do
    let w ← int; let h ← int; let ha ← nat; let va ← nat; let f ← nat
    if ha < 3 ∧ va < 3 then pure (.aligned w h ha va f) else failure
  else failure

def pArgsIn : P ArgsIn := do
  let k ← word
  if k == "own" then do let f ← int; let b ← int; pure (.own f b)
  else if k == "base" then do let f ← int; pure (.base f)
  else if k == "root" then pure .root
  else if k == "foreign" then pure .foreign
  else failure

def pCache : P CacheArg := do
  let k ← word
  if k == "b" then do let v ← bool; pure (.flag v)
  else if k == "n" then do let c ← int; pure (.limit c)
  else failure

def pOp : P Op := do
  let k ← word
  match k with
  | "next" => pure .next
  | "seek" => do let o ← int; let w ← pWhence; pure (.seek o w)
  | "dur" => do let d ← pDur; pure (.setDuration d)
  | "pad" => do let p ← pPadding; pure (.setPadding p)
  | "args" => do let a ← pArgsIn; pure (.setArgs a)
  | "size" => do let s ← pSize; pure (.setSize s)
  | "close" => pure .close
  | "poke" => do let v ← int; pure (.pokeLoop v)
  | "rseek" => do let o ← int; let w ← pWhence; pure (.rseek o w)
  | "rnoise" => pure .rnoise
  | "term" => do let s ← pSize; pure (.termSize s)
  | _ => failure

/-- `none | some n | postponed none | postponed some n` — the declared frame count -/
def pDeclared : P Declared := do
  let k ← word
  if k == "none" then pure .indefinite
  else if k == "some" then do let n ← nat; pure (.definite n)
  else if k == "postponed" then do let r ← optOf nat; pure (.postponed r)
  else failure

/-- `<count> <loops> <cache> <padding> <args> <size> <dur> <rFrame> <term>` -/
def pInit : P Init := do
  let declared ← pDeclared
  let count := declared.resolve   -- `initD`: the property resolves the count before `_init` looks at it
  let loops ← int
  let cache ← pCache
  let padding ← pPadding
  let args ← optOf pArgsIn
  let size ← pSize
  let dur ← pDur
  let rFrame ← nat
  let term ← pSize
  pure { count, loops, cache, padding, args, size, dur, rFrame, term }

/-- `<stream> <stopAt> <failAt>` (the frame count is the one of the `Init`) -/
def pTCfg (count : Option Nat) : P TCfg := do
  let stream ← nat
  let stopAt ← optOf int
  let failAt ← optOf int
  pure { count, stream, stopAt, failAt }

def fmtWhence : Whence → String
  | .start => "0" | .current => "1" | .end_ => "2"

def fmtDur : Dur → String
  | .dynamic => "D" | .ms n => toString n

def fmtReq (r : Req) : String :=
  s!"{r.off} {fmtWhence r.whence} {r.size.w} {r.size.h} {fmtDur r.dur} {r.args.foo} {r.args.bar}"

def fmtTOut (o : TOut) : String := s!"{o.pos} {fmtReq o.req}"

def fmtErr (e : Err) : String := (reprStr e).replace "TIV.C08.Err." ""

def fmtResp (r : Resp TOut) : String :=
  match r with
  | .ok => "ok"
  | .err e => "e " ++ fmtErr e
  | .frame y =>
    let pad := match y.pad with
      | none => "0 0 0 0 -"
      | some (l, t, r, b, f) =>
        s!"{l} {t} {r} {b} " ++ (if l = 0 ∧ t = 0 ∧ r = 0 ∧ b = 0 then "-" else toString f)
    s!"f {y.number} {y.duration} {y.size.w} {y.size.h} {pad} {fmtTOut y.out}"

def fmtObs (o : Obs TOut) : String := s!"{fmtResp o.resp} L{o.loop} T{o.rFrame}"

def fmtObsList (os : List (Obs TOut)) : String := String.intercalate " | " (os.map fmtObs)

def handler : Handler := fun op args =>
  match op with
  | "run" => Wire.run (do
      let i ← pInit
      let c ← pTCfg i.count
      let ops ← listOf pOp
      pure (match init (O := TOut) i (0 : Nat) with
        | .error e => "err " ++ fmtErr e
        | .ok s => "ok " ++ fmtObsList (outputs (testR c) s ops))) args
  | "spec" => Wire.run (do
      let i ← pInit
      let c ← pTCfg i.count
      let ops ← listOf pOp
      pure (match Spec.init i (0 : Nat) with
        | .error e => "err " ++ fmtErr e
        | .ok t => "ok " ++ fmtObsList (Spec.outputs (testR c) t ops))) args
  | "padded" => Wire.run (do
      let p ← pPadding; let t ← pSize; let s ← pSize
      let p' := p.takeIn t
      pure (match p'.paddedSize s, p'.exactDims s with
        | .ok ps, .ok (l, tt, r, b) => s!"ok {ps.w} {ps.h} {l} {tt} {r} {b}"
        | .error e, _ => "err " ++ fmtErr e
        | _, .error e => "err " ++ fmtErr e)) args
  | "paddedraw" => Wire.run (do
      let p ← pPadding; let s ← pSize
      pure (match p.paddedSize s, p.exactDims s with
        | .ok ps, .ok (l, tt, r, b) => s!"ok {ps.w} {ps.h} {l} {tt} {r} {b}"
        | .error e, _ => "err " ++ fmtErr e
        | _, .error e => "err " ++ fmtErr e)) args
  | "decision" => Wire.run (do
      let declared ← pDeclared; let count := declared.resolve; let loops ← int; let cache ← pCache
      pure s!"ok {fmtBool (cachedDecision count cache)} {fmtBool (cachedDecision count (drawCache loops cache))}") args
  | _ => none

end TIV.C08
