/-!
# C08 — model of `term_image.render.RenderIterator` (src/term_image/render/_iterator.py)

The generator `_iterate` is unrolled into an explicit state machine: the state records every
instance attribute, the four fields of the shared `RenderableData` namespace the iterator
touches (`size`, `duration`, `frame_offset`, `seek_whence`), the generator's locals
(`frame_count`, `definite`, `loop`, `frame_no`, `cache`) and the `yield` it is suspended at.
The renderable is a parameter (`Renderable ρ O`): a transition function on the renderable's own
per-iteration state `ρ` (the stream position of an INDEFINITE source; unused by a definite one)
that answers a request `Req` — exactly the data `_render_` can read — with a frame,
`StopIteration` or another exception.

`Sp`/`Spec.*` further down is the *documented* model (class and method docstrings), deliberately
tiny; `Props.lean` proves that the two produce the same observations under every history.

No imports: core Lean only.
-/
namespace TIV.C08

/-! ## values -/

/-- `Seek` (values 0, 1, 2 — see `Generated.seekValues`) -/
inductive Whence | start | current | end_
  deriving DecidableEq, Repr, Inhabited

structure Size where
  w : Nat
  h : Nat
  deriving DecidableEq, Repr, Inhabited

/-- `int | FrameDuration`: a static duration in ms or `FrameDuration.DYNAMIC` -/
inductive Dur | dynamic | ms (n : Int)
  deriving DecidableEq, Repr, Inhabited

/-- `RenderArgs` associated with the renderable's class `TR(Base(Renderable))`: the two
    namespaces `Base.Args(foo)`, `TR.Args(bar)`. Equality is field-wise (`RenderArgs.__eq__`). -/
structure Args where
  foo : Int
  bar : Int
  deriving DecidableEq, Repr, Inhabited

/-- what a caller can pass as `render_args` -/
inductive ArgsIn
  | own (foo bar : Int)   -- RenderArgs(TR, Base.Args(foo), TR.Args(bar)): `render_cls is type(renderable)`
  | base (foo : Int)      -- RenderArgs(Base, Base.Args(foo)): a parent's args, compatible → converted
  | root                  -- RenderArgs(Renderable): compatible, all defaults
  | foreign               -- RenderArgs(Other): not a parent class → IncompatibleRenderArgsError
  deriving DecidableEq, Repr

inductive Err
  | ValueError | FinalizedIteratorError | StopIteration | StopDefiniteIterationError
  | IncompatibleRenderArgsError | RelativePaddingDimensionError | IndefiniteSeekError
  | RenderFailure   -- any other exception out of `_render_`
  | IndexError      -- `cache[frame_no]` out of range (shown unreachable)
  | Diverges        -- `while loop: while frame_no < frame_count:` spinning (shown unreachable)
  deriving DecidableEq, Repr

/-- `RenderArgs(render_cls, render_args)` — validate compatibility and convert -/
def convertArgs : ArgsIn → Except Err Args
  | .own f b => .ok ⟨f, b⟩
  | .base f => .ok ⟨f, 0⟩
  | .root => .ok ⟨0, 0⟩
  | .foreign => .error .IncompatibleRenderArgsError

/-! ## padding (src/term_image/padding.py — only what the iterator calls) -/

/-- `_ALIGN_RATIOS` (the harness regenerates `Generated.alignRatios`; `Props` ties the two) -/
def alignRatios : List (Nat × Nat) := [(0, 1), (1, 2), (1, 1)]

inductive Padding
  | exact (l t r b : Nat) (fill : Nat)
  | aligned (w h : Int) (ha va : Nat) (fill : Nat)
  deriving DecidableEq, Repr, Inhabited

namespace Padding

/-- `AlignedPadding.relative = not width > 0 < height` -/
def relative : Padding → Bool
  | .exact .. => false
  | .aligned w h .. => !(decide (w > 0) && decide (0 < h))

def isAligned : Padding → Bool
  | .exact .. => false
  | .aligned .. => true

def fill : Padding → Nat
  | .exact _ _ _ _ f => f
  | .aligned _ _ _ _ f => f

/-- `AlignedPadding.resolve(terminal_size)` -/
def resolve (term : Size) : Padding → Padding
  | .exact l t r b f => .exact l t r b f
  | .aligned w h ha va f =>
    if !(relative (.aligned w h ha va f)) then .aligned w h ha va f
    else
      let w' := if w ≤ 0 then max ((term.w : Int) + w) 1 else w
      let h' := if h ≤ 0 then max ((term.h : Int) + h) 1 else h
      .aligned w' h' ha va f

/-- the expression used at every place a caller's padding is taken in:
    `padding.resolve(get_terminal_size()) if isinstance(padding, AlignedPadding) and padding.relative else padding` -/
def takeIn (term : Size) (p : Padding) : Padding :=
  if p.isAligned && p.relative then p.resolve term else p

/-- `_get_exact_dimensions_(render_size)` → `(left, top, right, bottom)` -/
def exactDims (p : Padding) (rs : Size) : Except Err (Nat × Nat × Nat × Nat) :=
  match p with
  | .exact l t r b _ => .ok (l, t, r, b)
  | .aligned w h ha va _ =>
    if relative p then .error .RelativePaddingDimensionError
    else
      let (left, right) :=
        if w > rs.w then
          let pw := (w - rs.w).toNat
          let (num, den) := alignRatios.getD ha (0, 1)
          let left := pw * num / den
          (left, pw - left)
        else (0, 0)
      let (top, bottom) :=
        if h > rs.h then
          let ph := (h - rs.h).toNat
          let (num, den) := alignRatios.getD va (0, 1)
          let top := ph * num / den
          (top, ph - top)
        else (0, 0)
      .ok (left, top, right, bottom)

/-- `get_padded_size(render_size)` (the `AlignedPadding` override and the base method) -/
def paddedSize (p : Padding) (rs : Size) : Except Err Size :=
  match p with
  | .exact l t r b _ => .ok ⟨l + rs.w + r, t + rs.h + b⟩
  | .aligned w h _ _ _ =>
    if relative p then .error .RelativePaddingDimensionError
    else .ok ⟨(max w rs.w).toNat, (max h rs.h).toNat⟩

end Padding

/-! ## the renderable -/

/-- what `_render_(render_data, render_args)` can read -/
structure Req where
  off : Int
  whence : Whence
  size : Size
  dur : Dur
  args : Args
  deriving DecidableEq, Repr, Inhabited

/-- `Frame(number, duration, render_size, render_output)` as returned by `_render_` -/
structure Frame (O : Type) where
  number : Int
  duration : Int
  size : Size
  out : O

inductive RRes (O : Type)
  | frame (f : Frame O)
  | stop    -- `_render_` raised StopIteration
  | fail    -- `_render_` raised something else

structure Renderable (ρ O : Type) where
  render : ρ → Req → ρ × RRes O

/-- a frame as yielded by the iterator: the renderable's frame, possibly re-wrapped with the
    padded size and `padding.pad(output, frame.render_size)` = (left, top, right, bottom, fill) -/
structure YFrame (O : Type) where
  number : Int
  duration : Int
  size : Size
  pad : Option (Nat × Nat × Nat × Nat × Nat)
  out : O

inductive Resp (O : Type)
  | frame (f : YFrame O)
  | ok
  | err (e : Err)

/-- what is observed after every operation: its result, `iterator.loop`, `renderable.tell()` -/
structure Obs (O : Type) where
  resp : Resp O
  loop : Int
  rFrame : Nat

/-! ## operations -/

inductive Op
  | next
  | seek (off : Int) (wh : Whence)
  | setDuration (d : Dur)
  | setPadding (p : Padding)
  | setArgs (a : ArgsIn)
  | setSize (sz : Size)
  | close
  | pokeLoop (v : Int)                 -- `iterator.loop = v` ("Modifying this doesn't affect the iterator")
  | rseek (off : Int) (wh : Whence)    -- `renderable.seek(...)` ("does not affect an iterator")
  | rnoise                             -- the renderable's own size / frame_duration changed
  | termSize (sz : Size)               -- the terminal was resized
  deriving Repr

/-! ## implementation state -/

inductive Phase | dummy | running
  deriving DecidableEq, Repr

structure CacheEntry (O : Type) where
  frame : Frame O
  size : Size
  dur : Dur
  args : Args

structure St (ρ O : Type) where
  /- the renderable and the environment -/
  count : Option Nat      -- `renderable.frame_count`, `none` = INDEFINITE
  rFrame : Nat            -- the renderable's own current frame (`Renderable.tell()`)
  term : Size             -- `get_terminal_size()`
  rstate : ρ              -- per-iteration state of the renderable (lives in the render data)
  /- instance attributes -/
  closed : Bool
  pubLoop : Int           -- `self.loop`
  cached : Bool           -- `self._cached`
  padding : Padding       -- `self._padding`
  paddedSize : Size       -- `self._padded_size`
  args : Args             -- `self._render_args`
  /- `render_data[Renderable]` -/
  size : Size
  dur : Dur
  frameOffset : Int
  whence : Whence
  /- locals of the generator -/
  frameCount : Nat
  definite : Bool
  loop : Int
  frameNo : Int
  cache : List (Option (CacheEntry O))   -- `[]` when `cache is None`
  phase : Phase           -- suspended at `yield DUMMY_FRAME` / at `yield frame`
  /- ghost: every request handed to `_render_`, most recent first -/
  calls : List Req

/-- Python list indexing with an `int` (negative indices count from the end) -/
def pyGet {α} (l : List α) (i : Int) : Option α :=
  if 0 ≤ i then l[i.toNat]?
  else if -i ≤ l.length then l[((l.length : Int) + i).toNat]?
  else none

def pySet {α} (l : List α) (i : Int) (v : α) : List α :=
  if 0 ≤ i then l.set i.toNat v else l.set ((l.length : Int) + i).toNat v

/-! ### construction: `_init` + `_init_render_`/`_from_render_data_` + `_iterate` up to `yield DUMMY_FRAME` -/

inductive CacheArg | flag (v : Bool) | limit (c : Int)
  deriving DecidableEq, Repr

structure Init where
  count : Option Nat
  loops : Int
  cache : CacheArg
  padding : Padding
  args : Option ArgsIn
  size : Size          -- the renderable's render size when the render data is generated
  dur : Dur            -- the renderable's frame duration at that moment
  rFrame : Nat         -- the renderable's current frame (becomes the render data's `frame_offset`)
  term : Size
  deriving Repr

/-- `if False is not cache <= 0` — the chained comparison `(False is not cache) and (cache <= 0)` -/
def CacheArg.rejected : CacheArg → Bool
  | .flag _ => false          -- `False is not False` is false; `True <= 0` is false
  | .limit c => decide (c ≤ 0)

/-- the frame count a renderable is *constructed* with: `FrameCount.POSTPONED` defers the evaluation to
    `_get_frame_count_()` (what it will return is `res`), done — once — by the `frame_count` property -/
inductive Declared
  | indefinite
  | definite (n : Nat)
  | postponed (res : Option Nat)
  deriving DecidableEq, Repr

/-- the `Renderable.frame_count` property: `if self._frame_count is POSTPONED: self._frame_count =
    self._get_frame_count_()`; `none` = INDEFINITE.  This, never `_frame_count`, is what the iterator reads
    (`_init`: `indefinite = renderable.frame_count is FrameCount.INDEFINITE`, `seek`, `_iterate`). -/
def Declared.resolve : Declared → Option Nat
  | .indefinite => none
  | .definite n => some n
  | .postponed res => res

/-- `self._cached` as computed by `_init` -/
def cachedDecision (count : Option Nat) (cache : CacheArg) : Bool :=
  match count with
  | none => false
  | some n =>
    match cache with
    | .flag v => v
    | .limit c => decide ((n : Int) ≤ c)

/-- `Renderable._animate_`: `False if loops == 1 else cache` -/
def drawCache (loops : Int) (cache : CacheArg) : CacheArg :=
  if loops = 1 then .flag false else cache

/-- `_init`'s argument validation followed by the render-args conversion of `_init_render_` /
    `_from_render_data_` -/
def initCheck (i : Init) : Except Err Args :=
  let animated := match i.count with | none => true | some n => decide (n ≥ 2)
  if !animated then .error .ValueError                 -- "'renderable' is not animated"
  else if i.loops = 0 then .error .ValueError          -- `if not loops`
  else if i.cache.rejected then .error .ValueError      -- `if False is not cache <= 0`
  else
    -- `RenderArgs(type(self), render_args)` unless already of the class
    match i.args with
    | none => .ok ⟨0, 0⟩
    | some a => convertArgs a

def init {ρ O} (i : Init) (r0 : ρ) : Except Err (St ρ O) :=
  match initCheck i with
  | .error e => .error e
  | .ok args =>
    let indefinite := i.count.isNone
    let loops : Int := if indefinite then 1 else i.loops
    let cached := cachedDecision i.count i.cache
    let padding := i.padding.takeIn i.term
    -- `_iterate` up to the dummy yield
    match padding.paddedSize i.size with
    | .error e => .error e
    | .ok ps =>
      let frameCount := match i.count with | none => 1 | some n => n
      .ok {
        count := i.count, rFrame := i.rFrame, term := i.term, rstate := r0,
        closed := false, pubLoop := loops, cached := cached, padding := padding,
        paddedSize := ps, args := args,
        size := i.size, dur := i.dur, frameOffset := 0, whence := .start,
        frameCount := frameCount, definite := decide (frameCount > 1), loop := loops,
        frameNo := 0,
        cache := if cached then List.replicate frameCount none else [],
        phase := .dummy, calls := [] }

/-- construction over a renderable with a declared (possibly postponed) frame count: the count is
    resolved by the property *before* `_init` decides `indefinite`, `loops` and `_cached` -/
def initD {ρ O} (d : Declared) (i : Init) (r0 : ρ) : Except Err (St ρ O) :=
  init { i with count := d.resolve } r0

/-! ### `__next__` -/

section
variable {ρ O : Type}

/-- the generator returned (or raised): `__next__` closes the iterator -/
def shut (s : St ρ O) : St ρ O := { s with closed := true }

/-- `Frame(number, duration, padded_size, padding.pad(output, frame.render_size))` when the padded size
    differs from the frame's size, the frame itself otherwise -/
def presentWith {O : Type} (padding : Padding) (paddedSize : Size) (f : Frame O) : Except Err (YFrame O) :=
  if paddedSize ≠ f.size then
    match padding.exactDims f.size with
    | .ok (l, t, r, b) => .ok ⟨f.number, f.duration, paddedSize, some (l, t, r, b, padding.fill), f.out⟩
    | .error e => .error e
  else .ok ⟨f.number, f.duration, f.size, none, f.out⟩

/-- the bookkeeping between padding and `yield frame` -/
def advance (s : St ρ O) : St ρ O :=
  let s :=
    if s.definite then { s with frameOffset := s.frameOffset + 1 }
    else if s.frameOffset ≠ 0 ∨ s.whence ≠ .current then { s with frameOffset := 0, whence := .current }
    else s
  { s with phase := .running }

/-- padding and the bookkeeping after a frame was obtained, up to `yield frame` -/
def afterRender (s : St ρ O) (f : Frame O) : St ρ O × Resp O :=
  match presentWith s.padding s.paddedSize f with
  | .error e => (shut s, .err e)
  | .ok y => (advance s, .frame y)

/-- the cache look-up: `some f` = hit -/
def cacheLookup (s : St ρ O) : Except Err (Option (Frame O)) :=
  if s.cache.isEmpty then .ok none      -- `if cache:` is false for `None`
  else
    match pyGet s.cache s.frameNo with
    | none => .error .IndexError
    | some none => .ok none
    | some (some e) =>
      if (e.size, e.dur, e.args) = (s.size, s.dur, s.args) then .ok (some e.frame) else .ok none

def reqOf (s : St ρ O) : Req := ⟨s.frameOffset, s.whence, s.size, s.dur, s.args⟩

/-- body of the inner `while` up to the `yield` -/
def body (R : Renderable ρ O) (s : St ρ O) : St ρ O × Resp O :=
  match cacheLookup s with
  | .error e => (shut s, .err e)
  | .ok (some f) => afterRender s f
  | .ok none =>
    let req := reqOf s
    let (r', res) := R.render s.rstate req
    let s := { s with rstate := r', calls := req :: s.calls }
    match res with
    | .frame f =>
      let s :=
        if s.cache.isEmpty then s
        else { s with cache := pySet s.cache s.frameNo (some ⟨f, s.size, s.dur, s.args⟩) }
      afterRender s f
    | .stop =>
      if s.definite then (shut s, .err .StopDefiniteIterationError)
      else (shut { s with pubLoop := 0 }, .err .StopIteration)
    | .fail => (shut s, .err .RenderFailure)

/-- end of the outer loop body: `frame_no = frame_offset = 0; if loop > 0: self.loop = loop = loop - 1` -/
def wrap (s : St ρ O) : St ρ O :=
  let s := { s with frameNo := 0, frameOffset := 0 }
  if s.loop > 0 then { s with pubLoop := s.loop - 1, loop := s.loop - 1 } else s

/-- from the inner loop's condition onward -/
def inner (R : Renderable ρ O) (s : St ρ O) : St ρ O × Resp O :=
  if s.frameNo < s.frameCount then body R s
  else
    let s := wrap s
    if s.loop = 0 then (shut s, .err .StopIteration)
    else if s.frameNo < s.frameCount then body R s
    else (shut s, .err .Diverges)

def nextOp (R : Renderable ρ O) (s : St ρ O) : St ρ O × Resp O :=
  if s.closed then (s, .err .StopIteration)    -- AttributeError on `self._iterator` → StopIteration
  else
    match s.phase with
    | .dummy =>
      let s := { s with frameNo := s.frameOffset * (if s.definite then 1 else 0) }
      if s.loop = 0 then (shut s, .err .StopIteration) else inner R s
    | .running =>
      let s := if s.definite then { s with frameNo := s.frameOffset } else s
      inner R s

/-! ### the other methods -/

def seekOp (s : St ρ O) (off : Int) (wh : Whence) : St ρ O × Resp O :=
  if s.closed then (s, .err .FinalizedIteratorError)
  else
    match s.count with
    | none =>
      if (wh = .start ∧ off < 0) ∨ (wh = .end_ ∧ off > 0) then (s, .err .ValueError)
      else ({ s with frameOffset := off, whence := wh }, .ok)
    | some n =>
      let frame : Int :=
        match wh with
        | .start => off
        | .current => s.frameOffset + off
        | .end_ => (n : Int) + off - 1
      if ¬ (0 ≤ frame ∧ frame < n) then (s, .err .ValueError)
      else ({ s with frameOffset := frame, whence := .start }, .ok)

def setDurationOp (s : St ρ O) (d : Dur) : St ρ O × Resp O :=
  if s.closed then (s, .err .FinalizedIteratorError)
  else
    match d with
    | .ms n => if n ≤ 0 then (s, .err .ValueError) else ({ s with dur := d }, .ok)
    | .dynamic => ({ s with dur := d }, .ok)

/-- `set_padding` **as repaired** by fixes/C08-set-padding-relative.diff:
    `self._padded_size = self._padding.get_padded_size(...)` -/
def setPaddingOp (s : St ρ O) (p : Padding) : St ρ O × Resp O :=
  if s.closed then (s, .err .FinalizedIteratorError)
  else
    let s := { s with padding := p.takeIn s.term }
    match s.padding.paddedSize s.size with
    | .error e => (s, .err e)      -- the assignment above has already happened
    | .ok ps => ({ s with paddedSize := ps }, .ok)

/-- `set_padding` as it is in the unrepaired tree: `padding.get_padded_size(...)` on the argument -/
def setPaddingOrig (s : St ρ O) (p : Padding) : St ρ O × Resp O :=
  if s.closed then (s, .err .FinalizedIteratorError)
  else
    let s := { s with padding := p.takeIn s.term }
    match p.paddedSize s.size with
    | .error e => (s, .err e)
    | .ok ps => ({ s with paddedSize := ps }, .ok)

def setArgsOp (s : St ρ O) (a : ArgsIn) : St ρ O × Resp O :=
  if s.closed then (s, .err .FinalizedIteratorError)
  else
    match convertArgs a with
    | .error e => (s, .err e)
    | .ok args => ({ s with args := args }, .ok)

def setSizeOp (s : St ρ O) (sz : Size) : St ρ O × Resp O :=
  if s.closed then (s, .err .FinalizedIteratorError)
  else
    let s := { s with size := sz }
    match s.padding.paddedSize sz with
    | .error e => (s, .err e)
    | .ok ps => ({ s with paddedSize := ps }, .ok)

def closeOp (s : St ρ O) : St ρ O × Resp O :=
  if !s.closed then (shut s, .ok) else (s, .ok)

/-- `Renderable.seek` — on the renderable, not the iterator -/
def rseekTarget (count : Option Nat) (cur : Nat) (off : Int) (wh : Whence) : Except Err Nat :=
  match count with
  | none => .error .IndefiniteSeekError
  | some n =>
    let frame : Int :=
      match wh with
      | .start => off
      | .current => (cur : Int) + off
      | .end_ => (n : Int) + off - 1
    if ¬ (0 ≤ frame ∧ frame < n) then .error .ValueError else .ok frame.toNat

def rseekOp (s : St ρ O) (off : Int) (wh : Whence) : St ρ O × Resp O :=
  match rseekTarget s.count s.rFrame off wh with
  | .error e => (s, .err e)
  | .ok f => ({ s with rFrame := f }, .ok)

def step (R : Renderable ρ O) (s : St ρ O) : Op → St ρ O × Resp O
  | .next => nextOp R s
  | .seek off wh => seekOp s off wh
  | .setDuration d => setDurationOp s d
  | .setPadding p => setPaddingOp s p
  | .setArgs a => setArgsOp s a
  | .setSize sz => setSizeOp s sz
  | .close => closeOp s
  | .pokeLoop v => ({ s with pubLoop := v }, .ok)
  | .rseek off wh => rseekOp s off wh
  | .rnoise => (s, .ok)
  | .termSize sz => ({ s with term := sz }, .ok)

def observe (p : St ρ O × Resp O) : Obs O := ⟨p.2, p.1.pubLoop, p.1.rFrame⟩

/-- run a history; the observations, in order -/
def run (R : Renderable ρ O) : St ρ O → List Op → St ρ O × List (Obs O)
  | s, [] => (s, [])
  | s, op :: ops =>
    let p := step R s op
    let (s', obs) := run R p.1 ops
    (s', observe p :: obs)

def outputs (R : Renderable ρ O) (s : St ρ O) (ops : List Op) : List (Obs O) := (run R s ops).2

end

/-! ## the documented model -/

structure Sp (ρ : Type) where
  count : Option Nat
  rFrame : Nat
  term : Size
  rstate : ρ
  closed : Bool
  next : Int               -- definite: the number of the next frame; `= frame_count` at the end of a loop
  loopsLeft : Int          -- loops still to run, the current one included; negative = for ever
  shown : Int              -- the public `loop` attribute
  pending : Int × Whence   -- INDEFINITE: the seek to hand to the renderable at the next render
  size : Size
  dur : Dur
  args : Args
  padding : Padding

namespace Spec
variable {ρ O : Type}

/-- the constructor: the documented argument errors, then frame 0 of the first loop -/
def init (i : Init) (r0 : ρ) : Except Err (Sp ρ) :=
  match initCheck i with
  | .error e => .error e
  | .ok args =>
    let padding := i.padding.takeIn i.term
    match padding.paddedSize i.size with
    | .error e => .error e
    | .ok _ =>
      let loops : Int := if i.count.isNone then 1 else i.loops
      .ok { count := i.count, rFrame := i.rFrame, term := i.term, rstate := r0, closed := false,
            next := 0, loopsLeft := loops, shown := loops, pending := (0, .start),
            size := i.size, dur := i.dur, args := args, padding := padding }

def shut (t : Sp ρ) : Sp ρ := { t with closed := true }

/-- pad the renderable's frame with the current padding for the current render size -/
def present (t : Sp ρ) (f : Frame O) : Except Err (YFrame O) :=
  match t.padding.paddedSize t.size with
  | .error e => .error e
  | .ok ps => presentWith t.padding ps f

/-- a new loop starts when the previous one was run to its end -/
def newLoop (n : Nat) (t : Sp ρ) : Sp ρ :=
  if t.next ≥ n then
    if t.loopsLeft > 0 then { t with next := 0, loopsLeft := t.loopsLeft - 1, shown := t.loopsLeft - 1 }
    else { t with next := 0 }
  else t

/-- definite: render frame `next` with the current settings -/
def renderDef (R : Renderable ρ O) (t : Sp ρ) : Sp ρ × Resp O :=
  let (r', res) := R.render t.rstate ⟨t.next, .start, t.size, t.dur, t.args⟩
  let t := { t with rstate := r' }
  match res with
  | .frame f =>
    match present t f with
    | .ok y => ({ t with next := t.next + 1 }, .frame y)
    | .error e => (shut t, .err e)
  | .stop => (shut t, .err .StopDefiniteIterationError)
  | .fail => (shut t, .err .RenderFailure)

/-- INDEFINITE: hand the pending seek to the renderable, once -/
def renderIndef (R : Renderable ρ O) (t : Sp ρ) : Sp ρ × Resp O :=
  let (r', res) := R.render t.rstate ⟨t.pending.1, t.pending.2, t.size, t.dur, t.args⟩
  let t := { t with rstate := r' }
  match res with
  | .frame f =>
    match present t f with
    | .ok y => ({ t with pending := (0, .current) }, .frame y)
    | .error e => (shut t, .err e)
  | .stop => (shut { t with shown := 0 }, .err .StopIteration)
  | .fail => (shut t, .err .RenderFailure)

def nextOp (R : Renderable ρ O) (t : Sp ρ) : Sp ρ × Resp O :=
  if t.closed then (t, .err .StopIteration)
  else
    match t.count with
    | some n =>
      let t := newLoop n t
      if t.loopsLeft = 0 then (shut t, .err .StopIteration) else renderDef R t
    | none => renderIndef R t

def seekOp (t : Sp ρ) (off : Int) (wh : Whence) : Sp ρ × Resp O :=
  if t.closed then (t, .err .FinalizedIteratorError)
  else
    match t.count with
    | none =>
      if (wh = .start ∧ off < 0) ∨ (wh = .end_ ∧ off > 0) then (t, .err .ValueError)
      else ({ t with pending := (off, wh) }, .ok)
    | some n =>
      let target : Int :=
        match wh with
        | .start => off
        | .current => t.next + off
        | .end_ => (n : Int) - 1 + off
      if 0 ≤ target ∧ target < n then ({ t with next := target }, .ok) else (t, .err .ValueError)

def step (R : Renderable ρ O) (t : Sp ρ) : Op → Sp ρ × Resp O
  | .next => nextOp R t
  | .seek off wh => seekOp t off wh
  | .setDuration d =>
    if t.closed then (t, .err .FinalizedIteratorError)
    else match d with
      | .ms n => if n ≤ 0 then (t, .err .ValueError) else ({ t with dur := d }, .ok)
      | .dynamic => ({ t with dur := d }, .ok)
  | .setPadding p =>
    if t.closed then (t, .err .FinalizedIteratorError) else ({ t with padding := p.takeIn t.term }, .ok)
  | .setArgs a =>
    if t.closed then (t, .err .FinalizedIteratorError)
    else match convertArgs a with
      | .error e => (t, .err e)
      | .ok args => ({ t with args := args }, .ok)
  | .setSize sz =>
    if t.closed then (t, .err .FinalizedIteratorError) else ({ t with size := sz }, .ok)
  | .close => (shut t, .ok)
  | .pokeLoop v => ({ t with shown := v }, .ok)
  | .rseek off wh =>
    match rseekTarget t.count t.rFrame off wh with
    | .error e => (t, .err e)
    | .ok f => ({ t with rFrame := f }, .ok)
  | .rnoise => (t, .ok)
  | .termSize sz => ({ t with term := sz }, .ok)

def observe (p : Sp ρ × Resp O) : Obs O := ⟨p.2, p.1.shown, p.1.rFrame⟩

def run (R : Renderable ρ O) : Sp ρ → List Op → Sp ρ × List (Obs O)
  | t, [] => (t, [])
  | t, op :: ops =>
    let p := step R t op
    let (t', obs) := run R p.1 ops
    (t', observe p :: obs)

def outputs (R : Renderable ρ O) (t : Sp ρ) (ops : List Op) : List (Obs O) := (run R t ops).2

end Spec

/-! ## the test renderable of the correspondence (harness/c08.py `TR`) -/

structure TOut where
  pos : Int
  req : Req
  deriving DecidableEq, Repr

structure TCfg where
  count : Option Nat
  stream : Nat               -- INDEFINITE: number of frames on the stream
  stopAt : Option Int        -- raise StopIteration when asked for this frame
  failAt : Option Int        -- raise RuntimeError when asked for this frame

def tDuration (d : Dur) (frame : Int) : Int :=
  match d with
  | .dynamic => 10 * (frame + 1)
  | .ms n => n

def testR (c : TCfg) : Renderable Nat TOut where
  render pos req :=
    match c.count with
    | some _ =>
      if c.stopAt = some req.off then (pos, .stop)
      else if c.failAt = some req.off then (pos, .fail)
      else (pos, .frame ⟨req.off, tDuration req.dur req.off, req.size, ⟨0, req⟩⟩)
    | none =>
      let target : Int :=
        match req.whence with
        | .start => req.off
        | .current => (pos : Int) + req.off
        | .end_ => (c.stream : Int) - 1 + req.off
      let target := max target 0
      if target ≥ c.stream then (pos, .stop)
      else if c.stopAt = some target then (pos, .stop)
      else if c.failAt = some target then (pos, .fail)
      else (target.toNat + 1, .frame ⟨target, tDuration req.dur target, req.size, ⟨target, req⟩⟩)

end TIV.C08
