import TIV.Common.Wire
import TIV.Common.Base64
import TIV.C03.Model
