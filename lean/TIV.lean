import TIV.Common.Wire
import TIV.Common.Base64Proofs
import TIV.C01.Props
import TIV.C02.Props
import TIV.C03.Props
import TIV.C12.Props
import TIV.C13.Props
import TIV.C04.Props
