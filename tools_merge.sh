#!/bin/bash
# tools_merge.sh <ID> [<ID2> ...] [--from <dir>] : copy a builder's delivery from /root/work/verif-<id> into /verif
set -e
src=""
ids=()
while [ $# -gt 0 ]; do
  if [ "$1" = "--from" ]; then src="$2"; shift 2; else ids+=("$1"); shift; fi
done
for ID in "${ids[@]}"; do
  lc=$(echo "$ID" | tr 'A-Z' 'a-z')
  from="${src:-/root/work/verif-$lc}"
  echo "== merging $ID from $from"
  mkdir -p /verif/lean/TIV/$ID
  rsync -a --delete "$from/lean/TIV/$ID/" "/verif/lean/TIV/$ID/"
  cp "$from/harness/$lc.py" /verif/harness/
  [ -d "$from/harness/corpus/$ID" ] && mkdir -p /verif/harness/corpus/$ID && rsync -a "$from/harness/corpus/$ID/" /verif/harness/corpus/$ID/
  [ -f "$from/docs/$ID.md" ] && cp "$from/docs/$ID.md" /verif/docs/
  ls "$from"/fixes/$ID-* >/dev/null 2>&1 && cp "$from"/fixes/$ID-* /verif/fixes/
  # extra harness helper modules the builder added (anything not present in /verif)
  for f in "$from"/harness/*.py "$from"/harness/common/*.py; do
    rel="${f#$from/}"
    [ -f "/verif/$rel" ] || { echo "   + extra $rel"; cp "$f" "/verif/$rel"; }
  done
  grep -q "name = \"drv_$lc\"" /verif/lean/lakefile.toml || printf '\n[[lean_exe]]\nname = "drv_%s"\nroot = "TIV.%s.Main"\n' "$lc" "$ID" >> /verif/lean/lakefile.toml
  grep -q "import TIV.$ID.Props" /verif/lean/TIV.lean || echo "import TIV.$ID.Props" >> /verif/lean/TIV.lean
  # other lakefile entries of the builder (extra exes)
  diff <(grep '^name = "drv_' /verif/lean/lakefile.toml | sort) <(grep '^name = "drv_' "$from/lean/lakefile.toml" | sort) | grep '^>' || true
done
