#!/venv/bin/python
"""Mutant rehearsal for C05 (run from the verif copy; mutates the scratch worktree only).

usage: VERIF_REPO=/root/work/repo-c05 /venv/bin/python docs/c05_mutants.py [name …]
For each mutant: apply to the (repaired) worktree, run the repository's relevant tests, run
`./check C05`, print the outcome, restore the worktree (git checkout + the C05 fix).
"""
import os
import re
import subprocess
import sys

REPO = os.environ.get("VERIF_REPO", "/root/work/repo-c05")
VERIF = os.path.dirname(os.path.dirname(os.path.abspath(__file__)))
FIX = os.path.join(VERIF, "fixes", "C05-format-render-narrow-fill.diff")
PAD = "src/term_image/padding.py"
COM = "src/term_image/image/common.py"
REN = "src/term_image/renderable/_renderable.py"

MUTANTS = {
    "none": (PAD, "_ALIGN_RATIOS = ((0, 1), (1, 2), (1, 1))", "_ALIGN_RATIOS = ((0, 1), (1, 2), (1, 1)) "),
    "ratio-center-third": (PAD, "_ALIGN_RATIOS = ((0, 1), (1, 2), (1, 1))", "_ALIGN_RATIOS = ((0, 1), (1, 3), (1, 1))"),
    "right-uses-left": (PAD, "            right_padding = fill * right\n", "            right_padding = fill * left\n"),
    "nofill-bottom-render-width": (PAD, 'bottom_padding = f"\\n{cursor_forward(width)}" * bottom if bottom else ""',
                                   'bottom_padding = f"\\n{cursor_forward(render_size.width)}" * bottom if bottom else ""'),
    "center-rounds-up": (PAD, "            left = padding_width * numerator // denominator\n",
                         "            left = -(-padding_width * numerator // denominator)\n"),
    "resolve-min-zero": (PAD, "            width = max(terminal_width + width, 1)\n", "            width = max(terminal_width + width, 0)\n"),
    "render-compares-width-only": (REN, """        return (
            frame
            if frame.render_size == padded_size""", """        return (
            frame
            if frame.render_size[0] == padded_size[0]"""),
    "exact-accepts-negative-bottom": (PAD, "            if value < 0:\n", '            if value < 0 and name != "bottom":\n'),
    "padded-size-ignores-render": (PAD, "        return _Size(max(self.width, render_size[0]), max(self.height, render_size[1]))",
                                   "        return _Size(max(self.width, render_size[0]), self.height)"),
    "old-center-rounds-up": (COM, '                left = " " * ((width - cols) // 2)\n', '                left = " " * ((width - cols + 1) // 2)\n'),
    "old-relative-no-floor": (COM, "        width = width if width > 0 else max(terminal_size.columns + width, 1)\n",
                              "        width = width if width > 0 else abs(terminal_size.columns + width)\n"),
    "relative-needs-both": (PAD, '        _setattr("relative", not width > 0 < height)\n',
                            '        _setattr("relative", not (width > 0 or height > 0))\n'),
    "replace-drops-left-after-newline": (PAD, 'render.replace("\\n", f"{right_padding}\\n{left_padding}")',
                                         'render.replace("\\n", f"{right_padding}\\n")'),
    "horizontal-left-only": (PAD, "        horizontal = left or right\n", "        horizontal = left\n"),
    "vertical-needs-both": (PAD, "        vertical = top or bottom\n", "        vertical = top and bottom\n"),
    "to-exact-drops-fill": (PAD, "            else ExactPadding(*self._get_exact_dimensions_(render_size), self.fill)\n",
                            "            else ExactPadding(*self._get_exact_dimensions_(render_size))\n"),
    "resolve-height-vs-width": (PAD, "            height = max(terminal_height + height, 1)\n", "            height = max(terminal_width + height, 1)\n"),
    "old-height-vs-columns": (COM, "        height = height if height > 0 else max(terminal_size.lines + height, 1)\n",
                              "        height = height if height > 0 else max(terminal_size.columns + height, 1)\n"),
    "render-pads-with-padded-size": (REN, "                padding.pad(frame.render_output, frame.render_size),\n            )\n        )\n\n    def seek",
                                     "                padding.pad(frame.render_output, padded_size),\n            )\n        )\n\n    def seek"),
    "zero-height-absolute": (PAD, '        _setattr("relative", not width > 0 < height)\n', '        _setattr("relative", not width > 0 <= height)\n'),
    "exact-allows-minus-one": (PAD, "            if value < 0:\n", "            if value < -1:\n"),
    "resolve-width-strict": (PAD, "        if width <= 0:\n            width = max(terminal_width + width, 1)\n",
                             "        if width < 0:\n            width = max(terminal_width + width, 1)\n"),
    "resolve-drops-fill": (PAD, "        return type(self)(width, height, *args)\n", "        return type(self)(width, height, *args[:2])\n"),
    "top-fill-drops-right": (PAD, '            top_padding = f"{fill * width}\\n" * top if top else ""\n',
                             '            top_padding = f"{fill * (left + render_size.width)}\\n" * top if top else ""\n'),
    "animation-goes-up-pad-height": (COM, "        lines = max(fmt[-1], self.rendered_height)\n        prev_seek_pos", "        lines = fmt[-1]\n        prev_seek_pos"),
    "iterator-size-read-once": (COM, "        sent = None\n        n = 0\n        while repeat:\n            if sent is None:\n                image._seek_position = n\n                try:\n                    frame = image._format_render(\n                        image._render_image(img, alpha, frame=True, **style_args), *fmt\n                    )",
                                "        size0 = image.rendered_size\n        image_fr = type(image)._format_render\n        sent = None\n        n = 0\n        while repeat:\n            if sent is None:\n                image._seek_position = n\n                try:\n                    _s, image._size = image._size, size0\n                    try:\n                        frame = image_fr(image, image._render_image(img, alpha, frame=True, **style_args), *fmt)\n                    finally:\n                        image._size = _s"),
    "revert-the-fix": (COM, '            fill = " " * max(width, cols)\n', '            fill = " " * width\n'),
}


def sh(cmd, **kw):
    return subprocess.run(cmd, shell=True, capture_output=True, text=True, **kw)


def restore():
    sh(f"git -C {REPO} checkout -- .")  # the C05 fix is part of /repo's HEAD since the merge


def main():
    names = sys.argv[1:] or (["none"] + list(MUTANTS))
    for name in names:
        path, old, new = MUTANTS[name]
        restore()
        f = os.path.join(REPO, path)
        s = open(f).read()
        if s.count(old) != 1:
            print(f"{name}: pattern occurs {s.count(old)} times — skipped")
            continue
        open(f, "w").write(s.replace(old, new))
        t = sh(f"cd {REPO} && PYTHONPATH={REPO}/src timeout 900 /venv/bin/python -m pytest -q -p no:cacheprovider --continue-on-collection-errors "
               "tests/test_padding.py tests/test_image/test_base.py tests/test_image/test_block.py "
               "tests/renderable/test_renderable.py tests/test_iterator.py 2>&1 | tail -3")
        tests = t.stdout.strip().splitlines()[-1] if t.stdout.strip() else "?"
        if os.environ.get("TESTS_ONLY"):
            print(f"== {name}\n   tests: {tests}")
            continue
        c = sh(f"cd {VERIF} && VERIF_REPO={REPO} ./check C05 2>&1 | tail -40")
        out = c.stdout
        last = out.strip().splitlines()[-1] if out.strip() else "?"
        viol = len(re.findall(r"^VIOLATION", out, flags=re.M))
        keys = []
        for m in re.finditer(r"replay=(\S+)", out):
            try:
                import json
                j = json.load(open(m.group(1)))
                keys.append((j.get("key") or "; ".join(j.get("broken_ties", [])))[:110])
            except Exception:
                pass
        print(f"== {name}\n   tests: {tests}\n   check: {last}\n   violations: {viol}; first keys: {keys[:2]}")
        sys.stdout.flush()
    restore()
    sh(f"rm -f {VERIF}/replays/C05-*")


if __name__ == "__main__":
    main()
