#!/venv/bin/python
"""Demonstration for fixes/C15-is-on-kitty-stale.diff.

History (kitty terminal that answers XTVERSION):
    disable_queries(); TextImage._is_on_kitty(); enable_queries()
Afterwards get_terminal_name_version() reports ('kitty', …) — enable_queries() invalidated it —
but TextImage._is_on_kitty() must say True as well (block renders need the kitty workaround).
Exit 0 = behaves, exit 1 = stale.  Run with VERIF_REPO=<tree> (default /repo)."""
import os
import sys

here = os.path.dirname(os.path.abspath(__file__))
sys.path.insert(0, os.path.join(here, "..", "harness"))
import c15  # noqa: E402  (installs the virtual terminal on term_image.utils)

term = dict(ioctlFail=False, ansCell=True, ansArea=False, termux=False, kittyGfx=True, xtv=("kitty", "0.30.1"),
            envProg=None, envVer=None, fg=None, bg=None)
d = dict(term=term, win=(80, 30, 0, 0, 10, 20, 800, 600), ops=[("qoff",), ("iok",), ("qon",), ("gnv",), ("iok",)])
recs = c15.run_history(d)
vals = [r["val"] for r in recs]
print("disable_queries(); _is_on_kitty() ->", vals[1])
print("enable_queries(); get_terminal_name_version() ->", c15.utils.get_terminal_name_version())
print("_is_on_kitty() ->", vals[4])
ok = vals[4] == "T"
print("OK" if ok else "STALE: _is_on_kitty() still False although the terminal is kitty")
sys.stdout.flush()
os._exit(0 if ok else 1)
