#!/venv/bin/python
"""Demonstration for fixes/C18-ghost-images.diff — fails before, passes after.

    VERIF_REPO=<tree> /venv/bin/python fixes/C18-ghost-images.py

Three histories drawn by the real `UrwidImageScreen` into a buffer, the bytes interpreted on the
placement terminal of harness/c18_world.py and compared with the images of the canvas just drawn:
 D9  closing a left-aligned Overlay over a kitty image (3 stale views of one widget: its disguise is
     bumped 3 ≡ 0 times, urwid skips the unchanged rows, their placements were deleted by z-index);
 D4  the top widget stops being a container (`frozenset.clear()` → AttributeError out of draw_screen);
 D4' the top widget is the image itself and is then replaced by text (the lone canvas was never
     recorded as a view, so nothing deletes its placements).
"""
import os
import sys

sys.path.insert(0, os.path.join(os.path.dirname(os.path.abspath(__file__)), "..", "harness"))
import c18  # noqa: E402

bad = 0
for name in ("overlay-close-3-views", "top-becomes-image", "lone-image-then-text"):
    line, impl, fail, _ = c18.hist_case(c18.KNOWN_SCRIPTS[name])
    print(f"{name}: " + ("ok" if fail is None else f"FAIL [{fail.key}] {fail.what}"))
    bad += fail is not None
sys.exit(1 if bad else 0)
