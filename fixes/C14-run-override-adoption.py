#!/venv/bin/python
"""Demonstration for fixes/C14-run-override-adoption.diff.

usage:  C14-run-override-adoption.py [<repo tree>]      (default: $VERIF_REPO or /repo)

A `multiprocessing.Process` SUBCLASS that overrides run() without calling super().run() — the
classic way of subclassing Process — never passes through the wrapper term_image installs on
`BaseProcess.run`. With the spawn / forkserver start methods (child imports term_image at module
level, i.e. before the Process object is unpickled, so the import-time adoption finds nothing) such
a child keeps its own fresh `threading.RLock`: its `lock_tty`-synchronized calls run concurrently with
the parent's (exit 1). With the patch the adoption is installed on `BaseProcess._bootstrap`, which
every start method calls in the child and which subclasses do not override (exit 0).
"""
import os
import sys

HERE = os.path.dirname(os.path.abspath(__file__))
sys.path.insert(0, os.path.join(HERE, "..", "harness"))
if len(sys.argv) > 1:
    os.environ["VERIF_REPO"] = sys.argv[1]
os.environ.setdefault("VERIF_REPO", "/repo")

import c14  # noqa: E402

CONFIGS = [("spawn", "default", 0, "run", 0), ("forkserver", "ctx", 0, "run", 0), ("spawn", "ctx", 0, "run", 0),
           ("fork", "default", 0, "run", 0), ("spawn", "default", 0, "runsuper", 0), ("spawn", "default", 0, "target", 0)]


def main():
    prop = c14.C14()
    bad = 0
    for cfg in CONFIGS:
        method, how, lazy, style, pre = cfg
        j, err = prop.run_mp(method, how, lazy, 1, style, pre)
        name = f"{method:10s} {how:7s} {style:8s}"
        if j is None:
            print(f"{name}: did not finish ({err[:80]})")
            bad += 1
            continue
        print(f"{name}: {j['overlaps']:3d} of {j['intervals']} synchronized calls overlap"
              + (f"   e.g. {j['first']}" if j["overlaps"] else ""))
        bad += bool(j["overlaps"])
    print("FAIL: terminal access is not serialised" if bad else "PASS: no two synchronized calls overlap")
    return 1 if bad else 0


if __name__ == "__main__":
    sys.exit(main())
