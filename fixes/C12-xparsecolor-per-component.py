#!/venv/bin/python
"""Demonstration for fixes/C12-xparsecolor-per-component.diff.

XParseColor's `rgb:<r>/<g>/<b>` allows 1-4 hex digits PER COMPONENT, each scaled by its own
width.  The unpatched `x_parse_color` scales all three by the width of the first one:
`rgb:f/ff/ff` -> (255, 4335, 4335).  Exit 0 when every component is scaled by its own width.

    VERIF_REPO=/path/to/tree /venv/bin/python fixes/C12-xparsecolor-per-component.py
"""
import itertools
import os
import sys
import warnings

warnings.simplefilter("ignore")
sys.path.insert(0, os.path.join(os.environ.get("VERIF_REPO", "/repo"), "src"))
from term_image._ctlseqs import x_parse_color  # noqa: E402

bad = []
for pat in itertools.product([1, 2, 3, 4], repeat=3):
    for fill in "0f8":
        comps = [fill * n for n in pat]
        want = tuple(int(c, 16) * 255 // (16 ** len(c) - 1) for c in comps)
        got = x_parse_color("rgb:" + "/".join(comps))
        if got != want:
            bad.append(("rgb:" + "/".join(comps), got, want))
for spec, got, want in bad[:5]:
    print(f"x_parse_color({spec!r}) = {got}, want {want}")
print(f"{len(bad)} of {64 * 3} specifications wrong")
sys.exit(1 if bad else 0)
