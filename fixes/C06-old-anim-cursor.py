#!/venv/bin/python
"""Demonstration for fixes/C06-old-anim-cursor.diff (D5 + D6). Fails on the unchanged tree, passes after.
Run:  VERIF_REPO=<tree> /venv/bin/python fixes/C06-old-anim-cursor.py

An old-API animation (BlockImage on a 3-frame GIF, one pass) is drawn on a 12x8 terminal starting on
row 3; the captured bytes are interpreted by the Lean terminal model (`term.run`).
 D5: a ONE-line image: `CURSOR_UP % 0` = ESC[0A moves up a line per frame -> frames crawl upward.
 D6: afterwards the cursor must be at the start of the line below the image, not `lines + 1` below."""
import os, sys
sys.path.insert(0, os.path.join(os.path.dirname(os.path.abspath(__file__)), "..", "harness"))
import c06
from common import framework as fw, tokenizer as tk

def draw(cols, lines, by_width):
    d = {"api": "old", "style": "block", "term": "", "iseed": 7, "nframes": 3, "loops": 1, "cache": False,
         "animate": True, "tty": True, "hide": True, "echo": False, "check_size": True, "allow_scroll": False,
         "cols": cols, "lines": lines, "by_width": by_width, "h_align": "<", "v_align": "^", "pad_width": 1,
         "pad_height": 1, "dynamic": False, "start_frame": 0, "W": 12, "H": 8}
    r = c06.run_old(d)
    toks = tk.tokenize(r.stream.getvalue())
    st = c06.parse_state(fw.run_driver("drv_c06", [f"term.run 12 8 other 3 0 0 0 {tk.wire(toks)}"])[0])
    rows = sorted({w[0] for w in st["writes"]})
    return r.size, st["row"], rows

ok = True
for cols, lines, bw in ((2, 1, False), (4, 2, True)):
    size, row, rows = draw(cols, lines, bw)
    want_rows = list(range(3, 3 + size[1]))
    good = rows == want_rows and row == 3 + size[1]
    print(f"image {size[0]}x{size[1]}: rows written {rows} (want {want_rows}), cursor ends on row {row} (want {3 + size[1]})"
          f" -> {'ok' if good else 'WRONG'}")
    ok &= good
sys.exit(0 if ok else 1)
