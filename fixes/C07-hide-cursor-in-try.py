#!/venv/bin/python
"""Demonstration for fixes/C07-hide-cursor-in-try.diff (D7). Fails on the unchanged tree, passes after.
Run:  VERIF_REPO=<tree> /venv/bin/python fixes/C07-hide-cursor-in-try.py

Old API draw() on a tty: a KeyboardInterrupt delivered while HIDE_CURSOR is being printed (here: in the
flush of that very print) happened *before* the `try` whose `finally` shows the cursor again."""
import os, sys
sys.path.insert(0, os.path.join(os.path.dirname(os.path.abspath(__file__)), "..", "harness"))
import c06, c07

d = {"api": "old", "style": "block", "term": "", "iseed": 7, "nframes": 1, "loops": 1, "cache": False,
     "animate": True, "tty": True, "hide": True, "echo": False, "check_size": True, "allow_scroll": False,
     "cols": 4, "lines": 2, "by_width": True, "h_align": None, "v_align": None, "pad_width": 1, "pad_height": 1,
     "dynamic": False, "start_frame": 0, "W": 12, "H": 8, "plan": {"k": 1, "off": 0, "exc": "kbd"}}
r = c06.run_old(d)
state, visible, sgr_default = c07.mini_terminal(r.stream.getvalue())
print(f"stream {r.stream.getvalue()!r}: outcome {r.outcome}, cursor visible: {visible}")
sys.exit(0 if visible and r.outcome == "raised:kbd" else 1)
