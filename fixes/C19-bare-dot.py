#!/venv/bin/python
"""Demonstration for fixes/C19-bare-dot.diff — fails (exit 1) before the patch, passes (exit 0) after.

The documented render format specification says: "if the `.` is present, then at least one of
`v_align` and `height` must be present".  `_NO_VERTICAL_SPEC` is the regex that enforces this; the
unpatched one only covers a bare dot followed by nothing, `#`, `#.ddd` or `#rrggbb`, so a bare dot
followed by `##` or by a `+style` part is accepted.

usage:  VERIF_REPO=<tree> /venv/bin/python fixes/C19-bare-dot.py
"""
import os
import sys
import warnings

warnings.simplefilter("ignore")
sys.path.insert(0, os.path.join(os.environ.get("VERIF_REPO", "/repo"), "src"))
import term_image.utils as U  # noqa: E402

U.get_terminal_size = lambda: os.terminal_size((80, 30))  # as the repo's tests/__init__.py does

from term_image.exceptions import StyleError  # noqa: E402
from term_image.image import BlockImage, ITerm2Image, KittyImage  # noqa: E402

MUST_REJECT = [(BlockImage, ".##"), (BlockImage, "<.##"), (BlockImage, "5.##"), (KittyImage, ".+L"),
               (KittyImage, ".##+L"), (KittyImage, "<3.+z1"), (KittyImage, ".#+W"), (ITerm2Image, ".+A"),
               (ITerm2Image, ">.#ffffff+m1")]
MUST_ACCEPT = [(BlockImage, ".1##"), (BlockImage, ".-##"), (KittyImage, ".-+L"), (KittyImage, "1.1##+Wz1m1c9"),
               (ITerm2Image, ".^3#.5+Am1c0"), (BlockImage, "##"), (BlockImage, "<1.1")]
bad = 0
for cls, spec in MUST_REJECT:
    try:
        r = cls._check_format_spec(spec)
        print(f"FAIL  {cls.__name__}._check_format_spec({spec!r}) accepted: {r}")
        bad += 1
    except ValueError as e:
        print(f"ok    {cls.__name__} rejects {spec!r}: {e}")
for cls, spec in MUST_ACCEPT:
    try:
        cls._check_format_spec(spec)
        print(f"ok    {cls.__name__} accepts {spec!r}")
    except (ValueError, StyleError) as e:
        print(f"FAIL  {cls.__name__} rejects the valid {spec!r}: {e}")
        bad += 1
sys.exit(1 if bad else 0)
