#!/venv/bin/python
"""Demonstration for fixes/C14-process-lock-handover.diff.

usage:  C14-process-lock-handover.py [<repo tree>]      (default: $VERIF_REPO or /repo)

Runs real threads + real multiprocessing children that all call `lock_tty`-synchronized
functions (harness/c14_mp.py, stdio on a pty so that term_image finds its terminal and installs
its Process.start/run wrappers) and counts synchronized calls that overlap in time.

Before the patch (exit 1):
  * `multiprocessing.get_context("spawn").Process(...)` — the class used by Pool and
    ProcessPoolExecutor with an explicit context — does not derive from `multiprocessing.Process`,
    so the start/run wrappers are never invoked: parent and children are not synchronized;
  * a spawn/forkserver child whose first import of term_image happens inside its target function
    (after `Process.run()` was entered) keeps its own fresh `threading.RLock`.
After the patch (exit 0): no overlap in any configuration.
"""
import json
import os
import sys

HERE = os.path.dirname(os.path.abspath(__file__))
sys.path.insert(0, os.path.join(HERE, "..", "harness"))
if len(sys.argv) > 1:
    os.environ["VERIF_REPO"] = sys.argv[1]
os.environ.setdefault("VERIF_REPO", "/repo")

import c14  # noqa: E402

CONFIGS = [("spawn", "ctx", 0), ("forkserver", "ctx", 0), ("spawn", "default", 1), ("forkserver", "default", 1),
           ("fork", "default", 0), ("spawn", "default", 0)]


def main():
    prop = c14.C14()
    bad = 0
    for method, how, lazy in CONFIGS:
        j, err = prop.run_mp(method, how, lazy, 1)
        name = f"{method:10s} {'get_context().Process' if how == 'ctx' else 'multiprocessing.Process':23s} " \
               f"{'import inside target' if lazy else 'import at module level'}"
        if j is None:
            print(f"{name}: did not finish ({err[:80]})")
            bad += 1
            continue
        print(f"{name}: {j['overlaps']:3d} of {j['intervals']} synchronized calls overlap"
              + (f"   e.g. {j['first']}" if j["overlaps"] else ""))
        bad += bool(j["overlaps"])
    print("FAIL: terminal access is not serialised" if bad else "PASS: no two synchronized calls overlap")
    return 1 if bad else 0


if __name__ == "__main__":
    sys.exit(main())
