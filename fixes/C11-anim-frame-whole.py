#!/venv/bin/python
"""Demonstration for fixes/C11-anim-frame-whole.diff  (exit 0 = behaves as documented).

iterm2: "ANIM … If used with ImageIterator or an animation, the WHOLE render method is used
instead.  If the image is non-animated, the WHOLE render method is used instead."
Before the patch the fallback renders with the *full* render size instead of WHOLE's minimal
render size, so for an image smaller than its render size the frames of
`ImageIterator(image, 1, "+A")` differ byte for byte from `format(frame, "+W")`.

Run:  VERIF_REPO=<tree> /venv/bin/python fixes/C11-anim-frame-whole.py
"""
import io, os, sys
sys.path.insert(0, os.path.join(os.path.dirname(os.path.abspath(__file__)), "..", "harness"))
from common import env  # noqa: E402  (controlled terminal; imports term_image from $VERIF_REPO)
import term_image.geometry  # noqa: E402,F401
from PIL import Image  # noqa: E402
from term_image.image import ImageIterator, ITerm2Image  # noqa: E402

env.set_env(cell_size=(4, 8), name="wezterm")
frames = [Image.new("RGB", (6, 6), c) for c in ("red", "green", "blue")]
buf = io.BytesIO()
frames[0].save(buf, "GIF", save_all=True, append_images=frames[1:], duration=10)
buf.seek(0)
image = ITerm2Image(Image.open(buf), width=3)
got = list(ImageIterator(image, 1, "+A", False))
want = []
for k in range(3):
    image.seek(k)
    want.append(format(image, "+W"))
still = ITerm2Image(Image.new("RGB", (6, 6), "red"), width=3)
ok = got == want and format(still, "+A") == format(still, "+W")
print("frames of an ANIM iteration equal the WHOLE renders:", got == want)
print("ANIM render of a still image equals its WHOLE render:", format(still, "+A") == format(still, "+W"))
sys.exit(0 if ok else 1)
