#!/venv/bin/python
"""Demonstration for fixes/C06-iterm2-wezterm-pre-erase.diff. Fails on the unchanged tree, passes after.
Run:  VERIF_REPO=<tree> /venv/bin/python fixes/C06-iterm2-wezterm-pre-erase.py

ITerm2Image animation on WezTerm (mix=False) with pad_height > image height: the pre-erase pseudo-render
was built with the *padded* height and then padded again, so it is taller than the padded region: cells
outside the region are overwritten and the animation starts lower than where draw() was called."""
import os, sys
sys.path.insert(0, os.path.join(os.path.dirname(os.path.abspath(__file__)), "..", "harness"))
import c06
from common import framework as fw, tokenizer as tk

d = {"api": "old", "style": "iterm2", "method": "lines", "term": "wezterm", "mix": False, "iseed": 7,
     "nframes": 2, "loops": 1, "cache": False, "animate": True, "tty": True, "hide": True, "echo": False,
     "check_size": True, "allow_scroll": False, "cols": 4, "lines": 2, "by_width": True, "h_align": None,
     "v_align": None, "pad_width": 6, "pad_height": 4, "dynamic": False, "start_frame": 0, "W": 12, "H": 12}
r = c06.run_old(d)
toks = tk.tokenize(r.stream.getvalue())
st = c06.parse_state(fw.run_driver("drv_c06", [f"term.run 12 12 wezterm 2 0 0 0 {tk.wire(toks)}"])[0])
rows = sorted({w[0] for w in st["writes"]})
want = list(range(2, 2 + r.box[1]))
print(f"image {r.size}, padded region {r.box}: rows written {rows}, want {want}; cursor ends on row {st['row']}, want {2 + r.box[1]}")
sys.exit(0 if rows == want and st["row"] == 2 + r.box[1] else 1)
