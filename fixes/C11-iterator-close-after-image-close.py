#!/venv/bin/python
"""Demonstration for fixes/C11-iterator-close-after-image-close.diff  (exit 0 = no leak).

`ImageIterator.close()` closed its PIL image through `image._close_image()`, which compares
with `image._source`.  Once the image itself has been closed (`del self._source`) that raises
AttributeError, which `close()` swallows *before* closing and dropping `self._img`: the file
the library opened stays open for as long as the (closed!) iterator object is referenced.

Run:  VERIF_REPO=<tree> /venv/bin/python fixes/C11-iterator-close-after-image-close.py
"""
import gc, os, sys, tempfile
sys.path.insert(0, os.path.join(os.path.dirname(os.path.abspath(__file__)), "..", "harness"))
from common import env  # noqa: E402,F401
import term_image.geometry  # noqa: E402,F401
from PIL import Image  # noqa: E402
from term_image.image import BlockImage, ImageIterator  # noqa: E402


def fds():
    gc.collect()
    return len(os.listdir("/proc/self/fd"))


d = tempfile.mkdtemp()
path = os.path.join(d, "a.gif")
frames = [Image.new("RGB", (6, 6), c) for c in ("red", "green", "blue")]
frames[0].save(path, "GIF", save_all=True, append_images=frames[1:], duration=10)
base = fds()
with BlockImage.from_file(path, width=3) as image:
    it = ImageIterator(image, 2, "", False)
    next(it)
it.close()  # both the image and the iterator are closed now; `it` is still referenced
leaked = fds() - base
print("descriptors above the baseline after image.close() and iterator.close():", leaked)
# and the caller's own PIL image must still never be closed
pil = Image.open(path)
image = BlockImage(pil, width=3)
it = ImageIterator(image, 2, "", False)
next(it)
image.close()
it.close()
pil.seek(0)
pil.load()
print("caller's PIL image still usable:", pil.getpixel((0, 0)) is not None)
pil.close()
os.remove(path)
os.rmdir(d)
sys.exit(0 if leaked == 0 else 1)
