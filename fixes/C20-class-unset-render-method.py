#!/venv/bin/python
"""Demonstration for fixes/C20-class-unset-render-method.diff.

`Sub.set_render_method(None)` (class-level unset) must make `Sub` follow its parent style class
again ("it uses that of its parent style class (if any) or the default").  The unchanged code
stores the *default* render method into `Sub` instead, so `Sub` (and its instances) stop
following a parent whose class-wide method is not the default.

Run: VERIF_REPO=<tree> /venv/bin/python fixes/C20-class-unset-render-method.py
Exit 0 = behaves as documented, 1 = defect shown.
"""
import os
import sys

sys.path.insert(0, os.path.join(os.path.dirname(os.path.abspath(__file__)), "..", "harness"))
from common import env  # noqa: E402,F401  (terminal-free environment, imports term_image from VERIF_REPO)

from PIL import Image  # noqa: E402
from term_image.image import ITerm2Image, KittyImage  # noqa: E402

bad = []
for Base in (KittyImage, ITerm2Image):
    Sub = type("Sub", (Base,), {})
    SubSub = type("SubSub", (Sub,), {})
    inst = Sub(Image.new("RGB", (4, 8)), width=2)  # two lines tall: LINES and WHOLE framings differ
    try:
        Base.set_render_method("whole")
        Sub.set_render_method("lines")
        Sub.set_render_method(None)  # unset: Sub must follow Base (WHOLE) again
        got = (Sub._render_method, SubSub._render_method, "_render_method" in vars(Sub))
        n = str(inst).count("a=T" if Base is KittyImage else "\x1b]1337;File=")  # one transmission per line or one in all
        framing = "WHOLE" if n == 1 else "LINES" if n == inst.rendered_height else f"?{n}"
        print(f"{Base.__name__}: after set(whole) on base, set(lines)+unset on Sub: "
              f"Sub={got[0]!r} SubSub={got[1]!r} Sub-has-own-entry={got[2]} render-framing={framing}")
        if got[0] != "whole" or got[1] != "whole" or framing != "WHOLE":
            bad.append(Base.__name__)
        # the class that defines the default still resets to its default
        Base.set_render_method(None)
        if Base._render_method != "lines" or Sub._render_method != "lines":
            bad.append(Base.__name__ + "/base-reset")
    finally:
        Base.set_render_method(None)
print("DEFECT" if bad else "OK", bad)
sys.exit(1 if bad else 0)
