#!/venv/bin/python
"""Demonstration for fixes/C08-set-padding-relative.diff.

`RenderIterator.set_padding()` with a terminal-relative `AlignedPadding` (non-positive
minimum width/height, e.g. `AlignedPadding(0, -2)`) resolves the padding against the terminal
size, stores the resolved padding in `self._padding` and then computes `self._padded_size`
from the *unresolved* argument -> `RelativePaddingDimensionError` is raised after the state
was already changed.  The operation is rejected, yet the next frame is padded with the new
padding while `Frame.render_size` still reports the old padded size.

Exit status 0 = behaves as documented (set_padding accepts what the constructor accepts and
the next frame is consistently padded), 1 = defect present.

    VERIF_REPO=/root/work/repo-c08 /venv/bin/python fixes/C08-set-padding-relative.py
"""
import os
import sys
import warnings

warnings.simplefilter("ignore")
sys.path.insert(0, os.path.join(os.environ.get("VERIF_REPO", "/repo"), "src"))

import term_image.render._iterator as _it  # noqa: E402
import term_image.renderable._renderable as _rr  # noqa: E402
from term_image.geometry import Size  # noqa: E402
from term_image.padding import AlignedPadding, ExactPadding  # noqa: E402
from term_image.render import RenderIterator  # noqa: E402
from term_image.renderable import Frame, Renderable  # noqa: E402

TS = os.terminal_size((20, 6))
_it.get_terminal_size = lambda: TS
_rr.get_terminal_size = lambda: TS


class R(Renderable):
    def __init__(self):
        super().__init__(3, 7)

    def _get_render_size_(self):
        return Size(2, 1)

    def _render_(self, data, args):
        d = data[Renderable]
        return Frame(d.frame_offset, 7, d.size, "\n".join(["x" * d.size.width] * d.size.height))


def main() -> int:
    it = RenderIterator(R(), padding=ExactPadding(1, 0, 0, 0))
    first = next(it)
    assert first.render_size == Size(3, 1) and first.render_output == " xx"
    raised = None
    try:
        it.set_padding(AlignedPadding(0, -2))  # the constructor accepts exactly this argument
    except Exception as e:  # noqa: BLE001
        raised = e
    frame = next(it)
    lines = frame.render_output.split("\n")
    actual = Size(len(lines[0]), len(lines))
    print(f"set_padding(AlignedPadding(0, -2)) raised: {type(raised).__name__ if raised else None}")
    print(f"next frame: render_size={tuple(frame.render_size)} actual output size={tuple(actual)}")
    ok = True
    if raised is not None:
        # a rejected operation must leave the iterator as it was: same padding as before
        if frame.render_output != " xx" or frame.render_size != Size(3, 1):
            print("DEFECT: the rejected set_padding() changed the iterator's padding")
            ok = False
    else:
        # accepted: padded to 20 x 4 (terminal 20x6, height -2), consistently
        if frame.render_size != Size(20, 4) or actual != Size(20, 4):
            print("DEFECT: accepted set_padding() but the frame is not padded to (20, 4)")
            ok = False
    if frame.render_size != actual:
        print("DEFECT: Frame.render_size disagrees with the size of Frame.render_output")
        ok = False
    # same thing through the constructor, for reference
    ref = next(RenderIterator(R(), padding=AlignedPadding(0, -2)))
    if ok and raised is None and ref.render_size != frame.render_size:
        print("DEFECT: set_padding() and the constructor resolve the padding differently")
        ok = False
    print("OK" if ok else "FAILED")
    return 0 if ok else 1


if __name__ == "__main__":
    sys.exit(main())
