#!/venv/bin/python
"""Demonstration for fixes/C05-format-render-narrow-fill.diff.

`BaseImage._format_render` (old API: format(image, spec), draw(), ImageIterator) builds its
top/bottom padding lines `width` columns wide, where `width` is the *padding* width. When the
padding width is smaller than the render (`width < cols`, which `_check_formatting` allows and the
format spec `"3.5"` produces for a 5-column image) but the padding height is larger, the padding
lines are narrower than the render: cells of the padded box (max(cols, width) x max(lines, height))
are left unblanked and the cursor ends `cols - width` columns short of the box's right edge.
The new API (`AlignedPadding.pad`) pads such lines to the render width.

Run: VERIF_REPO=<tree> /venv/bin/python fixes/C05-format-render-narrow-fill.py
exit 0 = behaves (fixed), exit 1 = defect present.
"""
import os
import sys

sys.path.insert(0, os.path.join(os.path.dirname(os.path.abspath(__file__)), "..", "harness"))
from common import env  # noqa: E402

from PIL import Image  # noqa: E402
from term_image.geometry import Size  # noqa: E402
from term_image.image import BlockImage  # noqa: E402
from term_image.padding import AlignedPadding, HAlign, VAlign  # noqa: E402

env.reset_env()
env.set_env(term_size=(20, 10))
im = BlockImage(Image.new("RGB", (5, 4), (10, 20, 30)))
im.set_size(width=5)
assert im.rendered_size == (5, 2)
out = format(im, "<3.^5")  # padding width 3 < 5 columns, padding height 5 > 2 lines
lines = out.split("\n")
print(lines)
widths = [len(ln) for ln in lines[2:]]  # the three padding lines (spaces only)
render = str(im)
new_api = AlignedPadding(3, 5, HAlign.LEFT, VAlign.TOP).pad(render, Size(5, 2))
ok = widths == [5, 5, 5] and out == new_api
print("padding line widths:", widths, "(expected [5, 5, 5]);", "old API == new API:", out == new_api)
sys.exit(0 if ok else 1)
