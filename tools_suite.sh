#!/bin/bash
# run the repository's baseline suite and compare with BASELINE.json's stable_pass
cd /repo && timeout 3000 /venv/bin/python -m pytest -ra -q -p no:cacheprovider --timeout=900 --continue-on-collection-errors --junitxml=/root/work/junit_suite.xml 2>&1 | tail -2
python3 - <<'PY'
import json,xml.etree.ElementTree as ET
b=json.load(open('/root/.vp/BASELINE.json')); stable=set(b['stable_pass'])
t=ET.parse('/root/work/junit_suite.xml').getroot(); passed=set()
for tc in t.iter('testcase'):
    if not any(c.tag in('failure','error','skipped') for c in tc): passed.add(tc.get('classname')+'::'+tc.get('name'))
print('stable', len(stable), 'passed', len(passed), 'stable-not-passed', sorted(stable-passed)[:10])
PY
