#!/usr/bin/env python3
"""Regenerate MANIFEST.json from the table below (single source of truth for claimed checks)."""
import json

import glob, os
CLAIMED = {}
for f in sorted(glob.glob('/verif/claims/C*.json')):
    j = json.load(open(f))
    CLAIMED[os.path.basename(f)[:-5]] = (j["text"], j["note"], j["technique"])

def main():
    props = [json.loads(l) for l in open('/verif/properties.jsonl')]
    m = {
        "version": 1,
        "setup_cmd": "cd lean && lake build",
        "hooks": {"guard": "TERM_IMAGE_VERIF",
                  "enable": "no source hooks: the harness instruments term_image from outside (monkeypatching after import); TERM_IMAGE_VERIF=1 is set by the harness for completeness",
                  "baseline_off_cmd": "cd /repo && /venv/bin/python -m pytest -ra -q -p no:cacheprovider --timeout=900 --continue-on-collection-errors",
                  "source_commits": [], "add_only": True},
        "engines": [{"name": "lean-tiv", "path": "lean/", "serves_properties": sorted(CLAIMED),
                     "kind_free_text": "Lean 4 models + theorems (lake lib TIV), per-property compiled drivers, Python correspondence harness (harness/)"}],
        "checks": [], "not_applicable": [], "notes": "see DESIGN.md",
    }
    for p in props:
        pid = p["id"]
        if pid in CLAIMED:
            text, note, tech = CLAIMED[pid]
            m["checks"].append({
                "property_id": pid, "quick_cmd": f"./check {pid} --tier quick", "thorough_cmd": f"./check {pid} --tier thorough",
                "evidence_file": f"evidence/{pid}.json", "replay_cmd_template": f"./check {pid} --replay {{path}}",
                "engine": "lean-tiv",
                "level_claimed": {"category": "proof", "text": text, "design_ref": f"DESIGN.md §5 {pid}"},
                "level_note": "Lean kernel + propext/Classical.choice/Quot.sound (audited every run); " + note,
                "technique": tech})
        else:
            m["not_applicable"].append({"property_id": pid, "reason": "check under construction in this round (model and theorems not yet merged); see DESIGN.md §5"})
    json.dump(m, open('/verif/MANIFEST.json', 'w'), indent=1)

if __name__ == "__main__":
    main()
