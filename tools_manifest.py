#!/usr/bin/env python3
"""Regenerate MANIFEST.json from the table below (single source of truth for claimed checks)."""
import json

CLAIMED = {
 "C01": ("For each renderer (block, kitty LINES/WHOLE, iterm2 LINES/WHOLE/ANIM x konsole/other) a Lean theorem over every payload/pixel content, size, flag combination and every terminal state in which the w x h block fits: the render's tokens change only cells of the block, cover every cell, do not scroll or wrap, end on the last line at min(x+w, W-1), attributes reset (text) / untouched (graphics); tied to the code by byte-exact correspondence of the real render strings with the model's serialisation and by regenerated control-sequence templates",
         "terminal model TIV.Common.Term is a definition (trusted); Pillow/zlib/PNG outside the model; parser theorem (bytes -> tokens) pending, the strict tokenizer checks completeness of every control sequence on each real render",
         "Lean 4 proof (per-line contract LineOK + composition theorem render_block) + differential correspondence + terminal-model oracle"),
 "C02": ("Lean theorems over every pixel row/grid, alpha class, terminal background, kitty workaround and split-cells setting: the run-length renderer prints one cell per pixel pair and each cell shows exactly `want` (line_shows, linear; render_shows, on the terminal model at any fitting position); tied to the code by byte-exact correspondence on the pixel lists the real _get_render_data returned",
         "Pillow convert/resize/alpha_composite are outside the model (oracle compares against Pillow independently); round(alpha*255) evaluated by CPython",
         "Lean 4 proof (induction over the pixel row / the rows) + differential correspondence + Pillow-independent oracle"),
 "C03": ("Lean theorems over every payload and size: get_chunks' look-ahead loop refines 'cut into pieces, flag all but the last'; chunk size / multiple-of-4 / m-flag laws at the generated default size; base64 round trip; tied to the code by regenerated constants and a byte-exact correspondence of Transmission output",
         "zlib/PNG/Pillow are parameters (partial)",
         "Lean 4 proof (refinement + induction) with translator for constants and differential correspondence"),
}

def main():
    props = [json.loads(l) for l in open('/verif/properties.jsonl')]
    m = {
        "version": 1,
        "setup_cmd": "cd lean && lake build",
        "hooks": {"guard": "TERM_IMAGE_VERIF",
                  "enable": "no source hooks: the harness instruments term_image from outside (monkeypatching after import); TERM_IMAGE_VERIF=1 is set by the harness for completeness",
                  "baseline_off_cmd": "cd /repo && /venv/bin/python -m pytest -ra -q -p no:cacheprovider --timeout=900 --continue-on-collection-errors",
                  "source_commits": [], "add_only": True},
        "engines": [{"name": "lean-tiv", "path": "lean/", "serves_properties": sorted(CLAIMED),
                     "kind_free_text": "Lean 4 models + theorems (lake lib TIV), per-property compiled drivers, Python correspondence harness (harness/)"}],
        "checks": [], "not_applicable": [], "notes": "see DESIGN.md",
    }
    for p in props:
        pid = p["id"]
        if pid in CLAIMED:
            text, note, tech = CLAIMED[pid]
            m["checks"].append({
                "property_id": pid, "quick_cmd": f"./check {pid} --tier quick", "thorough_cmd": f"./check {pid} --tier thorough",
                "evidence_file": f"evidence/{pid}.json", "replay_cmd_template": f"./check {pid} --replay {{path}}",
                "engine": "lean-tiv",
                "level_claimed": {"category": "proof", "text": text, "design_ref": f"DESIGN.md §5 {pid}"},
                "level_note": "Lean kernel + propext/Classical.choice/Quot.sound (audited every run); " + note,
                "technique": tech})
        else:
            m["not_applicable"].append({"property_id": pid, "reason": "check under construction in this round (model and theorems not yet merged); see DESIGN.md §5"})
    json.dump(m, open('/verif/MANIFEST.json', 'w'), indent=1)

if __name__ == "__main__":
    main()
