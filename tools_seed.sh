#!/bin/bash
# tools_seed.sh <PID> <seed dir with patch.diff + demo.py> : confirm a seeded change and run the check against it
# uses a private evaluation worktree /root/work/evalwt-<pid> (VERIF_REPO), never /repo itself
PID="$1"; SEED="$2"; lc=$(echo "$PID" | tr 'A-Z' 'a-z')
WT=/root/work/evalwt-${WTSUF:-$lc}
[ -d "$WT" ] || git -C /repo worktree add -q "$WT" HEAD
git -C "$WT" checkout -q -- . ; git -C "$WT" clean -fdq
git -C "$WT" checkout -q --detach "$(git -C /repo rev-parse HEAD)"
cd "$WT"
run_demo() { ( cd "$SEED" && PYTHONPATH="$WT/src" timeout 600 /venv/bin/python demo.py "$WT" >/tmp/seed_demo_$lc.txt 2>&1; echo $? ); }
echo "clean demo exit: $(run_demo)"
git -C "$WT" apply "$SEED/patch.diff" || { echo "PATCH DOES NOT APPLY"; exit 3; }
echo "patched demo exit: $(run_demo)  ($(tail -1 /tmp/seed_demo_$lc.txt | cut -c1-200))"
PYTHONPATH="$WT/src" timeout 3000 /venv/bin/python -m pytest -q -p no:cacheprovider --timeout=900 --continue-on-collection-errors --junitxml=/root/work/junit_seed_$lc.xml tests 2>&1 | tail -1
python3 - <<PY
import json,xml.etree.ElementTree as ET
b=json.load(open('/root/.vp/BASELINE.json')); stable=set(b['stable_pass'])
t=ET.parse('/root/work/junit_seed_$lc.xml').getroot(); passed=set()
for tc in t.iter('testcase'):
    if not any(c.tag in('failure','error','skipped') for c in tc): passed.add(tc.get('classname')+'::'+tc.get('name'))
print('suite: stable-not-passed =', len(stable-passed), sorted(stable-passed)[:3])
PY
cd /verif
mkdir -p /root/work/eval-evidence /root/work/eval-replays
# keep the generated Lean files of the clean tree aside: the runs below regenerate them from the mutant
GEN=$(cd /verif && ls lean/TIV/*/Generated.lean lean/TIV/*/Translated.lean lean/TIV/Common/GenCtl.lean 2>/dev/null)
SAVE=$(mktemp -d /root/work/gen-save-XXXXXX)
(cd /verif && tar cf "$SAVE/gen.tar" $GEN)
for s in ${SEEDS:-0}; do VERIF_EVIDENCE_DIR=/root/work/eval-evidence VERIF_REPLAY_DIR=/root/work/eval-replays VERIF_REPO="$WT" VERIF_SEED=$s ./check "$PID" ${TIER:+--tier $TIER} 2>&1 | grep -v "^KNOWN" | tail -2; done
git -C "$WT" checkout -q -- . ; git -C "$WT" clean -fdq
(cd /verif && tar xf "$SAVE/gen.tar"); rm -rf "$SAVE"
