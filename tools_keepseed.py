#!/usr/bin/env python3
"""tools_keepseed.py <PID> <k> <caught-by text> : copy a confirmed seeded change into /verif/seeded/<PID>-s<k>/"""
import json, os, shutil, sys
pid, k, caught = sys.argv[1], sys.argv[2], sys.argv[3]
src = f"/root/work/seeds/out-{pid.lower()}/seed{k}"
dst = f"/verif/seeded/{pid}-s{k}"
os.makedirs(dst, exist_ok=True)
shutil.copy(f"{src}/patch.diff", dst)
shutil.copy(f"{src}/demo.py", dst)
m = json.load(open(f"{src}/meta.json"))
meta = {
    "property": pid,
    "summary": m.get("summary"),
    "needs_to_manifest": m.get("needs"),
    "files": m.get("files"),
    "origin": "written by an independent sub-agent that saw only the property text and a scratch worktree (nothing from /verif)",
    "confirmed_by_coordinator": f"./tools_seed.sh {pid} <seed dir>: demo exits 0 on the clean worktree and non-zero with the patch; the repository's suite gives the same 1178 stable passes with the patch; ./check {pid} run with VERIF_REPO pointing at the patched evaluation worktree",
    "seeder_verification": m.get("verified"),
    "check_outcome": caught,
}
json.dump(meta, open(f"{dst}/meta.json", "w"), indent=1)
print("kept", dst)
