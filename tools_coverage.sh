#!/bin/bash
# tools_coverage.sh <Cxx> ... : diagnostic - which lines of the anchored source does the check's own run execute?
# Writes /verif/coverage/<id>.json (lines inside each anchored mechanism never executed by cases/oracles/search);
# evidence/ and replays/ are left alone.
cd /verif
mkdir -p /root/work/cov-evidence /root/work/cov-replays
for p in "$@"; do
  VERIF_COVERAGE=1 VERIF_EVIDENCE_DIR=/root/work/cov-evidence VERIF_REPLAY_DIR=/root/work/cov-replays ./check "$p" ${TIER:+--tier $TIER} 2>&1 | grep "^COVERAGE\|^\[C\|^INFRA\|^VIOLATION"
done
