#!/venv/bin/python
"""C02 — block renders show exactly the image's pixels (colour and transparency)."""
from __future__ import annotations

import io
import os
import random
import math
import struct
import sys
import tempfile

sys.path.insert(0, os.path.dirname(os.path.abspath(__file__)))
from common import framework as fw  # noqa: E402
from common.framework import Case, Failure, Property  # noqa: E402
from common import env  # noqa: E402
from common import tokenizer as tk  # noqa: E402
from common.ctlgen import gen_ctl  # noqa: E402
from common import imgkit  # noqa: E402
from common import lexcheck  # noqa: E402

from PIL import Image  # noqa: E402
from term_image.image import BlockImage  # noqa: E402

NO_ALPHA_MODES = {"1", "L", "RGB", "HSV", "CMYK"}
TMP = tempfile.mkdtemp(prefix="c02-")
__import__("atexit").register(__import__("shutil").rmtree, TMP, ignore_errors=True)  # scratch images of this run
DEFAULT_ALPHA = 40 / 255  # documented default threshold of str() / format() without '#'


def hx(b: bytes) -> str:
    return b.hex() if b else "-"


def half(c):
    return "t" if c is None else ",".join(map(str, c))


def shows_grid(driver: str, out: str, w: int, h: int, kind: str, invisible_bg=None):
    """interpret the real string on the Lean terminal model and read what every cell shows; the bytes are read
    by the Lean lexer (`TIV.Lex.lex`, proved inverse to the model's printing: LexProofs.lex_toksStr)"""
    resp = fw.run_driver(driver, [lexcheck.runbytes_request(w, h, kind, 0, 0, 0, 0, out)])[0]
    if resp == "err lex":
        raise tk.TokenizeError("the Lean lexer rejects the output: not a sequence of complete, known control sequences")
    r = resp.split(" ")
    nimg = int(r[10])
    writes = r[12 + nimg:]
    grid = {}
    for wr in writes:
        a, b, cell = wr.split(",", 2)
        grid[(int(a), int(b))] = cell
    rows = []
    for i in range(h):
        row = []
        for j in range(w):
            cell = grid.get((i, j))
            if cell is None or not cell.startswith("t:"):
                row.append(("?", "?"))
                continue
            _, g, fg, bg = cell.split(":")
            fgc = None if fg == "d" else tuple(map(int, fg.split(",")))
            bgc = None if bg == "d" else tuple(map(int, bg.split(",")))
            if invisible_bg is not None and bgc == tuple(invisible_bg):
                bgc = None  # kitty does not paint a cell background equal to its default background
            row.append({"B": (bgc, bgc), "U": (fgc, bgc), "L": (bgc, fgc)}.get(g, ("?", "?")))
        rows.append(row)
    return rows


class C02(Property):
    id = "C02"
    lean_props = ["TIV.C02.Props", "TIV.Common.LexProofs"]
    driver = "drv_c02"
    partial = ("Pillow's convert / resize(BOX) / alpha_composite (uniform→uniform and identity at equal size are "
               "checked by the oracle against Pillow itself); round(alpha*255) is evaluated by CPython in the harness")
    quick_cases = 1200
    thorough_cases = 8000

    def gen_constants(self):
        return gen_ctl()

    def generate(self, rng: random.Random, tier: str):
        big = tier == "thorough"
        while True:
            d = imgkit.random_image_spec(rng, 16)
            d["cols"] = rng.randrange(1, 25 if big else 10)
            d["lines"] = rng.randrange(1, 13 if big else 6)
            shape = rng.choice(["free", "free", "identity", "uniform-up"])
            if shape == "identity":
                d["w"], d["h"] = d["cols"], 2 * d["lines"]
            elif shape == "uniform-up":
                d["pattern"] = "uniform"
            d["shape"] = shape
            k = rng.randrange(0, 256)
            d["alpha"] = rng.choice([None, 0.0, 0.4, 0.5, 0.999, k / 255, (k + 0.5) / 255, (k - 1e-9) / 255 if k else 0.0,
                                     "#", "#102030", "#ffffff", "#000000"])
            d["bg"] = rng.choice([None, (0, 0, 0), (255, 255, 255), (16, 32, 48)])
            d["kitty_term"] = rng.random() < 0.4
            # environment variables a terminal's child inherits (possibly from ANOTHER terminal): they must not decide
            d["kitty_env"] = rng.random() < 0.3
            d["split"] = rng.random() < 0.3
            d["prerender"] = rng.random() < 0.3
            if rng.random() < 0.25:
                # pixels whose colour equals the terminal background, alpha crossing the threshold:
                # the only way a transparency change happens without a colour change
                d["force_color"] = list(d["bg"] or (0, 0, 0))
                d["pattern"] = rng.choice(["alpha-steps", "runs"])
                d["mode"] = "RGBA"
                d["alpha"] = rng.choice([0.4, 0.5, 0.004, 0.999])
            if rng.random() < 0.15:
                # threshold arithmetic alone: alpha at k/255, k/255 ± ulp, (k+.5)/255 (ties), random
                k = rng.randrange(0, 256)
                a = rng.choice([k / 255, (k + 0.5) / 255, rng.random(), k / 256, (2 * k + 1) / 510])
                a = rng.choice([a, math.nextafter(a, 0.0), math.nextafter(a, 1.0)])
                a = min(max(a, 0.0), math.nextafter(1.0, 0.0))
                yield Case(f"thr {int.from_bytes(struct.pack('>d', a), 'big')}", {"thr_alpha": a}, "thr", True)
                continue
            op = rng.choice(["want", "want", "block", "rounda"])
            # where the pixels come from (in-memory image / a file / an image opened from a file / one frame of an
            # animation) and which public entry point renders them
            if op != "rounda" and rng.random() < 0.5:
                if shape == "free" and rng.random() < 0.25:
                    # a lazily-opened JPEG much larger than the render size: the decoder may not be asked for a
                    # reduced (DCT-scaled) decode - the pixels shown are the BOX reduction of the full image
                    d["source"] = rng.choice(["file", "pil-file"])
                    d["jpeg"] = True
                    d["mode"] = rng.choice(["RGB", "RGB", "L"])
                    d["pattern"] = rng.choice(["random", "runs", "two-tone", "half-noise"])
                    d["w"] = d["cols"] * rng.choice([2, 3, 4, 8])
                    d["h"] = 2 * d["lines"] * rng.choice([2, 3, 4, 8])
                elif rng.random() < 0.5 and d["mode"] in ("1", "L", "LA", "P", "RGB", "RGBA") and shape != "uniform-up":
                    d["source"] = rng.choice(["file", "pil-file"])
                elif shape == "free":
                    d["source"] = rng.choice(["file", "pil-file"])
                    d["animated"] = rng.choice([2, 3])
                    d["frame_no"] = rng.randrange(d["animated"])
                    # the caller's PIL image may stand at any frame when handed over, and the instance may have
                    # rendered another frame before: the render shows the frame the IMAGE is set to
                    d["pil_at"] = rng.choice([None, 0, 1, 2])
                    d["pre_frame"] = rng.choice([None, None, 1, 2])
                d["entry"] = rng.choice(["str", "format", "format", None] + (["iter", "iter"] if d.get("animated") else []))
                if d.get("animated") and op == "want" and rng.random() < 0.35:
                    # a DRAWN animation (draw(animate=True), two loops, cached) whose size changes after the first
                    # loop: the frames re-rendered in the second loop still get draw()'s own alpha
                    d["entry"] = "drawanim"
                if d["entry"] in ("iter", "drawanim"):
                    d["pil_at"] = None
                if d["entry"]:
                    d["split"] = False
                    d["prerender"] = False
            yield Case(op, d, f"{op}-{shape}-{'a' if isinstance(d['alpha'], float) else 's' if d['alpha'] else 'n'}"
                       + ("-" + d["source"] if d.get("source") else "") + ("-jpeg" if d.get("jpeg") else "") + ("-frame" if d.get("animated") else "")
                       + ("-" + d["entry"] if d.get("entry") else ""), True)

    def _source(self, d):
        """(the pixels the caller handed over, as an independent PIL image; how to build the instance)"""
        if d.get("animated"):
            frames = [imgkit.make_image(dict(d, iseed=d["iseed"] + 7 * k, mode="RGB")).convert("P") for k in range(d["animated"])]
            path = os.path.join(TMP, f"anim-{d['iseed']}.gif")
            frames[0].save(path, save_all=True, append_images=frames[1:], duration=100, loop=0)
            ref = Image.open(path)
            k = d["frame_no"] if d["frame_no"] < getattr(ref, "n_frames", 1) else 0
            ref.seek(k)
            src = ref.copy()
        elif d.get("source"):
            if d.get("jpeg"):
                path = os.path.join(TMP, f"still-{d['iseed']}.jpg")
                imgkit.make_image(d).save(path, quality=92)
            else:
                path = os.path.join(TMP, f"still-{d['iseed']}.png")
                imgkit.make_image(d).save(path)
            src = Image.open(path)
            src.load()
            k = 0
        else:
            return imgkit.make_image(d), (lambda: BlockImage(imgkit.make_image(d))), 0
        def open_pil():
            pil = Image.open(path)
            if d.get("animated") and d.get("pil_at"):
                pil.seek(min(d["pil_at"], getattr(pil, "n_frames", 1) - 1))
            return pil

        make = (lambda: BlockImage.from_file(path)) if d["source"] == "file" else (lambda: BlockImage(open_pil()))
        return src, make, k

    def _image(self, d):
        img, make, frame_no = self._source(d)
        env.reset_env()
        env.set_env(bg=d["bg"], term_size=(200, 100), is_on_kitty=d["kitty_term"])
        im = make()
        d["_frame"] = frame_no
        if d["shape"] == "identity":
            im.set_size(width=d["cols"], height=d["lines"])  # manual size: no aspect ratio adjustment
        elif d["cols"] <= 2 * d["lines"]:
            im.set_size(width=d["cols"])
        else:
            im.set_size(height=d["lines"])
        return img, im

    def impl(self, case: Case) -> str:
        d = case.data
        op = case.line.split(" ")[0]
        if op == "thr":
            # what the library computes: `alpha = round(alpha * 255)` (common.py, _get_render_data)
            return f"ok {round(d['thr_alpha'] * 255)}"
        saved_env = {k: os.environ.get(k) for k in ("KITTY_WINDOW_ID", "KITTY_PID", "TERM_PROGRAM")}
        if d.get("kitty_env"):
            os.environ.update(KITTY_WINDOW_ID="7", KITTY_PID="4242")
            os.environ.pop("TERM_PROGRAM", None)
        try:
            return self._impl_render(case, d, op)
        finally:
            for k, v in saved_env.items():
                os.environ.pop(k, None) if v is None else os.environ.__setitem__(k, v)

    def _draw_anim(self, im, d, alpha):
        """draw(animate=True) into a captured stdout, two cached loops, the size changed (one column wider) during the
        last frame of the first loop; returns what was written for the LAST frame (second loop, new size)"""
        import io
        import sys
        import time
        n = im.n_frames
        w0, h0 = im.rendered_size
        im.set_size(width=w0, height=h0)
        buf, calls, real_sleep, old = io.StringIO(), [0], time.sleep, sys.stdout

        def fake_sleep(_):
            calls[0] += 1
            if calls[0] == n - 1:
                im.set_size(width=w0 + 1, height=h0)

        sys.stdout, time.sleep = buf, fake_sleep
        try:
            im.draw("left", 1, "top", 1, alpha, repeat=2, cached=True)
        finally:
            sys.stdout, time.sleep = old, real_sleep
        im.set_size(width=w0 + 1, height=h0)
        d["_frame"] = d["frame_no"] = n - 1
        return buf.getvalue().split("\r")[-1]

    def _impl_render(self, case, d, op):
        img, im = self._image(d)
        cap = {}
        orig = im._get_render_data

        def spy(*a, **k):
            r = orig(*a, **k)
            cap["mode"], cap["rgb"], cap["a"] = r[0].mode, r[1], r[2]
            return r

        if d.get("animated") and d.get("pre_frame") and im._is_animated:
            im.seek(min(d["pre_frame"], im.n_frames - 1))
            str(im)
            im.seek(0)
        if d.get("prerender"):
            # the same instance rendered before with the same settings: nothing may carry over
            im._renderer(im._render_image, d["alpha"], split_cells=d["split"])
        im._get_render_data = spy
        entry, alpha = d.get("entry"), d["alpha"]
        if entry == "iter" and not im._is_animated:
            entry = "format"
        if entry == "drawanim" and (op != "want" or not im._is_animated
                                    or im.rendered_height > 90 or im.rendered_width > 190):  # draw() validates the size
            entry = "format"
        if entry in ("format", "iter") and isinstance(alpha, float):
            # a format specifier can only spell thresholds in [0, 1) in positional notation
            if not 0.0 <= alpha < 1.0:
                alpha = math.nextafter(1.0, 0.0)
            txt = format(alpha, ".25f")[1:]
            if float("0" + txt) != alpha:
                entry = None  # not spellable exactly: use the direct entry
        if entry not in ("iter", "drawanim") and im._is_animated:
            im.seek(d["_frame"])  # explicitly, also to 0: the instance starts where the caller's PIL image stood
        if not entry:
            out = im._renderer(im._render_image, alpha, split_cells=d["split"])
        elif entry == "str":
            out, alpha = str(im), DEFAULT_ALPHA
        elif entry == "drawanim":
            out = self._draw_anim(im, d, alpha)
        else:
            spec = "1.1" + ("#" if alpha is None else "##" if alpha == "#" else "#" + alpha[1:] if isinstance(alpha, str)
                            else "#" + format(alpha, ".25f")[1:])
            if entry == "format":
                out = format(im, spec)
            else:
                from term_image.image import ImageIterator
                it = ImageIterator(im, 1, spec, False)
                try:
                    for _ in range(d.get("_frame", 0) + 1):
                        out = next(it)
                finally:
                    it.close()
        d["_alpha"] = alpha
        w, h = im.rendered_size
        d["_size"] = [w, h]
        d["_out"] = out
        width = im._get_render_size()[0]
        rgb = bytes(c for px in cap["rgb"] for c in px)
        a = bytes(cap["a"])
        bg = "none" if d["bg"] is None else ",".join(map(str, d["bg"]))
        cfg = f"{int(cap['mode'] == 'RGBA')} {int(d['kitty_term'])} {bg} {int(d['split'])}"
        if op == "block":
            case.line = f"block {cfg} {width} {hx(rgb)} {hx(a)}"
            return "ok " + hx(out.encode())
        if op == "want":
            case.line = f"want {cfg} {width} {hx(rgb)} {hx(a)}"
            try:
                grid = shows_grid(self.driver, out, w, h, "kitty" if d["kitty_term"] else "other")
            except tk.TokenizeError:
                return "err TokenizeError"
            return "ok " + " | ".join(" ".join(f"{half(u)}/{half(l)}" for u, l in row) for row in grid)
        # rounda: the alpha list before and after rounding
        if not isinstance(d["alpha"], float) or cap["mode"] != "RGBA":
            case.line = "rounda 0 -"
            case.nontrivial = False
            return "ok -"
        del im._get_render_data
        raw = im._renderer(lambda img_, alpha: im._get_render_data(img_, alpha, round_alpha=False)[2], d["alpha"])
        # the model computes the threshold itself from the float's binary64 image (op `thr`);
        # `rounda` gets that model threshold, so the whole `round(alpha * 255)` + comparison chain is tied
        bits = int.from_bytes(struct.pack(">d", d["alpha"]), "big")
        mthr = fw.run_driver(self.driver, [f"thr {bits}"])[0]
        if not mthr.startswith("ok "):
            return "err threshold " + mthr
        case.line = f"rounda {mthr[3:]} {hx(bytes(raw))}"
        return "ok " + hx(a)

    # -- oracle: independent expectation from Pillow ----------------------------------------
    def oracle(self, case: Case, impl_result: str):
        d = case.data
        out = d.get("_out") if isinstance(d, dict) else None
        if out is None:
            return None
        w, h = d["_size"]
        where = (f"{d['mode']}/{d['pattern']}/{d['shape']}/alpha={d['alpha']}/{w}x{h}/bg={d['bg']}/kitty={int(d['kitty_term'])}"
                 + (f"/{d.get('source')}/{d.get('entry')}" + ("/frame" if d.get("animated") else "") if d.get("source") or d.get("entry") else ""))
        try:
            # on kitty a cell background equal to the terminal's default background is not painted:
            # read it as "shows the terminal's own background" (this is what the library's workaround is for)
            grid = shows_grid(self.driver, out, w, h, "kitty" if d["kitty_term"] else "other",
                              invisible_bg=d["bg"] if d["kitty_term"] else None)
        except tk.TokenizeError as e:
            return Failure(f"tokenize/{where}", str(e))
        src = self._source(d)[0]
        size = (w, 2 * h)
        alpha = d.get("_alpha", d["alpha"])
        bghex = "#" + "".join(f"{x:02x}" for x in d["bg"]) if d["bg"] else "#000000"
        transparent = None
        if alpha is None or src.mode in NO_ALPHA_MODES:
            exp = src.convert("RGB").resize(size, Image.Resampling.BOX)
        else:
            rgba = src.convert("RGBA")
            if rgba.size != size:
                rgba = rgba.resize(size, Image.Resampling.BOX)
            base = Image.new("RGBA", size, (bghex if (alpha == "#" or isinstance(alpha, float)) else alpha))
            base.alpha_composite(rgba)
            exp = base.convert("RGB")
            if isinstance(alpha, float):
                thr = round(alpha * 255)
                transparent = [v < thr for v in rgba.getdata(3)]
        px = list(exp.getdata())
        for i in range(h):
            for j in range(w):
                for k, name in ((0, "upper"), (1, "lower")):
                    idx = (2 * i + k) * w + j
                    shown = grid[i][j][k]
                    if transparent is not None and transparent[idx]:
                        if shown is not None:
                            return Failure(f"opaque-but-transparent/{where}", f"cell ({i},{j}) {name}: shows {shown}, pixel alpha is below the threshold")
                        continue
                    want = px[idx]
                    if shown == want:
                        continue
                    if (d["kitty_term"] and d["bg"] is not None and tuple(want) == tuple(d["bg"]) and shown is not None
                            and shown[1:] == want[1:] and abs(shown[0] - want[0]) == 1):
                        continue
                    return Failure(f"colour/{where}", f"cell ({i},{j}) {name}: shows {shown}, image pixel is {want}")
        if d["shape"] == "uniform-up" and transparent is None and len(set(src.convert("RGBA").getdata())) == 1:
            flat = {c for row in grid for c in row}
            if len(flat) != 1:
                return Failure(f"uniform/{where}", f"uniform image rendered with {len(flat)} distinct cells")
        return None


if __name__ == "__main__":
    fw.main(C02)
