"""C18 — the real-urwid side: scripts (JSON) → real widgets, real canvases, the real
`UrwidImageScreen` drawing into a buffer; a strict tokenizer of what urwid + term-image write;
a tiny placement terminal (Python twin of TIV.Common.Term restricted to cursor + placements,
kept honest by the differential op `term`); the expected placements of a canvas.

Nothing here knows the Lean model of `_ti_clear_images`; the oracle is built from this file only.
"""
from __future__ import annotations

import gc
import io
import os
import re

from common import env  # noqa: F401  (patches term_image.utils before term_image.image is imported)

import urwid  # noqa: E402
from PIL import Image  # noqa: E402

from term_image import _ctlseqs as ctlseqs  # noqa: E402
from term_image.image import BlockImage, ITerm2Image, KittyImage  # noqa: E402
from term_image.widget import UrwidImage, UrwidImageCanvas, UrwidImageScreen  # noqa: E402
import term_image.widget._urwid as U  # noqa: E402

urwid.util.set_encoding("utf-8")

STYLES = {"kitty": KittyImage, "iterm2": ITerm2Image, "block": BlockImage}


# ------------------------------------------------------------------------------------------
# the screen: the real class; only the tty end is replaced (same trick as tests/widget: the
# screen is constructed on an in-memory buffer)


class Marker(str):
    """a write that did not come from the code under test (inserted by the harness)"""


class Scr(UrwidImageScreen):
    def __init__(self, size):
        super().__init__(input=open(os.devnull), output=io.StringIO())
        self.ti_writes: list[str] = []
        self.ti_size = tuple(size)
        self._started = True

    # the tty end
    def write(self, data):
        self.ti_writes.append(data)

    def flush(self):
        pass

    def get_cols_rows(self):
        return self.ti_size

    def _setup_G1(self):
        pass

    def _last_row(self, row):
        # urwid's bottom-right-cell insert trick is bypassed (see docs/C18.md, "side observation"):
        # a tty end on which the last row can be written straight
        return row, 0, None

    def take(self) -> list[str]:
        w, self.ti_writes = self.ti_writes, []
        return w


_BASE = urwid.display.raw.Screen if hasattr(urwid.display, "raw") else urwid.raw_display.Screen
_base_draw = _BASE.draw_screen
_base_clear = _BASE.clear
_base_start = _BASE._start
_base_stop = _BASE._stop


def _mark(name, orig, fake=None):
    def wrapper(self, *a, **k):
        if isinstance(self, Scr):
            self.ti_writes.append(Marker(f"<{name}"))
            try:
                return (fake or orig)(self, *a, **k)
            finally:
                self.ti_writes.append(Marker(f"{name}>"))
        return orig(self, *a, **k)
    return wrapper


_real_write_tty = U.write_tty
_tty_target: list = [None]  # the harness screen that stands for the tty (None: the real function)


def _write_tty(data: bytes):
    """`clear_images(now=True)` writes straight to the tty: on the harness screen that is the same buffer"""
    scr = _tty_target[0]
    if scr is None:
        return _real_write_tty(data)
    scr.ti_writes.append(data.decode())


U.write_tty = _write_tty

IMAGE_LINES: dict = {}  # the library's own bytes: distinct lines of image canvases seen in this run (lexer cross-check)


def install_markers():
    """bracket what the *base class* writes, so the order 'deletes, then urwid's rows' is observable"""
    _BASE.draw_screen = _mark("base", _base_draw)
    _BASE.clear = _mark("bclear", _base_clear)
    _BASE._start = _mark("bstart", _base_start)
    _BASE._stop = _mark("bstop", _base_stop)


install_markers()


# ------------------------------------------------------------------------------------------
# building widgets from a script


class SelectableImage(UrwidImage):
    """an application-defined subclass (`UrwidImage (or a subclass of it)` is explicitly supported)"""

    _selectable = True
    ignore_focus = False

    def keypress(self, size, key):
        return key


class CaptionedImage(UrwidImage):
    """a second application-defined subclass"""

    caption = "caption"


WIDGET_CLASSES = [UrwidImage, SelectableImage, CaptionedImage]


def reset_class_state(next_z=1, free=()):
    # every widget of an earlier case must be dead *before* the allocator is reset: a late `__del__`
    # would put its z-index into the new free set
    urwid.CanvasCache.clear()
    gc.collect()
    gc.collect()
    UrwidImage._ti_free_z_indexes.clear()
    UrwidImage._ti_free_z_indexes.update(free)
    UrwidImage._ti_next_z_index = next_z
    for sub in WIDGET_CLASSES[1:]:  # allocator state is the base class' alone; nothing may linger on a subclass
        for name in ("_ti_next_z_index", "_ti_free_z_indexes"):
            if name in sub.__dict__:
                delattr(sub, name)
    UrwidImageCanvas._ti_disguise_state = 0


def make_image_widget(spec):
    cls = STYLES[spec["style"]]
    col = tuple(spec.get("color", (200, 30, 30)))
    img = Image.new("RGB", (spec["iw"], spec["ih"]), col)
    wcls = WIDGET_CLASSES[spec.get("cls", 0)]
    return wcls(cls(img), spec.get("fmt", ""), upscale=spec.get("upscale", False))


def build(node, ws):
    """layout tree → urwid widget. Boxes: listbox, pile, cols, overlay, img, fill, ftext, lbox."""
    k = node[0]
    if k == "img":
        return ws[node[1]]
    if k == "fill":
        return urwid.SolidFill(node[1])
    if k == "ftext":  # a box holding text
        return urwid.Filler(urwid.Text(node[1]), node[2] if len(node) > 2 else "top")
    if k == "text":  # flow
        return urwid.Text(node[1])
    if k == "div":
        return urwid.Divider(node[1])
    if k == "listbox":
        items = [build(c, ws) for c in node[1]]
        lb = urwid.ListBox(urwid.SimpleFocusListWalker(items))
        if items:
            lb.set_focus(min(node[2], len(items) - 1))
            if len(node) > 3:
                lb.set_focus_valign(node[3])
        return lb
    if k == "fpile":  # pile of flow widgets inside a filler (box)
        return urwid.Filler(urwid.Pile([build(c, ws) for c in node[1]]), node[2])
    if k == "hpile":  # box pile with fixed heights: (rows or None = the rest, child)
        return urwid.Pile([build(c, ws) if h is None else (h, build(c, ws)) for h, c in node[1]])
    if k == "fcols":  # columns of fixed widths: (cols or None = the rest, child)
        return urwid.Columns([build(c, ws) if w is None else (w, build(c, ws)) for w, c in node[1]])
    if k == "pile":  # box pile: (weight, child)
        return urwid.Pile([("weight", w, build(c, ws)) for w, c in node[1]])
    if k == "cols":
        return urwid.Columns([("weight", w, build(c, ws)) for w, c in node[1]], dividechars=node[2])
    if k == "lbox":
        return urwid.LineBox(build(node[1], ws))
    if k == "overlay":
        _, top, bottom, align, width, valign, height = node
        return urwid.Overlay(build(top, ws), build(bottom, ws), tuple(align) if isinstance(align, list) else align,
                             width, tuple(valign) if isinstance(valign, list) else valign, height)
    raise ValueError(k)


# ------------------------------------------------------------------------------------------
# strict tokenizer of screen output → wire tokens of the Lean op `term`
# wire: P<r>,<c> (CUP, 0-based) | bs | cr | lf | g<n> (n printable one-column chars) | n (NUL) | skip
#       | X<n> | C<n> | A<n> | B<n> | D<n> | sb | se | kd | ka | kz<z> | K<c>,<r>,<z> | I<c>,<r>,<nm>

_CSI = re.compile(r"\x1b\[([?]?)([0-9;]*)([A-Za-z@])")
_APC = re.compile(r"\x1b_G([^;\x1b]*);([^\x1b]*)\x1b\\")
_OSC = re.compile(r"\x1b\]1337;File=([^:\x1b\x07]*):([^\x1b\x07]*)\x1b\\")
_CHARSET = re.compile(r"\x1b[()][0-9A-Za-z]")


class TokErr(Exception):
    pass


def tokenize(s: str) -> list[str]:
    out: list[str] = []
    i, n = 0, len(s)
    pending = None  # first keys of a chunked kitty transmission in progress
    nglyph = 0

    def flush_glyphs():
        nonlocal nglyph
        if nglyph:
            out.append(f"g{nglyph}")
            nglyph = 0

    while i < n:
        ch = s[i]
        if ch != "\x1b" and ch >= " " and ch != "\x7f":
            if pending is not None:
                raise TokErr("text inside a chunked transmission")
            nglyph += 1
            i += 1
            continue
        flush_glyphs()
        if ch == "\x1b":
            m = _APC.match(s, i)
            if m:
                ctrl = m.group(1)
                keys = dict(kv.split("=", 1) for kv in ctrl.split(",")) if ctrl else {}
                if pending is not None:
                    if set(keys) != {"m"}:
                        raise TokErr(f"continuation chunk with keys {sorted(keys)}")
                    if keys["m"] == "0":
                        out.append(pending)
                        pending = None
                elif keys.get("a") == "d":
                    if ctrl == "a=d,d=C":
                        out.append("kd")
                    elif ctrl == "a=d,d=A":
                        out.append("ka")
                    elif set(keys) == {"a", "d", "z"} and keys["d"] == "Z" and str(int(keys["z"])) == keys["z"]:
                        out.append(f"kz{int(keys['z'])}")
                    else:
                        raise TokErr(f"unknown delete {ctrl!r}")
                elif keys.get("a") == "T":
                    if keys.get("C") != "1":
                        raise TokErr("display command without C=1")
                    w = f"K{int(keys['c'])},{int(keys['r'])},{int(keys.get('z', '0'))}"
                    if keys.get("m") == "1":
                        pending = w
                    else:
                        out.append(w)
                else:
                    raise TokErr(f"unknown kitty command {ctrl!r}")
                i = m.end()
                continue
            if pending is not None:
                raise TokErr("non-graphics output inside a chunked transmission")
            m = _OSC.match(s, i)
            if m:
                keys = {}
                for item in m.group(1).split(";"):
                    k, _, v = item.partition("=")
                    keys[k] = v
                nm = int(keys.get("doNotMoveCursor", "0") == "1")
                out.append(f"I{int(keys['width'])},{int(keys['height'])},{nm}")
                i = m.end()
                continue
            m = _CSI.match(s, i)
            if m:
                q, args, fin = m.groups()
                if q:
                    if (args, fin) == ("2026", "h"):
                        out.append("sb")
                    elif (args, fin) == ("2026", "l"):
                        out.append("se")
                    elif args in ("25", "47", "1049", "1000", "1002", "1003", "1004", "1006", "2004") and fin in "hl":
                        out.append("skip")
                    else:
                        raise TokErr(f"unknown private mode {m.group()!r}")
                elif fin == "H":
                    a = [int(x) if x else 1 for x in args.split(";")] if args else [1, 1]
                    if len(a) == 1:
                        a.append(1)
                    out.append(f"P{a[0] - 1},{a[1] - 1}")
                elif fin in "ABCDX":
                    out.append(fin + str(int(args or "0")))
                elif fin == "K":
                    out.append("el")
                elif fin == "m" or (fin in "hl" and args == "4"):
                    out.append("skip")  # attributes, insert mode: no effect on placements
                else:
                    raise TokErr(f"unknown CSI {m.group()!r}")
                i = m.end()
                continue
            m = _CHARSET.match(s, i) or re.compile(r"\x1b[78]").match(s, i)
            if m:
                out.append("skip")
                i = m.end()
                continue
            raise TokErr(f"incomplete or unknown escape sequence at {i}: {s[i:i + 24]!r}")
        if pending is not None:
            raise TokErr("control character inside a chunked transmission")
        if ch == "\n":
            out.append("lf")
        elif ch == "\r":
            out.append("cr")
        elif ch == "\0":
            out.append("n")
        elif ch == "\b":
            out.append("bs")
        elif ch in "\x0e\x0f":
            out.append("skip")
        else:
            raise TokErr(f"unexpected control character {ch!r} at {i}")
        i += 1
    flush_glyphs()
    if pending is not None:
        raise TokErr("chunked transmission not terminated")
    return out


# ------------------------------------------------------------------------------------------
# placement terminal (twin of the Lean op `term`): cursor + placements only


class PTerm:
    def __init__(self, W, H, kind):
        self.W, self.H, self.kind = W, H, kind
        self.r = self.c = 0
        self.top = 0
        self.pw = False
        self.pl: list[tuple] = []  # (kittyProto, row, col, cols, rows, z), newest first

    def feed(self, toks: list[str]):
        W, H = self.W, self.H
        for t in toks:
            k = t[0]
            if t in ("skip", "el", "n", "sb", "se"):
                continue
            if k == "g":
                for _ in range(int(t[1:])):
                    if self.pw:  # automatic wrap (never on a healthy redraw; kept for fidelity)
                        self._index()
                        self.c = 0
                        self.pw = False
                    if self.c + 1 >= W:
                        self.pw = True
                    else:
                        self.c += 1
            elif k == "P":
                r, c = map(int, t[1:].split(","))
                self.r, self.c, self.pw = self.top + min(r, H - 1), min(c, W - 1), False
            elif t == "bs":
                self.c, self.pw = max(0, self.c - 1), False
            elif t == "cr":
                self.c, self.pw = 0, False
            elif t == "lf":
                self._index()
                self.c, self.pw = 0, False
            elif k in "ABCD" and t[1:].isdigit():
                p = int(t[1:]) or 1
                if k == "A":
                    self.r = max(self.top, self.r - p)
                elif k == "B":
                    self.r = min(self.top + H - 1, self.r + p)
                elif k == "C":
                    self.c = min(W - 1, self.c + p)
                else:
                    self.c = max(0, self.c - p)
                self.pw = False
            elif k == "X":
                pass
            elif t == "kd":
                self.pl = [p for p in self.pl
                           if not (p[0] and p[1] <= self.r < p[1] + p[4] and p[2] <= self.c < p[2] + p[3])]
            elif t == "ka":
                # Konsole implements iterm2 inline images on its kitty-graphics machinery: a delete-all
                # removes them too (this is what `clear_images`' comment relies on)
                self.pl = [p for p in self.pl if not (p[0] or self.kind == "konsole")]
            elif t.startswith("kz"):
                z = int(t[2:])
                self.pl = [p for p in self.pl if not (p[0] and p[5] == z)]
            elif k == "K":
                c, r, z = map(int, t[1:].split(","))
                self.pl.insert(0, (1, self.r, self.c, c, r, z))
            elif k == "I":
                c, r, nm = map(int, t[1:].split(","))
                self.pl.insert(0, (0, self.r, self.c, c, r, 0))
                if not (nm and self.kind == "konsole"):
                    bottom = self.top + H - 1
                    self.r = self.r + r - 1
                    self.top += max(0, self.r - bottom)
                    self.c = min(W - 1, self.c + c)
                    self.pw = False
            else:
                raise TokErr(f"twin: unknown token {t}")

    def _index(self):
        if self.r + 1 == self.top + self.H:
            self.top += 1
        self.r += 1

    def copy(self):
        t = PTerm(self.W, self.H, self.kind)
        t.r, t.c, t.top, t.pw, t.pl = self.r, self.c, self.top, self.pw, list(self.pl)
        return t

    def placements(self):
        """the managed placements: kitty-protocol ones, and inline images on konsole (elsewhere inline
        images are cell content that text overwrites — not a placement that can be left behind)"""
        pl = [p for p in self.pl if p[0] or self.kind == "konsole"]
        # konsole replaces an image drawn again at the same place and z-index (the library relies on it:
        # no `d=C` there); on kitty a second identical placement would pile up, so multiplicity counts
        return sorted(set(pl)) if self.kind == "konsole" else sorted(pl)


def expected_placements(canvas, W, H, kind):
    """the images of a canvas: every row's content placed at column 0 of its row"""
    t = PTerm(W, H, kind)
    for y, row in enumerate(canvas.content()):
        t.r, t.c, t.pw = y, 0, False
        t.feed(tokenize(b"".join(seg[2] for seg in row).decode()))
    return t.placements()


# ------------------------------------------------------------------------------------------
# running a script on the real code


def canvas_geometry(canv):
    """(cw, padTop, imgH, padLeft, imgW) of an image canvas, read off its lines"""
    cw = canv.size[0]
    for line in canv._ti_lines:
        if len(IMAGE_LINES) < 4000:
            IMAGE_LINES.setdefault(line.decode(), None)
    pad_top = img_h = pad_left = img_w = 0
    seen = False
    for k, line in enumerate(canv._ti_lines):
        toks = tokenize(line.decode())
        ks = [t for t in toks if t[0] in "KI"]
        if not ks:
            continue
        c, r, _ = map(int, ks[0][1:].split(","))
        if r != 1 or len(ks) != 1:
            raise ValueError("not a LINES render")
        lead = int(toks[0][1:]) if toks[0][0] == "g" else 0
        if not seen:
            pad_top, pad_left, img_w, seen = k, lead, c, True
        elif (pad_left, img_w) != (lead, c) or k != pad_top + img_h:
            raise ValueError("image lines are not uniform")
        img_h += 1
    return cw, pad_top, img_h, pad_left, img_w


def drawn_z(canv):
    """the z-indexes actually present in the display commands of an image canvas"""
    zs = set()
    for line in canv._ti_lines:
        for t in tokenize(line.decode()):
            if t[0] == "K":
                zs.add(int(t[1:].split(",")[2]))
    return sorted(zs)


class CanvTable:
    """small stable ids for canvas objects (first appearance) and what the code reads off them"""

    def __init__(self, widget_ids):
        self.ids: dict = {}
        self.tab: list = []
        self.drawn: dict = {}  # canvas id → (widget id, allocated z, drawn z-indexes) of kitty canvases
        self.widget_ids = widget_ids

    def cid(self, canv) -> int:
        key = id(canv)
        if key not in self.ids:
            self.ids[key] = (len(self.tab), canv)  # keep the canvas alive: ids must stay unique
            kind, wid, z, geo = 0, 0, 0, (0, 0, 0, 0, 0)
            if isinstance(canv, UrwidImageCanvas):
                try:
                    w = canv.widget_info[0]
                except TypeError:
                    kind = 4
                else:
                    wid = self.widget_ids.get(id(w), 0)
                    im = w._ti_image
                    if isinstance(im, KittyImage):
                        kind, z, geo = 1, w._ti_z_index, canvas_geometry(canv)
                        self.drawn[len(self.tab)] = (wid, z, drawn_z(canv))
                    elif isinstance(im, ITerm2Image):
                        kind, geo = 2, canvas_geometry(canv)
                    else:
                        kind = 3
            self.tab.append((kind, wid, z, *geo))
        return self.ids[key][0]

    def known(self, canv):
        return self.ids[id(canv)][0] if id(canv) in self.ids else -1


def describe_canvas(canvas, ct: CanvTable):
    """("C", shards with canvases replaced by ids) for a composite canvas, ("L", cols, rows, id) otherwise"""
    if not isinstance(canvas, urwid.CompositeCanvas):
        return ("L", canvas.cols(), canvas.rows(), ct.cid(canvas))
    shards = []
    for n_rows, cviews in canvas.shards:
        shards.append((n_rows, [(tl, tt, cols, rows, ct.cid(canv)) for tl, tt, cols, rows, _a, canv in cviews]))
    return ("C", shards)


def run_script(sc: dict):
    """→ list of per-step records (dicts). Deterministic in the script."""
    import term_image.image.kitty as K

    fresh = sc.get("fresh_support", False)
    env.reset_env()
    env.set_env(name=sc["term"], version="0.30.0" if fresh else "", cell_size=tuple(sc.get("cell", (4, 8))),
                term_size=(sc["W"], sc["H"]))
    KittyImage._KITTY_VERSION = (0, 30, 0)
    KittyImage._supported = True
    ITerm2Image._supported = True
    reset_class_state()
    W, H = sc["W"], sc["H"]
    ws: list = []
    widget_ids: dict = {}
    orig_query = K.query_terminal
    queries = []

    def fake_query(request, more=lambda s: True, *a, **k):
        """the terminal answers the kitty support query positively (and DA1)"""
        queries.append(request)
        return b"\x1b_Gi=31;OK\x1b\\\x1b[?62;c"

    def create_widgets():
        if ws or not sc["widgets"]:
            return
        if not fresh:
            KittyImage._supported = True
        ws.extend(make_image_widget(s) for s in sc["widgets"])
        widget_ids.update({id(w): i for i, w in enumerate(ws)})
        if not fresh:
            KittyImage._supported = sc.get("kitty_supported", True)
        ITerm2Image._supported = sc.get("iterm2_supported", True)

    if sc.get("forced"):
        KittyImage.forced_support = True
    if fresh:
        # a process in which kitty support has not been probed yet, on a terminal that answers the query;
        # no image widget exists before the first step that needs one
        KittyImage._supported = None
        K.query_terminal = fake_query
    else:
        create_widgets()
    scr = Scr((W, H))
    if sc["steps"] and sc["steps"][0]["op"] == "start":
        scr._started = False
    _tty_target[0] = scr
    term = PTerm(W, H, sc["term"])
    term.pl = [tuple(p) for p in sc.get("leftover", [])]  # images an earlier program left on the terminal
    ct = CanvTable(widget_ids)
    top_ids: dict = {}
    recs = []
    last_canvas = None
    try:
        for st in sc["steps"]:
            op = st["op"]
            rec = {"op": op, "exc": None, "resize_pending": bool(scr._resized)}
            scr.take()
            try:
                if op in ("draw", "clear_images"):
                    create_widgets()
                if op == "draw":
                    if st.get("same") and last_canvas is not None:
                        canvas = last_canvas
                    else:
                        top = build(st["layout"], ws)
                        size = (W, H + 1) if st.get("badsize") else (W, H)
                        canvas = top.render(size, focus=True)
                    rec["same"] = canvas is scr._ti_screen_canv
                    rec["desc"] = describe_canvas(canvas, ct)
                    rec["canvas"] = canvas
                    rec["zdrawn"] = dict(ct.drawn)
                    rec["top_id"] = top_ids.setdefault(id(canvas), (len(top_ids), canvas))[0]
                    rec["before"] = term.copy()
                    if not st.get("badsize"):
                        last_canvas = canvas
                    scr.draw_screen((W, H), canvas)
                elif op == "clear":
                    scr.clear()
                elif op == "start":
                    # `alternate_buffer` is the one keyword urwid's raw display `start()` documents
                    if "alt" in st:
                        scr.start(alternate_buffer=bool(st["alt"]))
                    else:
                        scr.start()
                elif op == "leftover":
                    # another program ran while the screen was stopped and left kitty images on the terminal
                    term.pl = [tuple(p) for p in st["pl"]] + term.pl
                elif op == "stop":
                    scr.stop()
                elif op == "clear_images":
                    scr.clear_images(*[ws[i] for i in st["widgets"]], now=bool(st.get("now", False)))
                elif op == "sigwinch":
                    # SIGWINCH arrives: what urwid's handler does (`_resized = True`, `screen_buf = None`,
                    # a byte into the resize pipe); the frame drawn before the 'window resize' input is
                    # processed is discarded by the base class
                    urwid.display._raw_display_base.Screen._sigwinch_handler(scr)
                elif op == "resize_done":
                    # the input loop gets to it: `parse_input` appends 'window resize' and clears the flag;
                    # the application re-queries the size (unchanged here) and redraws
                    keys = scr.parse_input(None, None, [])
                    rec["keys"] = keys[0] if keys else None
                else:
                    raise ValueError(op)
            except Exception as e:  # noqa: BLE001 — what the real code raises is part of the observation
                rec["exc"] = type(e).__name__
            rec["writes"] = scr.take()
            out = "".join(w for w in rec["writes"] if not isinstance(w, Marker))
            rec["out"] = out
            try:
                rec["toks"] = tokenize(out)
                term.feed(rec["toks"])
                rec["placements"] = term.placements()
            except TokErr as e:
                rec["tokerr"] = str(e)
                rec["toks"] = None
                rec["placements"] = None
            rec["cviews"] = sorted((ct.known(c), *rest) for c, *rest in scr._ti_image_cviews)
            rec["wdis"] = [w._ti_disguise_state for w in ws] or [0] * len(sc["widgets"])
            rec["cdis"] = UrwidImageCanvas._ti_disguise_state
            recs.append(rec)
    finally:
        _tty_target[0] = None
        K.query_terminal = orig_query
        KittyImage._supported = True
        ITerm2Image._supported = True
        KittyImage.forced_support = False
        if scr._started:
            try:
                scr.stop()
            except Exception:  # noqa: BLE001
                pass
    return recs, ct.tab, ws
