#!/venv/bin/python
"""C04 — automatic sizing always fits the frame, fills it, and preserves aspect ratio
(DESIGN.md §5 C04)."""
from __future__ import annotations

import inspect
import math
import os
import random
import struct
import sys
from fractions import Fraction as Fr

sys.path.insert(0, os.path.dirname(os.path.abspath(__file__)))
from common import framework as fw  # noqa: E402
from common.framework import Case, Failure, Property  # noqa: E402
from common import env  # noqa: E402

import term_image  # noqa: E402
import term_image.geometry  # noqa: E402,F401  (env.get_cell_size needs the submodule loaded)
from PIL import Image  # noqa: E402
from term_image.image import BlockImage, KittyImage, Size  # noqa: E402
from term_image.image import common as ti_common  # noqa: E402

_PIL = Image.new("RGB", (1, 1))
CLS = {"t": BlockImage, "g": KittyImage}
SIZE_NAMES = [m.name for m in Size]


def f2h(x: float) -> str:
    return struct.pack(">d", x).hex()


def h2f(h: str) -> float:
    return struct.unpack(">d", bytes.fromhex(h))[0]


def opt_cell(c):
    return "none" if c is None else f"some {c[0]} {c[1]}"


def opt_ratio(r):
    return "none" if r is None else f"some {r}"


def arg_s(a):
    return " ".join(str(x) for x in a)


def to_py_arg(a):
    if a[0] == "none":
        return None
    if a[0] == "sz":
        return Size[a[1]]
    return int(a[1])


def env_line(d):
    return f"{d['cols']} {d['lines']} {opt_cell(d['cell'])} {opt_ratio(d['ratio'])}"


def apply_env(d):
    env.set_env(term_size=(d["cols"], d["lines"]), cell_size=None if d["cell"] is None else tuple(d["cell"]))
    term_image._cell_ratio = None if d["ratio"] is None else h2f(d["ratio"])


def new_image(fam, ow, oh):
    img = CLS[fam](_PIL)
    img._original_size = (ow, oh)
    return img


def exc_name(e):
    return "err " + type(e).__name__


def resolve(fd, td):
    return fd if fd > 0 else max(td + fd, 1)


def py_round_half_even(q: Fr) -> int:
    fl = q.numerator // q.denominator
    r = q - fl
    if r < Fr(1, 2):
        return fl
    if r > Fr(1, 2):
        return fl + 1
    return fl if fl % 2 == 0 else fl + 1


# --------------------------------------------------------------------------------------------
# generators


def rdim(rng, hi=2 ** 31):
    k = rng.random()
    if k < 0.25:
        return rng.choice([1, 2, 3, 4, 5, 7, 8, 10, 16, 33, 64, 100, 255, 256, 257, 1000, 1024, 4000])
    if k < 0.65:
        return rng.randint(1, 3000)
    if k < 0.9:
        return min(hi, int(2 ** rng.uniform(0, 20)))
    return min(hi, rng.choice([2 ** 31, 2 ** 31 - 1, 2 ** 24 + 1, 2 ** 16, 65535, int(2 ** rng.uniform(20, 31))]))


def rterm(rng):
    k = rng.random()
    if k < 0.2:
        return rng.choice([1, 2, 3, 4, 10, 80, 200, 65535])
    if k < 0.9:
        return rng.randint(1, 320)
    return rng.randint(1, 65535)


def rratio(rng):
    k = rng.random()
    if k < 0.35:
        return rng.choice([0.5, 0.45, 1.0, 1 / 3, 2.0, 0.25, 0.4, 0.55, 0.1, 3.0])
    if k < 0.8:
        return rng.uniform(0.1, 3.0)
    if k < 0.9:
        return 2.0 ** rng.randint(-21, 19)
    return 2.0 ** rng.uniform(-21, 19)


def renv(rng, fam=None):
    fam = fam or rng.choice("tg")
    d = {"fam": fam, "cols": rterm(rng), "lines": rterm(rng)}
    if fam == "g":
        k = rng.random()
        d["cell"] = None if k < 0.08 else (
            [rng.randint(1, 24), rng.randint(1, 48)] if k < 0.9 else [rng.randint(1, 65535), rng.randint(1, 65535)])
        d["ratio"] = rng.choice([None, f2h(0.5)])
    else:
        d["cell"] = rng.choice([None, None, [rng.randint(1, 24), rng.randint(1, 48)]])
        d["ratio"] = None if rng.random() < 0.1 else f2h(rratio(rng))
    return d


def rframe(rng, d):
    k = rng.random()
    if k < 0.3:
        return [0, -2]
    if k < 0.45:
        return [0, 0]
    if k < 0.75:
        return [rng.randint(1, 320), rng.randint(1, 120)]
    if k < 0.9:
        # relative, around the point where the terminal dimension is used up
        return [-(d["cols"] + rng.choice([-2, -1, 0, 1, 2])) if rng.random() < 0.5 else -rng.randint(0, 5),
                -(d["lines"] + rng.choice([-2, -1, 0, 1, 2])) if rng.random() < 0.5 else -rng.randint(0, 5)]
    return [rng.choice([1, 2, 65535, rng.randint(1, 65535)]), rng.choice([1, 2, 65535, rng.randint(1, 65535)])]


def cell_of(d):
    if d["fam"] == "t":
        return (1, 2)
    return tuple(d["cell"]) if d["cell"] is not None else (1, 2)


def exact_pr(d) -> Fr:
    if d["fam"] == "g":
        return Fr(1)
    if d["ratio"] is not None and h2f(d["ratio"]) != 0.0:
        return Fr(h2f(d["ratio"])) * 2
    c = tuple(d["cell"]) if d["cell"] is not None else (1, 2)
    return Fr(c[0] / c[1]) * 2


def nudge(rng, x: float) -> float:
    for _ in range(rng.choice([0, 0, 1, 1, 2, 3])):
        x = math.nextafter(x, math.inf if rng.random() < 0.5 else 0.0)
    return x


def clamp_ratio(x: float) -> float:
    return min(max(x, 2.0 ** -21), 2.0 ** 19)


def fit_branch(d):
    """which block of the FIT computation the request reaches (label for the histogram only)"""
    if d["ow"] < 1 or d["oh"] < 1:
        return "zdiv"
    cols, lines = resolve(d["frame"][0], d["cols"]), resolve(d["frame"][1], d["lines"])
    cw, ch = cell_of(d)
    fwp, fhp, pr = cols * cw, lines * ch, float(exact_pr(d))
    wr, hr = fwp / d["ow"], fhp / d["oh"]
    sr = min(wr, hr)
    if hr > wr:
        return "hfree-capped" if fhp < d["oh"] * sr * pr else "hfree"
    return "wfree-capped" if fwp < d["ow"] * sr / pr else "wfree"


def valid_case(d, kind, nontrivial=True):
    line = (f"valid {d['fam']} {env_line(d)} {d['ow']} {d['oh']} {arg_s(d['w'])} {arg_s(d['h'])} "
            f"{d['frame'][0]} {d['frame'][1]}")
    return Case(line, d, kind, nontrivial)


def gen_valid(rng):
    d = renv(rng)
    d["frame"] = rframe(rng, d)
    cols, lines = resolve(d["frame"][0], d["cols"]), resolve(d["frame"][1], d["lines"])
    cw, ch = cell_of(d)
    fwp, fhp = cols * cw, lines * ch
    mode = rng.choice(["FIT", "FIT", "FIT", "AUTO", "AUTO", "ORIGINAL", "FIT_TO_WIDTH", "W", "H", "NONE", "PAIR"])
    rel = "rand"
    ow, oh = rdim(rng), rdim(rng)
    k = rng.random()
    if mode in ("FIT", "AUTO", "NONE", "PAIR"):
        if k < 0.2:  # width_ratio == height_ratio exactly
            g = math.gcd(fwp, fhp)
            m = rng.randint(1, 50)
            ow, oh, rel = fwp // g * m, fhp // g * m, "wr=hr"
        elif k < 0.35:  # just off equality
            g = math.gcd(fwp, fhp)
            m = rng.randint(1, 50)
            ow, oh = fwp // g * m, fhp // g * m
            if rng.random() < 0.5:
                ow += rng.choice([-1, 1])
            else:
                oh += rng.choice([-1, 1])
            ow, oh, rel = max(ow, 1), max(oh, 1), "wr~hr"
        elif k < 0.55 and d["fam"] == "t" and d["ratio"] is not None:
            # the ratio-scaled free dimension lands at / next to the frame (the min() clamp)
            wr, hr = Fr(fwp, ow), Fr(fhp, oh)
            if hr > wr:
                target = Fr(fhp) / (oh * wr)  # pr with _height_px * pr == frame_height
            else:
                target = (ow * hr) / Fr(fwp)  # pr with _width_px / pr == frame_width
            r = clamp_ratio(nudge(rng, float(target / 2)))
            d["ratio"], rel = f2h(r), "clamp-edge"
        elif k < 0.7 and d["fam"] == "t" and d["ratio"] is not None:
            # a .5 tie in the free dimension: ori = frame in the constraining axis, power-of-two other axis
            j = rng.randint(0, 10)
            kk = rng.randint(0, 200)
            if rng.random() < 0.5:
                ow, oh = fwp, 2 ** j
                r = Fr(2 * kk + 1, 2 ** (j + 1)) / 2
            else:
                ow, oh = 2 ** j, fhp
                r = Fr(2 ** (j + 1), 2 * kk + 1) / 2
            d["ratio"], rel = f2h(clamp_ratio(float(r))), "tie"
        elif k < 0.8:  # result 0 before the clamp
            if rng.random() < 0.5:
                ow, oh = rng.choice([2 ** 20, 10 ** 6, 2 ** 31]), rng.randint(1, 3)
            else:
                ow, oh = rng.randint(1, 3), rng.choice([2 ** 20, 10 ** 6, 2 ** 31])
            rel = "zero"
        if mode == "AUTO" and rng.random() < 0.6:
            # original at / next to the frame's pixel area
            pr = exact_pr(d)
            ow = max(1, fwp + rng.choice([-1, 0, 0, 1]))
            oh = max(1, int(Fr(fhp) / pr) + rng.choice([-1, 0, 0, 1, 2]))
            rel = "auto-edge"
    elif mode in ("ORIGINAL", "FIT_TO_WIDTH", "W", "H"):
        if k < 0.25 and d["fam"] == "t" and d["ratio"] is not None:
            j = rng.randint(0, 10)
            kk = rng.randint(0, 200)
            oh = 2 ** j
            d["ratio"], rel = f2h(clamp_ratio(float(Fr(2 * kk + 1, 2 ** (j + 1)) / 2))), "tie"
            if mode in ("FIT_TO_WIDTH", "W"):
                ow = rng.choice([1, 2, 4, 8])
        elif k < 0.4:
            if rng.random() < 0.5:
                ow, oh = rng.choice([2 ** 20, 10 ** 6, 2 ** 31]), rng.randint(1, 3)
            else:
                ow, oh = rng.randint(1, 3), rng.choice([2 ** 20, 10 ** 6, 2 ** 31])
            rel = "zero"
        elif k < 0.55 and d["fam"] == "g":  # original a multiple / not a multiple of the cell size
            ow = cw * rng.randint(0, 40) + rng.choice([0, 0, 1, cw - 1])
            oh = ch * rng.randint(0, 40) + rng.choice([0, 0, 1, ch - 1])
            ow, oh, rel = max(ow, 1), max(oh, 1), "cell-div"
    d["ow"], d["oh"] = ow, oh
    other = rng.choice([["none"], ["none"], ["sz", rng.choice(SIZE_NAMES)]])
    if mode in SIZE_NAMES:
        d["w"], d["h"] = (["sz", mode], other) if rng.random() < 0.7 else (other, ["sz", mode])
    elif mode == "NONE":
        d["w"], d["h"] = ["none"], ["none"]
    elif mode == "W":
        d["w"], d["h"] = ["int", rng.choice([0, 1, 2, rterm(rng)])], ["none"]
    elif mode == "H":
        d["w"], d["h"] = ["none"], ["int", rng.choice([0, 1, 2, rterm(rng)])]
    else:
        d["w"] = ["int", rng.choice([0, 1, rterm(rng)])]
        d["h"] = rng.choice([["int", rng.choice([0, 1, rterm(rng)])], ["sz", rng.choice(SIZE_NAMES)]])
        if rng.random() < 0.3:
            d["w"], d["h"] = d["h"], d["w"]
    br = "-" + fit_branch(d) if mode in ("FIT", "NONE", "AUTO") else ""
    return valid_case(d, f"valid-{d['fam']}-{mode}-{rel}{br}")


def rsarg(rng, allow_none=True):
    k = rng.random()
    if k < 0.3 and allow_none:
        return ["none"]
    if k < 0.55:
        return ["sz", rng.choice(SIZE_NAMES)]
    if k < 0.65:
        return ["int", rng.choice([0, -1, -5])]
    return ["int", rng.randint(1, 300)]


def gen_setsize(rng):
    d = renv(rng)
    d["frame"] = rframe(rng, d)
    d["ow"], d["oh"] = rdim(rng, 10 ** 5), rdim(rng, 10 ** 5)
    d["w"], d["h"] = rsarg(rng), rsarg(rng)
    line = (f"setsize {d['fam']} {env_line(d)} {d['ow']} {d['oh']} {arg_s(d['w'])} {arg_s(d['h'])} "
            f"{d['frame'][0]} {d['frame'][1]}")
    return Case(line, d, f"setsize-{d['w'][0]}-{d['h'][0]}")


def rrender(rng, file_src):
    """a render attempt: [rw, check, scroll, fail, via] — via = the entry point used on the real image"""
    k = rng.random()
    if file_src and k < 0.5:
        via = rng.choice(["str", "fmt", "draw", "raw"])
        if via in ("str", "fmt"):
            return ["rw", 0, 0, "source", via]
        if via == "draw":
            return ["rw", 1, rng.randint(0, 1), "source", via]
        return ["rw", rng.randint(0, 1), rng.randint(0, 1), "source", via]
    if k < 0.7:
        return ["rw", rng.randint(0, 1), rng.randint(0, 1), "renderer", "raw"]
    return ["rw", 1, rng.randint(0, 1), "none", "raw"]


def rbad_ratio(rng):
    """an argument `set_cell_ratio` rejects: [bad, <exception class>, <how to build the value>]"""
    k = rng.random()
    if k < 0.6:
        x = rng.choice([-0.5, -1.0, -0.0, 0.0, float("-inf"), -5e-324, -rratio(rng), float("1e-400")])
        return ["bad", "ValueError", {"f": f2h(x)}]
    if k < 0.8:
        return ["bad", "ValueError", {"i": rng.choice([0, -1, -2, -10 ** 30])}]
    return ["bad", "TypeError", rng.choice([{"s": "0.5"}, {"s": "-1"}, {"none": 1}, {"l": [0.5]}])]


def bad_ratio_value(spec):
    if "f" in spec:
        return h2f(spec["f"])
    if "i" in spec:
        return spec["i"]
    if "s" in spec:
        return spec["s"]
    if "l" in spec:
        return list(spec["l"])
    return None


def rhist_op(rng, d, file_src):
    k = rng.random()
    if k < 0.12:
        return ["ss", rsarg(rng), rsarg(rng), rframe(rng, d)]
    if k < 0.24:
        return ["sd", rng.choice(SIZE_NAMES)]
    if k < 0.3:
        return ["st", rng.choice([0, -3, rng.randint(1, 300)]), rng.randint(1, 100)]
    if k < 0.35:
        return ["sw", rsarg(rng)]
    if k < 0.4:
        return ["sh", rsarg(rng)]
    if k < 0.56:
        return ["rs", rterm(rng), rterm(rng)]
    if k < 0.63:
        return ["sc", rng.choice([None, [rng.randint(1, 24), rng.randint(1, 48)]])]
    if k < 0.74:
        return ["sr", rng.choice([["v", f2h(rratio(rng))], ["v", f2h(0.0)], ["fixed"], ["dynamic"], rbad_ratio(rng)])]
    if k < 0.84:
        return ["rn"]
    return rrender(rng, file_src)


def gen_hist(rng):
    d = renv(rng)
    d["ow"], d["oh"] = rdim(rng, 10 ** 5), rdim(rng, 10 ** 5)
    d["src"] = "file" if rng.random() < 0.6 else "pil"
    file_src = d["src"] == "file"
    ops = []
    shape = "free"
    if rng.random() < 0.35:
        # the scenario the last clause of the property is about: a size setting, a render attempt
        # that fails (or is refused), then the terminal / cell ratio changes, then reads and renders
        shape = "fail-then-change"
        k = rng.random()
        if k < 0.6:
            ops.append(["sd", rng.choice(SIZE_NAMES)])
        elif k < 0.8:
            ops.append(["st", rng.randint(1, 300), rng.randint(1, 100)])
        elif k < 0.9:
            ops.append(["ss", ["sz", rng.choice(SIZE_NAMES)], ["none"], rframe(rng, d)])
        if rng.random() < 0.5:
            ops.append(["rs", rterm(rng), rterm(rng)])
        for _ in range(rng.randint(1, 2)):
            ops.append(rrender(rng, file_src) if rng.random() < 0.6 else ["sr", rbad_ratio(rng)])
        for _ in range(rng.randint(1, 3)):
            ops.append(rng.choice([["rs", rterm(rng), rterm(rng)], ["sr", ["v", f2h(rratio(rng))]],
                                   ["sc", rng.choice([None, [rng.randint(1, 24), rng.randint(1, 48)]])]]))
        ops.append(rng.choice([["rn"], rrender(rng, file_src), ["rs", rterm(rng), rterm(rng)]]))
        for _ in range(rng.randint(0, 3)):
            ops.append(rhist_op(rng, d, file_src))
    elif rng.random() < 0.35:
        # the property setters with a value EQUAL to the current one: after a manual size, after a
        # ratio / terminal / cell change, after the other dimension's setter — the other dimension
        # must be recomputed every time
        shape = "setter-same"
        d["ow"], d["oh"] = rdim(rng, 3000), rdim(rng, 3000)
        w, h = rng.choice([1, 2, rng.randint(1, 200)]), rng.choice([1, 2, rng.randint(1, 100)])
        change = lambda: rng.choice([["sr", ["v", f2h(rratio(rng))]], ["rs", rterm(rng), rterm(rng)],  # noqa: E731
                                     ["sc", rng.choice([None, [rng.randint(1, 24), rng.randint(1, 48)]])],
                                     ["sr", rbad_ratio(rng)]])
        k = rng.random()
        if k < 0.3:
            ops += [["st", w, h], rng.choice([["sw", ["int", w]], ["sh", ["int", h]]])]
        elif k < 0.55:
            ops += [["sw", ["int", w]], change(), ["sw", ["int", w]]]
        elif k < 0.75:
            ops += [["sh", ["int", h]], change(), ["sh", ["int", h]]]
        elif k < 0.85:
            ops += [["sw", ["int", w]], ["sh", ["int", rng.choice([1, 1, 2, h])]], ["sw", ["int", w]]]
        elif k < 0.93:
            ops += [["ss", ["int", w], ["none"], rframe(rng, d)], change(), ["sw", ["int", w]]]
        else:
            ops += [["st", w, h], change(), ["sw", ["int", w]], change(), ["sh", ["int", h]]]
        for _ in range(rng.randint(0, 4)):
            ops.append(rhist_op(rng, d, file_src))
    else:
        for _ in range(rng.randint(2, 10)):
            ops.append(rhist_op(rng, d, file_src))
    # a setter's value is often the dimension the image is known (by construction) to have already
    kw = kh = None
    for o in ops:
        if o[0] in ("sw", "sh") and o[1][0] == "int" and shape != "setter-same":
            known = kw if o[0] == "sw" else kh
            if known is not None and rng.random() < 0.5:
                o[1] = ["int", known]
        if o[0] == "st":
            if o[1] > 0 and o[2] > 0:
                kw, kh = o[1], o[2]
        elif o[0] == "sd":
            kw = kh = None
        elif o[0] in ("ss", "sw", "sh"):
            a, b = (o[1], o[2]) if o[0] == "ss" else (o[1], ["none"]) if o[0] == "sw" else (["none"], o[1])
            bad = any(x[0] == "int" and x[1] <= 0 for x in (a, b)) or (a[0] != "none" and b[0] != "none" and not (a[0] == b[0] == "int"))
            if not bad:
                kw = a[1] if a[0] == "int" else None
                kh = b[1] if b[0] == "int" else None
    d["ops"] = ops
    toks = []
    for o in ops:
        if o[0] == "ss":
            toks.append(f"ss {arg_s(o[1])} {arg_s(o[2])} {o[3][0]} {o[3][1]}")
        elif o[0] in ("sw", "sh"):
            toks.append(f"{o[0]} {arg_s(o[1])}")
        elif o[0] == "sc":
            toks.append(f"sc {opt_cell(o[1])}")
        elif o[0] == "sr":
            toks.append("sr " + " ".join(o[1][:2]))  # for `bad`: the exception class; the value is the harness's business
        elif o[0] == "rw":
            toks.append(f"rw {o[1]} {o[2]} {o[3]}")  # the entry point (o[4]) is the harness's business
        else:
            toks.append(" ".join(str(x) for x in o))
    line = f"hist {d['fam']} {env_line(d)} {d['ow']} {d['oh']} {len(ops)} " + " ".join(toks)
    kinds = sorted({o[0] for o in ops})
    fails = sorted({o[3] for o in ops if o[0] == "rw"} | {"badratio" for o in ops if o[0] == "sr" and o[1][0] == "bad"})
    label = f"hist-{d['fam']}-{d['src']}-{shape}" + ("-" + "+".join(fails) if fails else "")
    return Case(line, d, label, bool({"rn", "rs", "rw"} & set(kinds)))


def rfloat(rng):
    k = rng.random()
    if k < 0.3:
        m = rng.choice([0, 1, 2 ** 52 - 1, 2 ** 51, rng.getrandbits(52), rng.getrandbits(20) << 32])
        return math.ldexp(2 ** 52 + m, rng.randint(-110, 20))
    if k < 0.5:
        return float(rng.randint(1, 2 ** 20)) + rng.choice([0.0, 0.5, 0.25, 0.75])
    if k < 0.6:
        return nudge(rng, float(rng.randint(1, 2 ** 30)) + 0.5)
    if k < 0.8:
        return rng.uniform(0, 4)
    return 2.0 ** rng.uniform(-40, 70)


def rnat(rng):
    k = rng.random()
    if k < 0.3:
        return rng.randint(0, 4000)
    if k < 0.5:
        return rng.choice([2 ** 53, 2 ** 53 + 1, 2 ** 53 - 1, 2 ** 54 + 2, 2 ** 54 + 6, 2 ** 64 + 2 ** 11, 2 ** 64 + 3 * 2 ** 11,
                           2 ** 52 + 1, 2 ** 31, 2 ** 63 - 1]) + rng.choice([0, 0, 1, 2])
    return rng.getrandbits(rng.randint(1, 70))


def gen_sf(rng):
    op = rng.choice(["divnat", "divnat", "ofnat", "mul", "mul", "div", "div", "lt", "ltnf", "ltfn", "round", "ceil", "rt"])
    if op == "divnat":
        a, b = rnat(rng), max(1, rnat(rng))
        if rng.random() < 0.2:  # exact ties of the quotient at 53 bits
            b = 2 ** rng.randint(1, 30)
            a = (2 ** 53 + 2 * rng.getrandbits(40) + 1) * (b // 2) if b > 1 else a
        return Case(f"sf.divnat {a} {b}", {"a": a, "b": b}, "sf-divnat", a > 0)
    if op == "ofnat":
        n = rnat(rng)
        return Case(f"sf.ofnat {n}", {"n": n}, "sf-ofnat", n > 2 ** 53)
    if op in ("mul", "div", "lt"):
        x, y = rfloat(rng), rfloat(rng)
        if op == "lt" and rng.random() < 0.5:
            y = nudge(rng, x)
        return Case(f"sf.{op} {f2h(x)} {f2h(y)}", {"x": f2h(x), "y": f2h(y)}, "sf-" + op)
    if op in ("ltnf", "ltfn"):
        n = rnat(rng)
        x = nudge(rng, float(n)) if rng.random() < 0.6 else rfloat(rng)
        if rng.random() < 0.2 and n < 2 ** 40:
            x = n + rng.choice([0.5, -0.5, 0.25])
            x = abs(x)
        line = f"sf.ltnf {n} {f2h(x)}" if op == "ltnf" else f"sf.ltfn {f2h(x)} {n}"
        return Case(line, {"x": f2h(x), "n": n}, "sf-" + op)
    x = rfloat(rng)
    return Case(f"sf.{op} {f2h(x)}", {"x": f2h(x)}, "sf-" + op)


def gen_laws(rng):
    """pairs of quotients for the four FlLaws facts (the open proof obligation), evaluated exactly by
    the driver on the Lean softfloat and here on CPython's correctly rounded int/int division"""
    k = rng.random()
    n1, d1 = rnat(rng), max(1, rnat(rng))
    if k < 0.2:
        n2, d2 = n1 + rng.choice([0, 1, 2]), d1
    elif k < 0.35:
        m = rng.randint(1, 1000)
        n2, d2 = n1 * m, d1 * m  # the same rational, written differently
    elif k < 0.5:  # around a power of two (binade boundary)
        e = rng.randint(0, 60)
        d1 = rng.randint(1, 2 ** 30)
        n1 = d1 * 2 ** e + rng.choice([-1, 0, 1])
        n2, d2 = d1 * 2 ** e + rng.choice([-1, 0, 1]), d1
        n1, n2 = max(n1, 0), max(n2, 0)
    elif k < 0.65:  # exact integers and halves
        d1 = rng.choice([1, 2])
        n1 = rng.choice([rng.getrandbits(53), 2 ** 53 - 1, 2 ** 53 - 2, rng.getrandbits(20)])
        n2, d2 = n1 + 1, d1
    elif k < 0.8:  # 53-bit ties
        d1 = 2 ** rng.randint(1, 12)
        n1 = (2 ** 53 + 2 * rng.getrandbits(30) + 1) * (d1 // 2)
        n2, d2 = n1 + rng.choice([-1, 1]), d1
    else:
        n2, d2 = rnat(rng), max(1, rnat(rng))
    return Case(f"sf.laws {n1} {d1} {n2} {d2}", {"n1": n1, "d1": d1, "n2": n2, "d2": d2}, "sf-laws", n1 > 0 and n2 > 0)


def py_laws(d):
    n1, d1, n2, d2 = d["n1"], d["d1"], d["n2"], d["d2"]
    x1, x2 = Fr(n1 / d1), Fr(n2 / d2)
    q1, q2 = Fr(n1, d1), Fr(n2, d2)
    mono = (x1 <= x2) if q1 <= q2 else (x2 <= x1)
    same = (x1 == x2) if q1 == q2 else True
    err = abs(x1 - q1) * 2 ** 53 <= q1 and abs(x2 - q2) * 2 ** 53 <= q2

    def exact(x, n, dd):
        return x == Fr(n, dd) if dd in (1, 2) and n < 2 ** 53 else True
    ex = exact(x1, n1, d1) and exact(x2, n2, d2)
    return "ok " + " ".join("1" if b else "0" for b in (mono, same, err, ex))


def gen_conv(rng):
    fam = rng.choice("tg")
    cell = None if rng.random() < 0.2 else [rng.randint(1, 40), rng.randint(1, 80)]
    what = rng.choice(["pc", "cp", "pl", "lp"])
    n = rng.choice([0, 1, 2, 3, rng.randint(0, 5000), 2 ** 53 + 1, 2 ** 54 + 2, rng.getrandbits(60)])
    return Case(f"conv {fam} {opt_cell(cell)} {what} {n}", {"fam": fam, "cell": cell, "what": what, "n": n}, "conv-" + fam + what)


def gen_ratio(rng):
    d = renv(rng)
    if rng.random() < 0.1:
        d["ratio"] = f2h(0.0)
    return Case(f"ratio {d['fam']} {env_line(d)}", d, "ratio-" + d["fam"])


# --------------------------------------------------------------------------------------------
# the oracle: the property's inequalities on the real return values, in exact arithmetic

ASPECT_MAG = 2 ** 40  # the "< 1 cell" clause is a statement about reals; it is checked while the
#                       exact value is far inside the range where binary64 resolves single pixels


def check_sizing(d, w, h, key):
    """`(w, h)` = the real `_valid_size` result for the automatic-mode request in `d`."""
    if not (isinstance(w, int) and isinstance(h, int) and not isinstance(w, bool) and w >= 1 and h >= 1):
        return Failure(f"pos/{key}", f"size {(w, h)!r} is not a pair of positive integers")
    ow, oh = d["ow"], d["oh"]
    cols, lines = resolve(d["frame"][0], d["cols"]), resolve(d["frame"][1], d["lines"])
    cw, ch = cell_of(d)
    pr = exact_pr(d)
    fwp, fhp = cols * cw, lines * ch

    def exact_h(wc):
        return Fr(wc * cw) * oh / ow * pr / ch

    def exact_w(hc):
        return Fr(hc * ch) * ow / oh / pr / cw

    wa, ha = d["w"], d["h"]
    sizes = {a[1] for a in (wa, ha) if a[0] == "sz"}
    ints = [a for a in (wa, ha) if a[0] == "int"]
    if len(ints) == 2 or (ints and sizes):
        return None
    if wa[0] == "int":
        if wa[1] >= 1:
            if w != wa[1]:
                return Failure(f"given-width/{key}", f"width {wa[1]} given, size is {(w, h)}")
            e = exact_h(w)
            if e <= ASPECT_MAG and abs(h - e) >= 1:
                return Failure(f"aspect/{key}", f"height {h} for width {w}: exact value {float(e)}")
        return None
    if ha[0] == "int":
        if ha[1] >= 1:
            if h != ha[1]:
                return Failure(f"given-height/{key}", f"height {ha[1]} given, size is {(w, h)}")
            e = exact_w(h)
            if e <= ASPECT_MAG and abs(w - e) >= 1:
                return Failure(f"aspect/{key}", f"width {w} for height {h}: exact value {float(e)}")
        return None
    mode = "AUTO" if "AUTO" in sizes else "FIT_TO_WIDTH" if "FIT_TO_WIDTH" in sizes else \
        "ORIGINAL" if "ORIGINAL" in sizes else "FIT"
    if mode == "AUTO":
        if w > cols or h > lines:
            return Failure(f"exceeds/{key}", f"AUTO size {(w, h)} exceeds the frame {(cols, lines)}")
        hp = oh * pr
        clearly_fits = ow <= fwp and hp <= fhp - 1
        clearly_not = ow > fwp or hp >= fhp + 1
        img = new_image(d["fam"], ow, oh)
        apply_env(d)
        if clearly_fits and (w, h) != img._valid_size(Size.ORIGINAL, None, tuple(d["frame"])):
            return Failure(f"auto/{key}", f"AUTO gives {(w, h)} but the source fits the frame and ORIGINAL differs")
        if clearly_not and (w, h) != img._valid_size(Size.FIT, None, tuple(d["frame"])):
            return Failure(f"auto/{key}", f"AUTO gives {(w, h)} but the source exceeds the frame and FIT differs")
        # then judge it as what it resolved to
        mode = "FIT" if (ow > fwp or py_round_half_even(hp) > fhp) else "ORIGINAL"
        if not (clearly_fits or clearly_not):
            return None
    if mode == "FIT":
        if w > cols or h > lines:
            return Failure(f"exceeds/{key}", f"FIT size {(w, h)} exceeds the frame {(cols, lines)}")
        if w != cols and h != lines:
            return Failure(f"touch/{key}", f"FIT size {(w, h)} touches neither side of the frame {(cols, lines)}")
        devs = []
        if w == cols:
            devs.append((abs(h - exact_h(w)), exact_h(w)))
        if h == lines:
            devs.append((abs(w - exact_w(h)), exact_w(h)))
        dev, e = min(devs)
        if e <= ASPECT_MAG and dev >= 1:
            return Failure(f"aspect/{key}", f"FIT size {(w, h)} in frame {(cols, lines)}: free dimension off by {float(dev)}")
    elif mode == "FIT_TO_WIDTH":
        if w != cols:
            return Failure(f"ftw-width/{key}", f"FIT_TO_WIDTH width {w}, frame width {cols}")
        e = exact_h(w)
        if e <= ASPECT_MAG and abs(h - e) >= 1:
            return Failure(f"aspect/{key}", f"FIT_TO_WIDTH height {h}: exact value {float(e)}")
    elif mode == "ORIGINAL":
        ew, eh = Fr(ow, cw), oh * pr / ch
        if abs(w - ew) >= 1:
            return Failure(f"aspect/{key}", f"ORIGINAL width {w}: exact value {float(ew)}")
        if eh <= ASPECT_MAG and abs(h - eh) >= 1:
            return Failure(f"aspect/{key}", f"ORIGINAL height {h}: exact value {float(eh)}")
    return None


def case_key(d):
    return (f"{d['fam']}/{d['ow']}x{d['oh']}/term={d['cols']}x{d['lines']}/cell={d['cell']}/ratio={d['ratio']}/"
            f"{arg_s(d['w'])},{arg_s(d['h'])}/frame={d['frame'][0]},{d['frame'][1]}")


# --------------------------------------------------------------------------------------------


from common.py2lean_specs import with_translation  # noqa: E402


@with_translation
class C04(Property):
    id = "C04"
    title = "Automatic sizing always fits the frame, fills it, and preserves aspect ratio"
    lean_props = ["TIV.C04.Props"]
    driver = "drv_c04"
    partial = ""  # softfloat_laws : FlLaws is proved; nothing beyond the magnitude hypotheses is left open
    assumptions = [
        "Bnd: original size <= 2^31, terminal and cell sizes <= 2^16, 2^-20 <= pixel ratio <= 2^20 "
        "(no binary64 overflow/underflow; the model's exponent is unbounded)",
        "get_cell_size() returns None or a pair of positive integers",
        "aspect_dev for a given width/height, FIT_TO_WIDTH and ORIGINAL: the exact free dimension is <= 2^40 pixels "
        "(beyond that binary64 no longer resolves single pixels and the real-valued claim is false)",
    ]
    quick_cases = 200000
    thorough_cases = 1500000
    rule = ("cases are generated from one PRNG state derived from VERIF_SEED, by the relation between the quantities "
            "that branch _valid_size (ratio order, clamp edges, .5 ties, zero-before-clamp, cell divisibility); "
            "distinct by the hash of the request line; a case is non-trivial unless the generator marks it trivial")

    # -- translator -------------------------------------------------------------------
    def gen_constants(self):
        ss = inspect.signature(ti_common.BaseImage.set_size).parameters["frame_size"].default
        vs = inspect.signature(ti_common.BaseImage._valid_size).parameters["frame_size"].default
        gpr = ti_common.GraphicsImage._pixel_ratio
        env.set_env(cell_size=None)
        text_cell = (BlockImage._pixels_cols(cols=1), BlockImage._pixels_lines(lines=1))
        fallback = (KittyImage._pixels_cols(cols=1), KittyImage._pixels_lines(lines=1))
        env.set_env(cell_size=(3, 7))
        gcell = (KittyImage._pixels_cols(cols=1), KittyImage._pixels_lines(lines=1))
        env.set_env(cell_size=None)
        if gcell != (3, 7):
            raise RuntimeError("graphics cell conversion no longer follows get_cell_size()")
        names = ", ".join(f'"{m.name}"' for m in Size)
        body = (
            "/-! GENERATED by harness/c04.py from the imported package — do not edit -/\n"
            "namespace TIV.C04.Generated\n"
            f"def sizeNames : List String := [{names}]\n"
            f"def setSizeDefaultFrame : Int × Int := ({int(ss[0])}, {int(ss[1])})\n"
            f"def validSizeDefaultFrame : Int × Int := ({int(vs[0])}, {int(vs[1])})\n"
            f"def graphicsPixelRatioBits : Nat := 0x{f2h(float(gpr))}\n"
            f"def graphicsPixelRatioIsFloat : Bool := {'true' if type(gpr) is float else 'false'}\n"
            f"def textPixelsPerCell : Nat × Nat := ({text_cell[0]}, {text_cell[1]})\n"
            f"def fallbackCellSize : Nat × Nat := ({fallback[0]}, {fallback[1]})\n"
            "end TIV.C04.Generated\n"
        )
        return {"TIV/C04/Generated.lean": body}

    # -- generator --------------------------------------------------------------------
    def generate(self, rng: random.Random, tier: str):
        while True:
            k = rng.random()
            if k < 0.45:
                yield gen_valid(rng)
            elif k < 0.75:
                yield gen_sf(rng)
            elif k < 0.85:
                yield gen_laws(rng)
            elif k < 0.9:
                yield gen_setsize(rng)
            elif k < 0.96:
                yield gen_hist(rng)
            elif k < 0.98:
                yield gen_conv(rng)
            else:
                yield gen_ratio(rng)

    # -- implementation ---------------------------------------------------------------
    def impl(self, case: Case) -> str:
        op = case.line.split(" ", 1)[0]
        d = case.data
        if op.startswith("sf."):
            return self.impl_sf(op[3:], d)
        if op == "conv":
            env.set_env(cell_size=None if d["cell"] is None else tuple(d["cell"]))
            cls, n = CLS[d["fam"]], d["n"]
            try:
                r = {"pc": lambda: cls._pixels_cols(cols=n), "cp": lambda: cls._pixels_cols(pixels=n),
                     "pl": lambda: cls._pixels_lines(lines=n), "lp": lambda: cls._pixels_lines(pixels=n)}[d["what"]]()
            except Exception as e:
                return exc_name(e)
            return f"ok {r}"
        if op == "ratio":
            apply_env(d)
            img = new_image(d["fam"], 1, 1)
            r = img._pixel_ratio
            return "ok " + f2h(r) if type(r) is float else f"err not-a-float {r!r}"
        if op == "valid":
            apply_env(d)
            img = new_image(d["fam"], d["ow"], d["oh"])
            try:
                r = img._valid_size(to_py_arg(d["w"]), to_py_arg(d["h"]), tuple(d["frame"]))
            except Exception as e:
                return exc_name(e)
            if any(isinstance(x, Size) for x in r):
                return "err mixed"
            if not all(type(x) is int for x in r):
                return f"err not-int {r!r}"
            return f"ok {r[0]} {r[1]}"
        if op == "setsize":
            apply_env(d)
            img = new_image(d["fam"], d["ow"], d["oh"])
            try:
                img.set_size(to_py_arg(d["w"]), to_py_arg(d["h"]), tuple(d["frame"]))
            except Exception as e:
                return exc_name(e)
            return "ok " + fmt_stored(img.size)
        if op == "hist":
            return "ok " + " ".join([str(len(d["ops"]))] + run_history(d))
        return "harness-bad-op"

    @staticmethod
    def impl_sf(op, d):
        try:
            if op == "divnat":
                return "ok " + f2h(d["a"] / d["b"])
            if op == "ofnat":
                return "ok " + f2h(float(d["n"]))
            if op == "rt":
                return "ok " + d["x"]
            if op == "laws":
                return py_laws(d)
            x = h2f(d["x"])
            if op == "mul":
                return "ok " + f2h(x * h2f(d["y"]))
            if op == "div":
                return "ok " + f2h(x / h2f(d["y"]))
            if op == "lt":
                return "ok " + ("1" if x < h2f(d["y"]) else "0")
            if op == "ltnf":
                return "ok " + ("1" if d["n"] < x else "0")
            if op == "ltfn":
                return "ok " + ("1" if x < d["n"] else "0")
            if op == "round":
                return f"ok {round(x)}"
            if op == "ceil":
                return f"ok {math.ceil(x)}"
        except Exception as e:
            return exc_name(e)
        return "harness-bad-op"

    # -- oracle -----------------------------------------------------------------------
    def oracle(self, case: Case, impl_result: str):
        op = case.line.split(" ", 1)[0]
        d = case.data
        if op == "valid":
            if not impl_result.startswith("ok ") or d["ow"] < 1 or d["oh"] < 1:
                if impl_result.startswith("err mixed") or d["ow"] < 1 or d["oh"] < 1:
                    return None
                return Failure(f"raises/{case_key(d)}", f"_valid_size raised: {impl_result}")
            _, w, h = impl_result.split(" ")
            return check_sizing(d, int(w), int(h), case_key(d))
        if op == "hist":
            return check_history(d)
        return None

    # -- failing-input search -----------------------------------------------------------
    def search(self, rng, tier, reasons):
        return sweep(rng, 4000 if tier == "quick" else 40000, small=True)

    def extra_checks(self, rng, tier, ev):
        try:
            if tier != "thorough":
                return []
            return sweep(rng, 60000, small=True)
        finally:
            remove_tmp_dir()  # the framework leaves with os._exit: this is the last hook of a run


def fmt_stored(s):
    return "D " + s.name if isinstance(s, Size) else f"F {s[0]} {s[1]}"


def fmt_pair(f):
    try:
        r = f()
    except Exception as e:
        return exc_name(e)
    return f"ok {r[0]} {r[1]}"


_PNG = None
_TMP = None
_COUNTER = __import__("itertools").count()


def tmp_dir():
    """the harness-owned directory for file-sourced images: created inside the run on first use,
    removed by `remove_tmp_dir` (end of the run; also at interpreter exit)"""
    global _TMP
    if _TMP is None or not os.path.isdir(_TMP):
        import atexit
        import tempfile
        _TMP = tempfile.mkdtemp(prefix="verif-c04-")
        atexit.register(remove_tmp_dir)
    return _TMP


def remove_tmp_dir():
    global _TMP
    if _TMP is not None:
        import shutil
        shutil.rmtree(_TMP, ignore_errors=True)
        _TMP = None


def png_bytes():
    global _PNG
    if _PNG is None:
        import io
        b = io.BytesIO()
        Image.new("RGB", (3, 2), (10, 200, 30)).save(b, "PNG")
        _PNG = b.getvalue()
    return _PNG


class _RendererFailed(RuntimeError):
    pass


def _raising_renderer(im):
    raise RuntimeError("renderer failed")


def attempt_render(img, o, path):
    """one render attempt `[rw, check, scroll, fail, via]` on the real image; returns the obs string"""
    _, check, scroll, fail, via = o
    moved = False
    if fail == "source":
        os.rename(path, path + ".away")  # the source file is unreadable for a moment
        moved = True
    try:
        if via == "str":
            str(img)
            return "err render-did-not-fail"
        if via == "fmt":
            format(img, "")
            return "err render-did-not-fail"
        if via == "draw":
            out, sys.stdout = sys.stdout, open(os.devnull, "w")
            try:
                img.draw(scroll=bool(scroll), check_size=bool(check))
            finally:
                sys.stdout.close()
                sys.stdout = out
            return "err render-did-not-fail"
        f = _raising_renderer if fail == "renderer" else (lambda im: img._size)
        seen = img._renderer(f, check_size=bool(check), scroll=bool(scroll))
        return f"rendered {seen[0]} {seen[1]}" if isinstance(seen, tuple) else f"err render-saw {seen!r}"
    finally:
        if moved:
            os.rename(path + ".away", path)


def run_history(d, watch=None):
    """Run the history on a real image; one `obs | size | rendered_size` item per op."""
    if d.get("src") == "file":
        path = os.path.join(tmp_dir(), f"img{next(_COUNTER)}.png")
        with open(path, "wb") as f:
            f.write(png_bytes())
        try:
            apply_env(d)
            img = CLS[d["fam"]].from_file(path)
            img._original_size = (d["ow"], d["oh"])
            try:
                return _run_history(d, img, path, watch)
            finally:
                img.close()
        finally:
            for p in (path, path + ".away"):
                if os.path.exists(p):
                    os.unlink(p)
    apply_env(d)
    return _run_history(d, new_image(d["fam"], d["ow"], d["oh"]), None, watch)


def _run_history(d, img, path, watch):
    apply_env(d)
    term_image.AutoCellRatio.is_supported = None
    out = []
    for o in ([["init"]] if watch is not None else []) + d["ops"]:
        obs = "done"
        try:
            if o[0] == "ss":
                img.set_size(to_py_arg(o[1]), to_py_arg(o[2]), tuple(o[3]))
            elif o[0] == "sd":
                img.size = Size[o[1]]
            elif o[0] == "st":
                img.size = (o[1], o[2])
            elif o[0] == "sw":
                img.width = to_py_arg(o[1])
            elif o[0] == "sh":
                img.height = to_py_arg(o[1])
            elif o[0] == "rs":
                env.set_env(term_size=(o[1], o[2]))
            elif o[0] == "sc":
                env.set_env(cell_size=None if o[1] is None else tuple(o[1]))
            elif o[0] == "sr":
                a = o[1]
                term_image.set_cell_ratio(
                    h2f(a[1]) if a[0] == "v" else bad_ratio_value(a[2]) if a[0] == "bad" else
                    term_image.AutoCellRatio.FIXED if a[0] == "fixed" else term_image.AutoCellRatio.DYNAMIC)
            elif o[0] == "rn":
                seen = img._renderer(lambda im: img._size)
                obs = f"rendered {seen[0]} {seen[1]}" if isinstance(seen, tuple) else f"err render-saw {seen!r}"
            elif o[0] == "rw":
                obs = attempt_render(img, o, path)
        except Exception as e:
            obs = exc_name(e)
        item = (obs, img.size, fmt_pair(lambda: img.rendered_size))
        if watch is not None:
            # what a fresh computation gives for a dynamic size under the environment as it is right now
            fresh = fmt_pair(lambda: img._valid_size(img.size, None)) if isinstance(img.size, Size) else None
            try:
                cr = f2h(float(term_image.get_cell_ratio()))
            except Exception as e:
                cr = exc_name(e)
            snap = {"cols": env.state["term_size"][0], "lines": env.state["term_size"][1],
                    "cell": None if env.state["cell_size"] is None else list(env.state["cell_size"]),
                    "ratio": None if term_image._cell_ratio is None else f2h(float(term_image._cell_ratio))}
            watch.append((o, item + (fresh, cr, snap), img))
        if o[0] != "init":
            out.append(f"{obs} | {fmt_stored(img.size)} | {item[2]}")
    return out


def check_history(d):
    """fixed/manual sizes stay as stored through every resize / cell / ratio change and render;
    dynamic sizes follow the terminal and ratio at every read and render, and stay dynamic."""
    watch = []
    run_history(d, watch)
    # replay the environment on the side to evaluate what a dynamic size must be
    held = Size.FIT
    key = f"hist/{d['fam']}/{d['ow']}x{d['oh']}/" + ";".join(" ".join(str(x) for x in o) for o in d["ops"])[:300]
    prev_rendered = prev_cr = None
    for i, (o, (obs, size, rendered, fresh, cr, snap), img) in enumerate(watch, start=-1):  # -1 = the state before op 0
        if o[0] in ("sw", "sh") and o[1][0] == "int" and o[1][1] >= 1 and not obs.startswith("err") and isinstance(size, tuple):
            # `image.width = v` / `image.height = v`: the other dimension is the aspect-preserving value for the
            # terminal and cell ratio of this moment — also when v equals the dimension the image already had
            dd = dict(snap, fam=d["fam"], ow=d["ow"], oh=d["oh"], frame=[0, -2],
                      w=o[1] if o[0] == "sw" else ["none"], h=o[1] if o[0] == "sh" else ["none"])
            f = check_sizing(dd, size[0], size[1], f"setter/{key}")
            if f is not None:
                f.what = f"op {i} (image.{'width' if o[0] == 'sw' else 'height'} = {o[1][1]}): size is {tuple(size)}: " + f.what
                return f
        if rendered.startswith("ok "):
            rw_, rh_ = (int(x) for x in rendered.split(" ")[1:])
            if rw_ < 1 or rh_ < 1:
                return Failure(f"pos/{key}", f"op {i} ({' '.join(str(x) for x in o[:2])}): rendered_size is ({rw_}, {rh_}), "
                               "not a pair of positive integers")
        if o[0] == "sr" and obs.startswith("err") and prev_cr is not None:
            if cr != prev_cr:
                return Failure(f"rejected-ratio/{key}", f"op {i}: set_cell_ratio({o[1]}) raised {obs[4:]} but the cell ratio "
                               f"changed from {h2f(prev_cr) if len(prev_cr) == 16 else prev_cr} to {h2f(cr) if len(cr) == 16 else cr}")
            if rendered != prev_rendered:
                return Failure(f"rejected-ratio/{key}", f"op {i}: set_cell_ratio({o[1]}) raised {obs[4:]} but rendered_size "
                               f"changed from {prev_rendered} to {rendered}")
        prev_rendered, prev_cr = rendered, cr
        is_set = o[0] in ("ss", "sd", "st", "sw", "sh")
        if is_set and not obs.startswith("err"):
            if o[0] == "sd":
                if size is not Size[o[1]]:
                    return Failure(f"dyn-set/{key}", f"op {i}: size = {o[1]} stored as {size!r}")
            elif o[0] == "st" or (o[0] == "ss" and o[1][0] == "int" and o[2][0] == "int"):
                want = (o[1], o[2]) if o[0] == "st" else (o[1][1], o[2][1])
                if tuple(size) != tuple(want):
                    return Failure(f"manual/{key}", f"op {i}: manual size {want} stored as {size!r}")
            held = size
        else:
            if size != held or type(size) is not type(held):
                what = "a render attempt that " + {"source": "failed in _get_image() (source unreadable)", "renderer": "failed in the renderer",
                                                   "none": "was size-checked"}[o[3]] if o[0] == "rw" else o[0]
                return Failure(f"stable/{key}", f"op {i} ({what}): the size setting changed from "
                               f"{getattr(held, 'name', held)!r} to {getattr(size, 'name', size)!r}")
        if isinstance(held, tuple):
            if rendered != f"ok {held[0]} {held[1]}":
                return Failure(f"stable/{key}", f"op {i} ({o[0]}): fixed size {held} but rendered_size {rendered}")
            if (o[0] == "rn" or (o[0] == "rw" and obs.startswith("rendered"))) and obs != f"rendered {held[0]} {held[1]}":
                return Failure(f"stable/{key}", f"op {i}: fixed size {held} but the renderer ran with {obs}")
        else:
            if fresh is not None and fresh.startswith("ok") and rendered != fresh:
                return Failure(f"follows/{key}", f"op {i} ({o[0]}): dynamic {held.name}: rendered_size is {rendered} but a fresh "
                               f"computation for the current terminal and cell ratio gives {fresh}")
            if o[0] in ("rn", "rw") and obs.startswith("rendered") and "rendered " + rendered[3:] != obs:
                return Failure(f"follows/{key}", f"op {i}: dynamic {held.name}: renderer ran with {obs}, rendered_size is {rendered}")
    # the dynamic values themselves are judged by check_sizing at the end state
    return None


def sweep(rng, n, small):
    """targeted search on the real code: small exhaustive-ish neighbourhood, oracle only"""
    out = []
    ratios = [0.5, 0.45, 1.0, 1 / 3, 0.25, 2.0, 0.1, 3.0]
    for i in range(n):
        fam = rng.choice("tg")
        d = {"fam": fam, "cols": rng.randint(1, 12), "lines": rng.randint(1, 12),
             "cell": None if fam == "t" else [rng.randint(1, 6), rng.randint(1, 8)],
             "ratio": f2h(rng.choice(ratios)) if fam == "t" else None,
             "ow": rng.randint(1, 40), "oh": rng.randint(1, 40),
             "frame": rng.choice([[0, 0], [0, -2], [rng.randint(1, 12), rng.randint(1, 12)]])}
        if not small or rng.random() < 0.3:
            d["ow"], d["oh"] = rdim(rng), rdim(rng)
            d["cols"], d["lines"] = rterm(rng), rterm(rng)
        mode = rng.choice(["FIT", "AUTO", "ORIGINAL", "FIT_TO_WIDTH", "W", "H"])
        if mode == "W":
            d["w"], d["h"] = ["int", rng.randint(1, 30)], ["none"]
        elif mode == "H":
            d["w"], d["h"] = ["none"], ["int", rng.randint(1, 30)]
        else:
            d["w"], d["h"] = ["sz", mode], ["none"]
        apply_env(d)
        img = new_image(fam, d["ow"], d["oh"])
        try:
            w, h = img._valid_size(to_py_arg(d["w"]), to_py_arg(d["h"]), tuple(d["frame"]))
        except Exception as e:
            f = Failure(f"raises/{case_key(d)}", f"_valid_size raised {type(e).__name__}: {e}")
        else:
            f = check_sizing(d, w, h, case_key(d))
        if f:
            f.case = valid_case(d, "search")
            out.append(f)
            if len(out) >= 3:
                break
    return out


if __name__ == "__main__":
    fw.main(C04)
