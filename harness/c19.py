#!/venv/bin/python
"""C19 — format specifiers are accepted and interpreted exactly as documented (DESIGN.md §5 C19)."""
from __future__ import annotations

import io
import itertools
import os
import random
import re
import struct
import sys

sys.path.insert(0, os.path.dirname(os.path.abspath(__file__)))
from common import framework as fw  # noqa: E402
from common.framework import Case, Failure, Property  # noqa: E402
from common import env  # noqa: E402

import PIL.Image  # noqa: E402
import term_image  # noqa: E402
import term_image.geometry  # noqa: E402,F401  (env.get_cell_size needs it)
from term_image.exceptions import StyleError  # noqa: E402
from term_image.image import BlockImage, ITerm2Image, KittyImage  # noqa: E402
from term_image.image import common as C  # noqa: E402

BaseImage = C.BaseImage
CLASSES = {"block": BlockImage, "kitty": KittyImage, "iterm2": ITerm2Image}
ARG_ORDER = ["method", "z_index", "mix", "compress"]
# class representatives of every character class the three regexes and the style patterns distinguish
ALPHABET = "<|>017.-^_#aFg+LWAzmc \nx"
STYLE_ALPHABET = "LWAzmc-0159x"
MOD = (1 << 61) - 1


# ---------------------------------------------------------------------------------------------
# canonical formats (exactly the Lean driver's)

def hx(s: str) -> str:
    b = s.encode("utf-8", "surrogatepass")
    return b.hex() if b else "-"


def f64(x: float) -> str:
    return struct.pack(">d", x).hex()


def fmt_optc(c):
    return "-" if c is None else hx(c)


def fmt_alpha(a) -> str:
    if a is None:
        return "none"
    if isinstance(a, float):
        return "thr " + f64(a)
    if isinstance(a, str):
        return "bg " + hx(a)
    return "other " + type(a).__name__


def fmt_argval(v) -> str:
    if isinstance(v, bool):
        return f"b {int(v)}"
    if isinstance(v, int):
        return f"i {v}"
    if isinstance(v, str):
        return "s " + hx(v)
    return "other " + type(v).__name__


def ordered(d: dict) -> dict:
    """the canonical key order (the order the styles' own code inserts them); the generator passes dicts
    in this order so that the first offending argument is the same on both sides"""
    names = [n for n in ARG_ORDER if n in d] + sorted(n for n in d if n not in ARG_ORDER)
    return {n: d[n] for n in names}


def fmt_args(d: dict) -> str:
    names = list(ordered(d))
    return " ".join([str(len(names))] + [f"{n} {fmt_argval(d[n])}" for n in names])


def fmt_result(t) -> str:
    h, w, v, ht, alpha, args = t
    return f"{fmt_optc(h)} {w} {fmt_optc(v)} {ht} {fmt_alpha(alpha)} {fmt_args(args)}"


def fmt_opt_s(s) -> str:
    return "none" if s is None else "some " + hx(s)


def err(e: BaseException) -> str:
    """exception class; the format-specifier error is told apart from the other ValueErrors by its documented
    message (the one the repo's tests match on), so that the error *kind* is compared per string"""
    if isinstance(e, ValueError) and str(e).startswith("Invalid format specifier"):
        return "err ValueError:spec"
    return "err " + type(e).__name__


def cls_char(r: str) -> str:
    return "a" if r.startswith("ok") else {"err StyleError": "s", "err ValueError:spec": "v", "err ValueError": "r"}.get(r, "x")


CLS_NAME = {"v": "ValueError:spec", "r": "ValueError", "s": "StyleError"}


def poly_hash(h: int, s: str) -> int:
    return (h * 1000003 + int.from_bytes(s.encode("utf-8", "surrogatepass") + b"\n", "big")) % MOD


def lean_str(s: str) -> str:
    out = []
    for ch in s:
        if ch == "\\":
            out.append("\\\\")
        elif ch == '"':
            out.append('\\"')
        elif ch == "\n":
            out.append("\\n")
        elif 32 <= ord(ch) < 127:
            out.append(ch)
        else:
            out.append("\\u{%x}" % ord(ch))
    return '"' + "".join(out) + '"'


def lean_chars(s: str) -> str:
    def ch(c):
        return "'\\''" if c == "'" else "'\\\\'" if c == "\\" else f"'{c}'" if 32 <= ord(c) < 127 else "(Char.ofNat %d)" % ord(c)
    return "[" + ", ".join(ch(c) for c in s) + "]"


def lean_int(i: int) -> str:
    return f"({i})" if i < 0 else str(i)


# ---------------------------------------------------------------------------------------------
# the documented grammar, written down independently (oracle only; never used by the model side)

DOC_DEFAULTS = {"z_index": 0, "mix": False, "compress": 4}  # docs: z0, m0, c4
DOC_METHODS = {"kitty": {"L": "lines", "W": "whole"}, "iterm2": {"L": "lines", "W": "whole", "A": "anim"}}
DIGITS = "0123456789"
HEXD = "0123456789abcdefABCDEF"


def doc_style(style: str, t: str):
    """[method][z<int>][m<0|1>][c<digit>] (kitty) / [method][m..][c..] (iterm2); block defines none.
    returns ("ok", explicit kwargs) / ("err", class names allowed)"""
    if style == "block":
        return ("err", {"StyleError"})
    i, n, kw = 0, len(t), {}
    if i < n and t[i] in DOC_METHODS[style]:
        kw["method"] = DOC_METHODS[style][t[i]]
        i += 1
    if style == "kitty" and i < n and t[i] == "z":
        j = i + 1
        if j < n and t[j] == "-":
            j += 1
        k = j
        while k < n and t[k] in DIGITS:
            k += 1
        if k == j:
            return ("err", {"StyleError"})
        kw["z_index"] = int(t[i + 1:k])
        i = k
    if i + 1 < n and t[i] == "m" and t[i + 1] in "01":
        kw["mix"] = t[i + 1] == "1"
        i += 2
    if i + 1 < n and t[i] == "c" and t[i + 1] in DIGITS:
        kw["compress"] = int(t[i + 1])
        i += 2
    if i != n:
        return ("err", {"StyleError"})
    if "z_index" in kw and not -(2 ** 31) < kw["z_index"] < 2 ** 31:
        return ("err", {"ValueError"})
    return ("ok", kw)


def doc_parse(style: str, s: str):
    """[h_align][width][.[v_align][height]][#[threshold|bgcolor]][+style], at least one of
    v_align/height after a dot.  returns ("ok", explicit draw() parameters) / ("err", allowed classes)"""
    bad = ("err", {"ValueError:spec"})  # the format specification itself is violated
    i, n = 0, len(s)
    p = dict(h_align=None, pad_width=0, v_align=None, pad_height=-2, alpha="default", style={})
    if i < n and s[i] in "<|>":
        p["h_align"] = s[i]
        i += 1
    j = i
    while j < n and s[j] in DIGITS:
        j += 1
    if j > i:
        p["pad_width"] = int(s[i:j])
    i = j
    if i < n and s[i] == ".":
        i += 1
        got = False
        if i < n and s[i] in "-^_":
            p["v_align"] = s[i]
            i += 1
            got = True
        j = i
        while j < n and s[j] in DIGITS:
            j += 1
        if j > i:
            p["pad_height"] = int(s[i:j])
            got = True
        i = j
        if not got:
            return bad
    if i < n and s[i] == "#":
        i += 1
        if i < n and s[i] == "#":
            p["alpha"] = "#"
            i += 1
        elif i < n and s[i] == ".":
            j = i + 1
            while j < n and s[j] in DIGITS:
                j += 1
            if j == i + 1:
                return bad
            p["alpha"] = float(s[i:j])
            i = j
        elif i + 6 <= n and all(c in HEXD for c in s[i:i + 6]):
            p["alpha"] = "#" + s[i:i + 6]
            i += 6
        else:
            p["alpha"] = None
    if i == n:
        return ("ok", p)
    if s[i] != "+":
        return bad
    t = s[i + 1:]
    if not t:
        return bad
    r = doc_style(style, t)
    if r[0] == "err":
        # a newline in the style part: the docs do not say which of the two errors it is
        return ("err", r[1] | {"ValueError:spec"}) if "\n" in t else r
    p["style"] = r[1]
    return ("ok", p)


def doc_denote(p: dict, cols: int, lines: int, default_alpha: float):
    """the documented meaning as the tuple `_check_format_spec` must return"""
    w = p["pad_width"] if p["pad_width"] > 0 else max(cols + p["pad_width"], 1)
    h = p["pad_height"] if p["pad_height"] > 0 else max(lines + p["pad_height"], 1)
    alpha = default_alpha if p["alpha"] == "default" else p["alpha"]
    args = {k: v for k, v in p["style"].items() if k == "method" or v != DOC_DEFAULTS[k]}
    return (p["h_align"], w, p["v_align"], h, alpha, args)


# ---------------------------------------------------------------------------------------------
# instrumentation (from outside)

REC: list = []
_orig_gts = C.get_terminal_size


_DEPTH = [0]  # > 0 while inside set_size(): its own terminal-size reads are part of "setsize"


def _gts():
    if not _DEPTH[0]:
        REC.append(("termsize",))
    return _orig_gts()


C.get_terminal_size = _gts

_orig_renderer = BaseImage._renderer
_orig_format_render = BaseImage._format_render


def _renderer(self, renderer, *a, **k):
    REC.append(("renderer",))
    return _orig_renderer(self, renderer, *a, **k)


def _format_render(self, render, h, w, v, ht):
    REC.append(("format_render", h, w, v, ht))
    return _orig_format_render(self, render, h, w, v, ht)


_orig_set_size = BaseImage.set_size
_orig_size_prop = BaseImage.size


def _set_size(self, *a, **k):
    _DEPTH[0] += 1
    try:
        return _orig_set_size(self, *a, **k)
    finally:
        _DEPTH[0] -= 1
        if not _DEPTH[0]:
            REC.append(("setsize", self._size))


def _size_fset(self, value):
    if isinstance(value, C.Size):
        REC.append(("restore", value))
    return _orig_size_prop.fset(self, value)


BaseImage._renderer = _renderer
BaseImage._format_render = _format_render
BaseImage.set_size = _set_size
BaseImage.size = property(_orig_size_prop.fget, _size_fset, doc=_orig_size_prop.__doc__)
for _cls in CLASSES.values():
    def _mk(cls):
        orig = cls._render_image

        def _render_image(self, img, alpha, **kw):
            REC.append(("render_image", alpha, dict((k, v) for k, v in kw.items() if k in ARG_ORDER), self._size))
            return orig(self, img, alpha, **kw)

        cls._render_image = _render_image
    _mk(_cls)

_PIL = PIL.Image.new("RGBA", (6, 6), (10, 200, 30, 255))
_PIL.putpixel((0, 0), (0, 0, 0, 0))
_PIL.putpixel((5, 5), (255, 255, 255, 90))
IMAGES: dict = {}


def image_of(style: str):
    if style not in IMAGES:
        env.set_env(cell_size=(8, 16), name={"kitty": "kitty", "iterm2": "wezterm"}.get(style, ""))
        IMAGES[style] = CLASSES[style](_PIL, width=3)
    return IMAGES[style]


DYN = ["FIT", "AUTO", "ORIGINAL", "FIT_TO_WIDTH"]
SIZE_KINDS = DYN + ["fixedw", "fixedh", "animFIT", "animfixed"]
GLUES = ["format", "fstring", "strformat"]
_GIF = None


def _gif():
    global _GIF
    if _GIF is None:
        frames = [PIL.Image.new("RGB", (6, 6), c) for c in ((200, 10, 10), (10, 10, 200), (10, 200, 10))]
        buf = io.BytesIO()
        frames[0].save(buf, "GIF", save_all=True, append_images=frames[1:], duration=100, loop=0)
        _GIF = PIL.Image.open(io.BytesIO(buf.getvalue()))
    return _GIF


_SUB: dict = {}


def klass(style: str, depth: int = 0):
    """the style class, or an application-defined subclass of it `depth` levels down (defining nothing)"""
    import types
    if (style, depth) not in _SUB:
        _SUB[style, depth] = CLASSES[style] if depth == 0 else types.new_class(f"App{depth}{style.title()}", (klass(style, depth - 1),))
    return _SUB[style, depth]


def make_image(style: str, kind: str, depth: int = 0, seek: int = 1):
    """a fresh instance with the given size setting (dynamic `Size` member / fixed), still or animated"""
    env.set_env(cell_size=(8, 16), name={"kitty": "kitty", "iterm2": "wezterm"}.get(style, ""))
    cls = klass(style, depth)
    if kind.startswith("anim"):
        img = cls(_gif(), width=3) if kind == "animfixed" else cls(_gif())
        img.seek(seek)
        return img
    if kind == "fixedw":
        return cls(_PIL, width=3)
    if kind == "fixedh":
        return cls(_PIL, height=2)
    img = cls(_PIL)
    img.size = getattr(C.Size, kind)
    return img


def size_str(sz) -> str:
    return f"dyn {DYN.index(sz.name)}" if isinstance(sz, C.Size) else f"fixed {sz[0]} {sz[1]}"


def glue_call(glue: str, img, spec: str) -> str:
    """the public ways into `__format__`"""
    if glue == "format":
        return format(img, spec)
    if glue == "fstring":
        return f"{img:{spec}}"
    return "{0:{1}}".format(img, spec)


def full_snapshot(img):
    """everything observable about the instance and the class-level settings of its class"""
    cls = type(img)
    st = {"vars": snapshot(img), "size": size_str(img._size), "frame": img.tell(), "closed": img.closed}
    for k in cls.__mro__:
        if k is object:
            continue
        st[k.__name__] = {n: repr(v) for n, v in vars(k).items()
                          if n.startswith("_") and not n.startswith("__") and isinstance(v, (int, float, str, bool, type(None), tuple))}
    st["cell_ratio"] = repr(getattr(term_image, "_cell_ratio", None))
    return st


def snapshot(img):
    return {k: (v if isinstance(v, (int, float, str, tuple, type(None), bool)) else id(v)) for k, v in vars(img).items()}


def run_recorded(thunk):
    """-> (events, 'ok <actual call parameters>' | 'err X', returned/printed string or None)"""
    REC.clear()
    out = None
    try:
        out = thunk()
        res = None
    except (ValueError, StyleError, TypeError, RecursionError, AttributeError, KeyError) as e:
        res = err(e)
    rec = list(REC)
    REC.clear()
    evs = []
    for r in rec:
        if r[0] == "termsize" and "termsize" not in evs and "render" not in evs:
            evs.append("termsize")
        if r[0] == "renderer" and "render" not in evs:
            evs.append("render")
    if res is None:
        ri = [r for r in rec if r[0] == "render_image"]
        fr = [r for r in rec if r[0] == "format_render"]
        if len(ri) != 1 or len(fr) != 1:
            res = f"ok calls render_image={len(ri)} format_render={len(fr)}"
        else:
            res = "ok " + fmt_result((*fr[0][1:], ri[0][1], ri[0][2]))
    return evs, res, out


def parse_args_tokens(toks):
    """inverse of fmt_args for the generator's own lines"""
    n = int(toks[0])
    d, i = {}, 1
    for _ in range(n):
        name, k, v = toks[i], toks[i + 1], toks[i + 2]
        d[name] = (v == "1") if k == "b" else int(v) if k == "i" else bytes.fromhex(v if v != "-" else "").decode()
        i += 3
    return d


# ---------------------------------------------------------------------------------------------

class C19(Property):
    id = "C19"
    lean_props = ["TIV.C19.Props"]
    driver = "drv_c19"
    partial = ("CPython `re` (the three module regexes and the style patterns are re-expressed as recognisers and "
               "validated against `re` exhaustively up to a length bound), CPython `float()`/`int()` on digit strings, "
               "the render itself (Pillow, zlib); style patterns are compiled without re.ASCII: inputs are ASCII")
    assumptions = [
        "inputs to the kitty style part are ASCII (its \\d is Unicode-aware; the documented grammar is silent on non-ASCII digits)",
        "float('.ddd') < 1.0 (fails only from 17 nines on: '.99999999999999999' rounds to 1.0)",
        "digit strings shorter than CPython's int-conversion limit (4300 digits)",
    ]
    quick_cases = 9000
    thorough_cases = 60000
    rule = ("a case is one driver request: a single specifier (random sentence / near-sentence of the documented grammar, "
            "seeded by VERIF_SEED) or a sweep = every string prefix+t, t of a fixed length over the class-representative "
            "alphabet; non-trivial = reaches past the first branch of the function it exercises (a sweep is always "
            "non-trivial); distinct by the hash of the request line")

    # -- translator -------------------------------------------------------------------
    def gen_constants(self):
        def pat(p):
            return lean_str(p.pattern), int(p.flags)

        fs, ff = pat(C._FORMAT_SPEC)
        ns, nf = pat(C._NO_VERTICAL_SPEC)
        as_, af = pat(C._ALPHA_BG_FORMAT)
        lines = ["/-! GENERATED by harness/c19.py from the imported package — do not edit -/",
                 "namespace TIV.C19.Generated",
                 f"def formatSpecSource : String := {fs}", f"def formatSpecFlags : Nat := {ff}",
                 f"def noVerticalSource : String := {ns}", f"def noVerticalFlags : Nat := {nf}",
                 f"def alphaBgSource : String := {as_}", f"def alphaBgFlags : Nat := {af}",
                 f"def reASCII : Nat := {int(re.ASCII)}", f"def reDOTALL : Nat := {int(re.DOTALL)}",
                 f"def formatSpecGroups : Nat := {C._FORMAT_SPEC.groups}"]
        for name, cls in CLASSES.items():
            pats = list(getattr(cls, "_FORMAT_SPEC", ()))
            lines.append(f"def {name}Sources : List String := [{', '.join(lean_str(p.pattern) for p in pats)}]")
            lines.append(f"def {name}Flags : List Nat := [{', '.join(str(int(p.flags)) for p in pats)}]")
            lines.append(f"def {name}PatGroups : List Nat := [{', '.join(str(p.groups) for p in pats)}]")
            # which classes of the MRO define the style-spec check (the `super()` chain)
            chain = [k.__name__ for k in cls.__mro__ if "_check_style_format_spec" in vars(k)]
            lines.append(f"def {name}Chain : List String := [{', '.join(lean_str(c) for c in chain)}]")
            own = [k.__name__ for k in cls.__mro__ if "_check_format_spec" in vars(k) or "__format__" in vars(k)]
            lines.append(f"def {name}FormatOwners : List String := [{', '.join(lean_str(c) for c in own)}]")
            sa = vars(cls).get("_style_args", {})
            lines.append(f"def {name}ArgNames : List String := [{', '.join(lean_str(n) for n in sa)}]")
            lines.append(f"def {name}ArgDefaults : List String := [{', '.join(lean_str(repr(sa[n][0])) for n in sa)}]")
            probes = {"z_index": [-(2 ** 31) - 1, -(2 ** 31), -(2 ** 31) + 1, -1, 0, 1, 2 ** 31 - 1, 2 ** 31, 2 ** 31 + 1],
                      "compress": [-1, 0, 1, 4, 9, 10]}
            for an, vals in probes.items():
                if an in sa:
                    items = ", ".join(f"({lean_int(v)}, {'true' if sa[an][2][0](v) else 'false'})" for v in vals)
                else:
                    items = ""
                lines.append(f"def {name}Probe_{an} : List (Int × Bool) := [{items}]")
            mvals = ["lines", "whole", "anim", "LINES", "Whole", "aNiM", "x", ""]
            items = ", ".join(f"({lean_chars(v)}, {'true' if sa['method'][2][0](v) else 'false'})" for v in mvals) if "method" in sa else ""
            lines.append(f"def {name}Probe_method : List (List Char × Bool) := [{items}]")
        from term_image.image import iterm2 as I2, kitty as KT
        lines.append(f"def kittyMethodNames : List (List Char) := [{lean_chars(KT.LINES)}, {lean_chars(KT.WHOLE)}]")
        lines.append(f"def iterm2MethodNames : List (List Char) := [{lean_chars(I2.LINES)}, {lean_chars(I2.WHOLE)}, {lean_chars(I2.ANIM)}]")
        lines.append(f"def alphaThresholdBits : Nat := 0x{f64(C._ALPHA_THRESHOLD)}")
        lines.append("end TIV.C19.Generated")
        return {"TIV/C19/Generated.lean": "\n".join(lines) + "\n"}

    # -- generator --------------------------------------------------------------------
    def rand_style(self, rng, style):
        t = ""
        if rng.random() < 0.5:
            t += rng.choice("LWA" if style != "kitty" or rng.random() < 0.1 else "LW")
        if style != "iterm2" or rng.random() < 0.1:
            if rng.random() < 0.5:
                z = rng.choice([0, 1, 5, 2 ** 31 - 1, 2 ** 31, -(2 ** 31), -(2 ** 31) + 1, rng.randrange(-10 ** 11, 10 ** 11),
                                rng.randrange(-99, 99)])
                t += "z" + rng.choice(["", "", "0", "-"] if z >= 0 else [""]) + str(z) if rng.random() < 0.9 else "z-"
        if rng.random() < 0.5:
            t += "m" + rng.choice("0101012")
        if rng.random() < 0.5:
            t += "c" + rng.choice(DIGITS)
        return t

    def rand_alpha(self, rng):
        """what follows the `#`: nothing / `#` / a threshold / a colour — thresholds and colours made of decimal
        digits only sit next to each other, since only the leading `.` and the length tell them apart"""
        r = rng.random()
        if r < 0.15:
            return ""
        if r < 0.25:
            return "#"
        if r < 0.55:  # thresholds
            return "." + rng.choice(["5", "0", "123456", "999", "1568627450980392", "000000", "102030",
                                     "".join(rng.choice(DIGITS) for _ in range(rng.choice([1, 2, 3, 6, 6, 8, 17, 25])))])
        q = rng.random()
        if q < 0.4:  # colours whose six hex digits are all decimal digits
            return rng.choice(["102030", "000000", "999999", "123456", "".join(rng.choice(DIGITS) for _ in range(6))])
        if q < 0.6:  # mixed case, at least one letter
            c = [rng.choice(HEXD) for _ in range(6)]
            c[rng.randrange(6)] = rng.choice("abcdefABCDEF")
            return "".join(c)
        if q < 0.85:
            return "".join(rng.choice(HEXD) for _ in range(6))
        return "".join(rng.choice(HEXD if rng.random() < 0.5 else DIGITS) for _ in range(rng.choice([5, 7, 1, 3])))  # wrong length

    def rand_sentence(self, rng, style, small=False):
        s = ""
        if rng.random() < 0.5:
            s += rng.choice("<|>")
        if rng.random() < 0.5:
            s += rng.choice(["0", "00", "1", "7", "12", "80", "81", "079"] + ([] if small else ["200", str(rng.randrange(10 ** 12))]))
        if rng.random() < 0.6:
            s += "."
            r = rng.random()
            if r < 0.45:
                s += rng.choice("-^_")
            if r > 0.3 or rng.random() < 0.1:
                s += rng.choice(["0", "1", "3", "28", "30", "31", "007"] + ([] if small else [str(rng.randrange(10 ** 9))]))
        if rng.random() < 0.5:
            s += "#" + self.rand_alpha(rng)
        if rng.random() < (0.15 if style == "block" else 0.6):
            s += "+" + self.rand_style(rng, style)
        return s

    def mutate(self, rng, s):
        if not s or rng.random() < 0.2:
            return s + rng.choice(ALPHABET)
        i = rng.randrange(len(s))
        r = rng.random()
        if r < 0.3:
            return s[:i] + s[i + 1:]
        if r < 0.6:
            return s[:i] + rng.choice(ALPHABET + ".#+.#+") + s[i:]
        if r < 0.8:
            return s[:i] + rng.choice(ALPHABET) + s[i + 1:]
        j = rng.randrange(len(s))
        i, j = min(i, j), max(i, j)
        return s[:i] + s[j:] + s[i:j]

    def sweeps(self, tier):
        lmax = 5 if tier == "thorough" else 4
        for style in CLASSES:
            for L in range(0, lmax + 1):
                pl = max(0, L - 3)
                for pre in itertools.product(ALPHABET, repeat=pl):
                    pre = "".join(pre)
                    # the style only enters after a '+': longer sweeps of '+'-free prefixes once (block)
                    if pl and style != "block" and "+" not in pre and L == 5 and pre[0] not in "<.#0":
                        continue
                    yield Case(f"sweep {style} {hx(ALPHABET)} {hx(pre)} {L - pl}",
                               {"op": "sweep", "style": style, "alphabet": ALPHABET, "prefix": pre, "k": L - pl}, f"sweep-{style}-{L}")
        # the same sweep on application-defined subclasses (1 and 2 levels below the style class)
        for style in CLASSES:
            for depth, lm in ((1, lmax - 1), (2, lmax - 2)):
                for L in range(0, lm + 1):
                    pl = max(0, L - 3)
                    for pre in itertools.product(ALPHABET, repeat=pl):
                        pre = "".join(pre)
                        if pl and "+" not in pre and pre[0] not in "<.":
                            continue
                        yield Case(f"sweepk {style} {depth} {hx(ALPHABET)} {hx(pre)} {L - pl}",
                                   {"op": "sweep", "style": style, "depth": depth, "alphabet": ALPHABET, "prefix": pre, "k": L - pl},
                                   f"sweepk-{style}-{depth}-{L}")
        smax = 6 if tier == "thorough" else 4
        for style in CLASSES:
            for L in range(0, smax + 1):
                pl = max(0, L - 3)
                for pre in itertools.product(STYLE_ALPHABET, repeat=pl):
                    pre = "".join(pre)
                    yield Case(f"ssweep {style} {hx(STYLE_ALPHABET)} {hx(pre)} {L - pl}",
                               {"op": "ssweep", "style": style, "alphabet": STYLE_ALPHABET, "prefix": pre, "k": L - pl}, f"ssweep-{style}-{L}")

    def single(self, op, style, s, cols=80, lines=30, kind=None, nontrivial=True):
        d = {"op": op, "style": style, "spec": s, "cols": cols, "lines": lines}
        if op in ("check", "format"):
            line = f"{op} {style} {cols} {lines} {hx(s)}"
        elif op in ("fmt", "nov", "abg", "float"):
            line = f"{op} {hx(s)}"
        else:
            line = f"{op} {style} {hx(s)}"
        return Case(line, d, kind or op, nontrivial)

    def fentry_case(self, style, size_kind, glue, s, cols, lines, kind="fentry", depth=0):
        """`__format__` through the public glue on a fresh instance with the given size setting; the way the
        dynamic size resolves is taken from the real code (it is a parameter of the model)"""
        env.set_env(term_size=(cols, lines))
        img = make_image(style, size_kind, depth)
        sz, frame = img._size, img.tell()
        rc = rl = 0
        if isinstance(sz, C.Size):
            tmp = make_image(style, size_kind, depth)
            _orig_set_size(tmp, sz)
            rc, rl = tmp._size
        line = f"fentry {style} {depth} {cols} {lines} {size_str(sz)} {frame} {rc} {rl} {glue} {hx(s)}"
        return Case(line, {"op": "fentry", "style": style, "spec": s, "cols": cols, "lines": lines,
                           "size_kind": size_kind, "glue": glue, "depth": depth}, kind, nontrivial=True)

    def citer_case(self, style, depth, s, changed, cols=80, lines=30, kind="citer"):
        """a caching iterator over the 3-frame image through 1 + len(changed) loops, size changed where flagged"""
        bits = " ".join([str(len(changed))] + [str(int(c)) for c in changed])
        return Case(f"citer {style} {depth} {cols} {lines} 3 {bits} {hx(s)}",
                    {"op": "citer", "style": style, "depth": depth, "spec": s, "cols": cols, "lines": lines,
                     "changed": [bool(c) for c in changed]}, kind, nontrivial=True)

    def centry_case(self, entry, style, depth, s, cols=80, lines=30, kind="centry"):
        """one specifier through one entry point on (an instance of) the style class or a subclass of it"""
        return Case(f"centry {entry} {style} {depth} {cols} {lines} {hx(s)}",
                    {"op": "centry", "entry": entry, "style": style, "depth": depth, "spec": s, "cols": cols, "lines": lines},
                    f"{kind}-{entry}", nontrivial=True)

    def draw_case(self, rng, style, cols, lines, p, kind="draw"):
        """explicit parameters -> a `draw` request"""
        a = p["alpha"]
        alpha = "default" if a == "default" else "none" if a is None else ("thr " + hx(p["thr_digits"])) if isinstance(a, float) else "bg " + hx(a)
        line = (f"draw {style} {cols} {lines} {fmt_opt_s(p['h_align'])} {p['pad_width']} {fmt_opt_s(p['v_align'])} "
                f"{p['pad_height']} {alpha} {fmt_args(p['style'])}")
        d = {"op": "draw", "style": style, "cols": cols, "lines": lines,
             "p": {**p, "alpha": "default" if a == "default" else a}}
        return Case(line, d, kind)

    def generate(self, rng: random.Random, tier: str):
        yield from self.sweeps(tier)
        # the D3 family and the repo's own literals, always
        fixed = [".##", "<.##", ".+L", ".##+L", "5.#+W", ".", "1.", ".#", ".#.5", ".#ffffff", "+", "20+", ".^+", "#+",
                 "#.", "#.99999999999999999", "#.1568627450980392", "|200.^70#ffffff", "1.1#", "+z-2147483648",
                 "+z2147483647", "+z-2147483647", "+z2147483648", "+Wz1m1c9", "+Am1c0", "+L\n", "+\n", "\n", "1\n",
                 # colours of decimal digits only next to thresholds
                 "#102030", "#000000", "#999999", "#123456", "<5.^2#102030", "#.5", "#.0", "#.123456", "#.102030",
                 "#12345a", "#A0b1C2", "#a0B1c2", "##", "#12345", "#1234567", "#.", "#1.5", "#102030+L"]
        for s in fixed:
            for style in CLASSES:
                yield self.single("check", style, s, kind="fixed")
                yield self.single("format", style, s, kind="fixed-format")
        # the public glue on instances of every size setting: accepted, main-grammar rejects, style-part rejects
        fspecs = {"block": ["", "<.^", "7.3#", ".", "1.", ".##", "x", "+", "+L", "2+z1"],
                  "kitty": ["", "|.-#", "+Wz1m1c9", ".", "#.", ".+L", "+x", "+z1L", "1+m2", "+z2147483648"],
                  "iterm2": ["", ">9.2##", "+Am1c0", "1.", "<^", ".##+L", "+z1", "+LL", "#+c", "5+m01"]}
        n = 0
        for style in CLASSES:
            for kind in SIZE_KINDS:
                for s in fspecs[style]:
                    n += 1
                    if tier == "quick" and kind.startswith("anim") and n % 2:
                        continue
                    yield self.fentry_case(style, kind, GLUES[n % 3], s, *[(40, 20), (24, 12), (80, 30)][n % 3], kind="fentry-fixed")
        # every entry point x the style class and subclasses of it x valid/invalid style parts
        especs = {"block": ["", "<5.^2#", ".", "+L", "1+x"],
                  "kitty": ["+L", "+z5", "<10.^4#+Wz-1m1c9", "5.5+c9", "+x", "+xL", "+ m1", "+z1m1", "+c1m0", "+m1z1", "+z2147483648", ".", ".+L", "#.5+m0"],
                  "iterm2": ["+A", "+m1", ">10.^4##+Wm1c9", "5.5+c9", "+x", "+xL", "+ m1", "+z1m1", "+c1m0", "+LL", "+Lx", "1.", ".##+L", "#+c0"]}
        for style in CLASSES:
            for depth in (0, 1, 2):
                for entry in ("check", "format", "iter", "urwid"):
                    for s in especs[style]:
                        yield self.centry_case(entry, style, depth, s, kind="centry-fixed")
        ispecs = {"block": ["", "<5.^2#", ".", "+L"],
                  "kitty": ["+Wz5m1c9", "+L", "<10.^4#+Wz-1m1c9", "5.5+c9", "+m1", "", "+x", "+z2147483648"],
                  "iterm2": ["+Wm1c9", "+A", ">10.^4##+Lm1c0", "5.5+c9", "+m1", "", "+x", "1."]}
        for style in CLASSES:
            for j, s in enumerate(ispecs[style]):
                for changed in ([True], [False], [True, True], [False, True]):
                    yield self.citer_case(style, j % 3 if changed == [True] else 0, s, changed, kind="citer-fixed")
        for style in CLASSES:
            for i, s in enumerate(fspecs[style]):
                for depth in (1, 2):
                    kind = SIZE_KINDS[(i + depth) % len(SIZE_KINDS)]
                    yield self.fentry_case(style, kind, GLUES[i % 3], s, 40, 20, kind="fentry-sub", depth=depth)
        while True:
            style = rng.choice(["block", "kitty", "kitty", "iterm2", "iterm2"])
            if rng.random() < 0.05:
                s = self.rand_sentence(rng, style, small=True)
                if rng.random() < 0.5:
                    s = self.mutate(rng, s)
                big = any(m.end() - m.start() >= 3 and not (s[:m.start()].endswith("#") or s[:m.start()].endswith("#."))
                          for m in re.finditer(r"[0-9]+", s))
                entry = rng.choice(["check", "format", "iter", "urwid", "citer"])
                if entry == "citer" and not big:
                    yield self.citer_case(style, rng.choice([0, 0, 1, 2]), s, [rng.random() < 0.6 for _ in range(rng.choice([1, 2]))],
                                          *rng.choice([(80, 30), (40, 20)]))
                    continue
                yield self.centry_case("check" if big or entry == "citer" else entry, style, rng.choice([0, 1, 1, 2]), s,
                                       *rng.choice([(80, 30), (40, 20), (24, 12)]))
                continue
            if rng.random() < 0.04:
                s = self.rand_sentence(rng, style, small=True)
                if rng.random() < 0.6:
                    s = self.mutate(rng, s) if rng.random() < 0.5 else rng.choice(fspecs[style])
                big = any(m.end() - m.start() >= 3 and not (s[:m.start()].endswith("#") or s[:m.start()].endswith("#."))
                          for m in re.finditer(r"[0-9]+", s))
                if not big:
                    yield self.fentry_case(style, rng.choice(SIZE_KINDS), rng.choice(GLUES), s,
                                           *rng.choice([(40, 20), (24, 12), (30, 30), (80, 30)]), kind="fentry",
                                           depth=rng.choice([0, 0, 1, 2]))
                continue
            cols, lines = rng.choice([(80, 30), (80, 30), (1, 1), (2, 2), (3, 3), (200, 70), (rng.randrange(1, 300), rng.randrange(1, 100))])
            r = rng.random()
            if r < 0.40:
                s = self.rand_sentence(rng, style)
                kind = "check-sentence"
                if rng.random() < 0.5:
                    for _ in range(rng.choice([1, 1, 2, 3])):
                        s = self.mutate(rng, s)
                    kind = "check-near"
                if style != "kitty" and rng.random() < 0.05:
                    i = rng.randrange(len(s) + 1)
                    s = s[:i] + rng.choice("٣é５٠ ") + s[i:]
                    kind = "check-nonascii"
                yield self.single("check", style, s, cols, lines, kind, nontrivial=len(s) > 0)
                if rng.random() < 0.3:
                    yield self.single("fmt", style, s, kind="fmt")
                    yield self.single("nov", style, s, kind="nov")
            elif r < 0.55:
                t = self.rand_style(rng, style)
                kind = "style-sentence"
                if rng.random() < 0.5:
                    t = self.mutate(rng, t)
                    kind = "style-near"
                yield self.single("stylespec", style, t, kind=kind, nontrivial=len(t) > 0)
                if style != "block":
                    yield self.single("getstyle", style, t, kind="getstyle", nontrivial=len(t) > 0)
            elif r < 0.70:
                s = self.rand_sentence(rng, style, small=True)
                kind = "format-sentence"
                if rng.random() < 0.4:
                    s = self.mutate(rng, s)
                    kind = "format-near"
                # never ask the real code to build a gigantic padding: long digit runs only as colour / threshold
                big = any(m.end() - m.start() >= 4 and not (s[:m.start()].endswith("#") or s[:m.start()].endswith("#."))
                          for m in re.finditer(r"[0-9]+", s))
                yield self.single("check" if big else "format", style, s, cols, lines, kind, nontrivial=len(s) > 0)
            elif r < 0.80:
                # draw() with the explicit parameters of a random sentence, or with perturbed ones
                s = self.rand_sentence(rng, style, small=True)
                pr = doc_parse(style, s)
                if pr[0] != "ok":
                    continue
                p = pr[1]
                if isinstance(p["alpha"], float):
                    m = re.search(r"#(\.\d+)", s)
                    p["thr_digits"] = m.group(1)[1:]
                    if p["alpha"] >= 1.0:
                        continue
                kind = "draw-sentence"
                q = rng.random()
                if q < 0.1:
                    p["h_align"] = rng.choice(["left", "center", "right", "x", ""])
                    kind = "draw-name"
                elif q < 0.2:
                    p["v_align"] = rng.choice(["top", "middle", "bottom", "y"])
                    kind = "draw-name"
                elif q < 0.3:
                    p["pad_width"] = rng.choice([cols, cols + 1, -1, -cols, -cols - 5])
                    kind = "draw-width"
                elif q < 0.4:
                    p["pad_height"] = rng.choice([lines, lines + 1, -1, -lines, -lines - 5, 0])
                    kind = "draw-height"
                elif q < 0.5:
                    p["alpha"] = rng.choice(["#", "#12345", "#1234567", "#ggggggg", "ffffff", "#abcdef", ""])
                    kind = "draw-bg"
                elif q < 0.6:
                    p["style"] = dict(p["style"])
                    p["style"][rng.choice(["z_index", "compress", "mix", "method", "bogus"])] = rng.choice(
                        [0, 4, 9, 10, -1, True, False, "lines", "WHOLE", "anim", "x", 2 ** 31, -(2 ** 31)])
                    p["style"] = ordered(p["style"])
                    kind = "draw-style"
                yield self.draw_case(rng, style, cols, lines, p, kind)
            elif r < 0.88:
                d = "".join(rng.choice(DIGITS) for _ in range(rng.choice([1, 2, 3, 5, 8, 15, 16, 17, 18, 20, 30, 40])))
                if rng.random() < 0.3:
                    d = rng.choice(["9" * rng.randrange(1, 25), "0" * rng.randrange(1, 25) + "1", "5", "05", "1568627450980392",
                                    "0" * 330 + "1", "0" * 320 + "49", "0" * 323 + "2470328229206232720",
                                    "0" * 323 + "2470328229206232721", "0" * 307 + "22250738585072014"])
                yield self.single("float", "block", d, kind="float")
            elif r < 0.94:
                h = rng.choice([None, "<", "|", ">", "left", "center", "right", "", "x", "<<", "^"])
                v = rng.choice([None, "^", "-", "_", "top", "middle", "bottom", "", "y", "<"])
                w = rng.choice([0, 1, -1, cols, -cols, -cols + 1, -cols - 1, rng.randrange(-400, 400)])
                ht = rng.choice([-2, 0, 1, lines, -lines, -lines + 1, -lines - 1, rng.randrange(-200, 200)])
                yield Case(f"formatting {cols} {lines} {fmt_opt_s(h)} {w} {fmt_opt_s(v)} {ht}",
                           {"op": "formatting", "cols": cols, "lines": lines, "h": h, "w": w, "v": v, "ht": ht}, "formatting")
            elif r < 0.97:
                s = rng.choice(["#", "", "#" + "".join(rng.choice(HEXD + "g") for _ in range(rng.choice([5, 6, 6, 6, 7]))), "##", "#.5", "ffffff", "#ffffff\n"])
                yield self.single("abg", "block", s, kind="abg")
            else:
                args = {}
                for n in rng.sample(["method", "z_index", "mix", "compress", "bogus"], rng.randrange(0, 4)):
                    args[n] = rng.choice({"method": ["lines", "whole", "anim", "LINES", "x"],
                                          "z_index": [0, 1, -1, 2 ** 31 - 1, 2 ** 31, -(2 ** 31), -(2 ** 31) + 1, True],
                                          "mix": [True, False], "compress": [0, 4, 9, 10, -1, True, False], "bogus": [1]}[n])
                args = ordered(args)
                yield Case(f"styleargs {style} {fmt_args(args)}", {"op": "styleargs", "style": style, "args": args}, "styleargs")

    # -- implementation ---------------------------------------------------------------
    def check_one(self, cls, s):
        try:
            return "ok " + fmt_result(cls._check_format_spec(s))
        except (ValueError, StyleError, RecursionError, TypeError, AttributeError, KeyError) as e:
            return err(e)

    def stylespec_one(self, cls, s):
        try:
            return "ok " + fmt_args(cls._check_style_format_spec(s, s))
        except (ValueError, StyleError) as e:
            return err(e)

    def impl(self, case: Case) -> str:
        d = case.data
        op = d["op"]
        if op in ("sweep", "ssweep"):
            env.set_env(term_size=(80, 30))
            cls = klass(d["style"], d.get("depth", 0))
            one = self.check_one if op == "sweep" else self.stylespec_one
            classes, h = [], 0
            for t in itertools.product(d["alphabet"], repeat=d["k"]):
                r = one(cls, d["prefix"] + "".join(t))
                classes.append(cls_char(r))
                h = poly_hash(h, r)
            return f"ok {''.join(classes)} {h}"
        s = d.get("spec")
        if op == "fmt":
            m = C._FORMAT_SPEC.fullmatch(s)
            if not m:
                return "none"
            _, h, w, g4, va, ht, g7, g8, _, st = m.groups()
            vert = "none" if g4 is None else f"some {fmt_optc(va)} {hx(ht or '')}"
            if g7 is None:
                alpha = "none"
            elif g8 is None:
                alpha = "disabled"
            elif g8 == "#":
                alpha = "termbg"
            elif g8.startswith("."):
                alpha = "thr " + hx(g8[1:])
            else:
                alpha = "hex " + hx(g8)
            return f"ok {fmt_optc(h)} {hx(w or '')} {vert} {alpha} {fmt_opt_s(st)}"
        if op == "nov":
            return f"ok {int(bool(C._NO_VERTICAL_SPEC.fullmatch(s)))}"
        if op == "abg":
            return f"ok {int(bool(C._ALPHA_BG_FORMAT.fullmatch(s)))}"
        if op == "float":
            return "ok " + f64(float("." + s))
        if op == "formatting":
            env.set_env(term_size=(d["cols"], d["lines"]))
            try:
                h, w, v, ht = BaseImage._check_formatting(d["h"], d["w"], d["v"], d["ht"])
                return f"ok {fmt_optc(h)} {w} {fmt_optc(v)} {ht}"
            except (ValueError, TypeError) as e:
                return err(e)
        cls = CLASSES[d["style"]]
        if op == "getstyle":
            try:
                parent, fields = cls._get_style_format_spec(s, s)
                return "ok " + hx(parent) + " " + " ".join([str(len(fields))] + [fmt_opt_s(f) for f in fields])
            except StyleError as e:
                return err(e)
        if op == "stylespec":
            return self.stylespec_one(cls, s)
        if op == "styleargs":
            try:
                return "ok " + fmt_args(cls._check_style_args(dict(d["args"])))
            except (ValueError, StyleError, TypeError, RecursionError, AttributeError, KeyError) as e:
                return "err ValueError" if isinstance(e, TypeError) else err(e)
        env.set_env(term_size=(d["cols"], d["lines"]))
        if op == "check":
            return self.check_one(cls, s)
        if op == "format":
            img = image_of(d["style"])
            evs, res, _ = run_recorded(lambda: format(img, s))
            return " ".join([str(len(evs))] + evs) + " " + res
        if op == "fentry":
            img = make_image(d["style"], d["size_kind"], d.get("depth", 0))
            return self.run_fentry(img, d["glue"], s)[0]
        if op == "centry":
            return self.run_centry(d)[0]
        if op == "citer":
            return self.run_citer(d)[0]
        if op == "draw":
            img = image_of(d["style"])
            evs, res, _ = self.run_draw(img, d["p"])
            return res
        return "harness-bad-op"

    def run_fentry(self, img, glue, s):
        """-> (canonical line, result, returned string, what was written to stdout)"""
        REC.clear()
        buf = io.StringIO()
        old = sys.stdout
        sys.stdout = buf
        out = None
        try:
            try:
                out = glue_call(glue, img, s)
                res = None
            except (ValueError, StyleError, TypeError, RecursionError, AttributeError, KeyError) as e:
                res = err(e)
        finally:
            sys.stdout = old
        rec = list(REC)
        REC.clear()
        evs, entered = [], False
        for r in rec:
            if r[0] == "termsize":
                if not entered and (not evs or evs[-1] != "termsize"):
                    evs.append("termsize")
            elif r[0] == "renderer":
                entered = True
                evs.append("enter")
            elif r[0] == "setsize":
                evs.append("setsize:%dx%d" % tuple(r[1]) if isinstance(r[1], tuple) else "setsize:" + str(r[1]))
            elif r[0] == "render_image":
                evs.append("render:%dx%d" % tuple(r[3]) if isinstance(r[3], tuple) else "render:" + str(r[3]))
            elif r[0] == "restore":
                evs.append(f"restore:{DYN.index(r[1].name)}")
        if res is None:
            ri = [r for r in rec if r[0] == "render_image"]
            fr = [r for r in rec if r[0] == "format_render"]
            if len(ri) != 1 or len(fr) != 1:
                res = f"ok calls render_image={len(ri)} format_render={len(fr)}"
            else:
                res = "ok " + fmt_result((*fr[0][1:], ri[0][1], ri[0][2]))
        line = " ".join([str(len(evs))] + evs) + " " + res + f" state {size_str(img._size)} {img.tell()}"
        return line, res, out, buf.getvalue()

    def run_centry(self, d):
        """-> (canonical result, first rendered string or None)"""
        entry, style, depth, s = d["entry"], d["style"], d["depth"], d["spec"]
        cls = klass(style, depth)
        if entry == "check":
            return self.check_one(cls, s), None
        if entry == "urwid":
            r = self.run_urwid(d)
            return r[0], r
        REC.clear()
        out = None
        try:
            if entry == "format":
                out = format(make_image(style, "fixedw", depth), s)
            elif entry == "iter":
                it = C.ImageIterator(make_image(style, "animfixed", depth, seek=0), 1, s, False)
                try:
                    out = next(it)
                finally:
                    it.close()
            res = None
        except (ValueError, StyleError, RecursionError, TypeError, AttributeError, KeyError) as e:
            res = err(e)
        rec = list(REC)
        REC.clear()
        if res is None:
            ri = [r for r in rec if r[0] == "render_image"]
            fr = [r for r in rec if r[0] == "format_render"]
            if len(ri) != 1 or len(fr) != 1:
                res = f"ok calls render_image={len(ri)} format_render={len(fr)}"
            else:
                res = "ok " + fmt_result((*fr[0][1:], ri[0][1], ri[0][2]))
        return res, out

    def run_urwid(self, d):
        """UrwidImage(image, spec) -> (canonical result incl. whether the shared z-index pool changed,
        pool before, pool after construction, image snapshot before, after)"""
        import gc
        from term_image.widget import UrwidImage

        def pool():
            return (UrwidImage._ti_next_z_index, tuple(sorted(UrwidImage._ti_free_z_indexes)))

        img = make_image(d["style"], "fixedw", d["depth"])
        gc.collect()
        p0, s0 = pool(), full_snapshot(img)
        w = None
        try:
            w = UrwidImage(img, d["spec"])
            # the widget sets z_index, blend, split_cells itself; sizes are not used
            args = {k: v for k, v in w._ti_style_args.items() if k in ("method", "mix", "compress")}
            res = f"ok {fmt_optc(w._ti_h_align)} * {fmt_optc(w._ti_v_align)} * {fmt_alpha(w._ti_alpha)} {fmt_args(args)}"
        except (ValueError, StyleError, RecursionError, TypeError, AttributeError, KeyError) as e:
            res = err(e)
        gc.collect()
        p1, s1 = pool(), full_snapshot(img)
        del w
        gc.collect()
        REC.clear()
        return res + f" pool {int(p1 != p0)}", p0, p1, s0, s1

    def run_citer(self, d):
        """a caching ImageIterator through 1 + len(changed) loops; the image size is changed before a later loop
        where `changed` says so. -> (canonical: the parameters of every render call made, frames, per-frame format())"""
        style, depth, s, changed = d["style"], d["depth"], d["spec"], d["changed"]
        img = make_image(style, "animfixed", depth, seek=0)
        nf = img.n_frames
        REC.clear()
        frames, refs = [], []
        try:
            it = C.ImageIterator(img, 1 + len(changed), s, True)
        except (ValueError, StyleError, RecursionError, TypeError, AttributeError, KeyError) as e:
            REC.clear()
            return err(e), frames, refs
        rec = []
        try:
            width = 3
            for loop in range(1 + len(changed)):
                if loop and changed[loop - 1]:
                    width += 1
                    _orig_set_size(img, width=width)
                for _ in range(nf):
                    frames.append(next(it))
                    rec += list(REC)
                    REC.clear()
                    if style == "block":  # deterministic text: the frame must be what format() gives right now
                        refs.append(format(img, s))
                        REC.clear()
        finally:
            it.close()
            REC.clear()
        # a completed render = a `_render_image` call followed by its `_format_render`; the probe past the last
        # frame of the first loop (EOFError inside `_render_image`) completes nothing
        seq = [r for r in rec if r[0] in ("render_image", "format_render")]
        ri = [a for a, b in zip(seq, seq[1:]) if a[0] == "render_image" and b[0] == "format_render"]
        fr = [b for a, b in zip(seq, seq[1:]) if a[0] == "render_image" and b[0] == "format_render"]
        rs = ["[" + fmt_result((*f[1:], r[1], r[2])) + "]" for r, f in zip(ri, fr)]
        return "ok " + " ".join([str(len(rs))] + rs), frames, refs

    def oracle_citer(self, d):
        style, depth, s, cols, lines, changed = d["style"], d["depth"], d["spec"], d["cols"], d["lines"], d["changed"]
        env.set_env(term_size=(cols, lines))
        res, frames, refs = self.run_citer(d)
        key = f"itercached/sub{depth}/{style}/{s!r}/{''.join(str(int(c)) for c in changed)}"
        pr = doc_parse(style, s)
        if pr[0] == "err":
            if res.startswith("ok"):
                return Failure(f"accepts-nonsentence/{key}", f"ImageIterator on {klass(style, depth).__name__} accepts the non-sentence {s!r}")
            if res.split(" ")[1] not in pr[1]:
                return Failure(f"error-kind/{key}", f"ImageIterator: rejecting {s!r} raised {res}, documented: {sorted(pr[1])}")
            return None
        if not res.startswith("ok"):
            return Failure(f"rejects-sentence/{key}", f"ImageIterator on {klass(style, depth).__name__}: the sentence {s!r} raised {res}")
        want = "[" + fmt_result(doc_denote(pr[1], cols, lines, 40 / 255)) + "]"
        got = re.findall(r"\[[^\]]*\]", res)
        n_want = 3 * (1 + sum(map(bool, changed)))
        for i, g in enumerate(got):
            if g != want:
                return Failure(f"iter-denotation/{key}", f"render #{i} of a caching ImageIterator(image, {1 + len(changed)}, {s!r}) "
                               f"(3 frames; size changed before loops {[j + 2 for j, c in enumerate(changed) if c]}) used {g}, "
                               f"the specifier denotes {want}")
        if len(got) != n_want:
            return Failure(f"iter-renders/{key}", f"{len(got)} renders, expected {n_want}")
        for i, (a, b) in enumerate(zip(frames, refs)):
            if a != b:
                return Failure(f"iter-output/{key}", f"frame #{i} of the iterator differs from format(image, {s!r}) at that frame and size")
        return None

    def oracle_centry(self, d):
        """every entry point, on the style class and on application subclasses, accepts exactly the documented
        sentences of the style, with the documented denotation, and rejects with the documented error"""
        entry, style, depth, s, cols, lines = d["entry"], d["style"], d["depth"], d["spec"], d["cols"], d["lines"]
        env.set_env(term_size=(cols, lines))
        res, out = self.run_centry(d)
        key = f"{entry}/sub{depth}/{style}/{s!r}"
        if entry == "urwid":
            res, p0, p1, s0, s1 = out
            if s0 != s1:
                return Failure(f"side-effect/{key}", f"UrwidImage(image, {s!r}) changed the image instance")
            if res.startswith("err") and p0 != p1:
                return Failure(f"side-effect/{key}", f"UrwidImage({klass(style, depth).__name__} instance, {s!r}) raised {res.split(' pool')[0]} "
                               f"but changed the z-index pool shared by all widgets: (next, free) {p0} -> {p1}")
            res = res.rsplit(" pool ", 1)[0]
        where = f"{entry} on {klass(style, depth).__name__}"
        if entry != "urwid":
            f = self.oracle_spec(style, s, cols, lines, res, where)
            if f:
                f.key = f.key.replace(f"{style}/", f"{entry}/sub{depth}/{style}/", 1)
                return f
            if entry == "iter" and style == "block" and res.startswith("ok"):
                ref = format(make_image(style, "animfixed", depth, seek=0), s)
                REC.clear()
                if out != ref:
                    return Failure(f"iter-output/{key}", f"first frame of ImageIterator(image, 1, {s!r}) differs from format(image, {s!r})")
            return None
        pr = doc_parse(style, s)
        if pr[0] == "err":
            if res.startswith("ok"):
                return Failure(f"accepts-nonsentence/{key}", f"{where} accepts the non-sentence {s!r}: {res}")
            if res.split(" ")[1] not in pr[1]:
                return Failure(f"error-kind/{key}", f"{where}: rejecting {s!r} raised {res}, documented: {sorted(pr[1])}")
            return None
        if not res.startswith("ok"):
            return Failure(f"rejects-sentence/{key}", f"{where}: {s!r} is a sentence of the documented grammar but raised {res}")
        h, _, v, _, alpha, args = doc_denote(pr[1], cols, lines, 40 / 255)
        args = {k: x for k, x in args.items() if k != "z_index"}
        want = f"ok {fmt_optc(h)} * {fmt_optc(v)} * {fmt_alpha(alpha)} {fmt_args(args)}"
        if res != want:
            return Failure(f"denotation/{key}", f"{where}: {s!r} denotes {want}, the widget holds {res}")
        return None

    def run_draw(self, img, p):
        alpha = C._ALPHA_THRESHOLD if p["alpha"] == "default" else p["alpha"]
        buf = io.StringIO()
        old = sys.stdout
        sys.stdout = buf
        try:
            evs, res, _ = run_recorded(lambda: img.draw(p["h_align"], p["pad_width"], p["v_align"], p["pad_height"], alpha,
                                                        animate=False, check_size=False, **p["style"]))
        finally:
            sys.stdout = old
        if res.startswith("err TypeError"):
            res = "err ValueError"
        return evs, res, buf.getvalue()

    # -- oracle: the property stated on the real code, independent of the model -------------
    def oracle_spec(self, style, s, cols, lines, impl_check: str, where: str):
        pr = doc_parse(style, s)
        key = f"{style}/{s!r}"
        if pr[0] == "err":
            if impl_check.startswith("ok"):
                return Failure(f"accepts-nonsentence/{key}", f"{where}: {CLASSES[style].__name__} accepts {s!r}, "
                               f"which is not a sentence of the documented grammar: {impl_check}")
            cls = impl_check.split(" ")[1]
            if cls not in pr[1]:
                return Failure(f"error-kind/{key}", f"{where}: rejecting {s!r} raised {cls}, documented: {sorted(pr[1])}")
            return None
        if not impl_check.startswith("ok"):
            return Failure(f"rejects-sentence/{key}", f"{where}: {s!r} is a sentence of the documented grammar but raised {impl_check}")
        want = "ok " + fmt_result(doc_denote(pr[1], cols, lines, 40 / 255))
        if impl_check != want:
            return Failure(f"denotation/{key}", f"{where}: {s!r} denotes {want} by the documentation, the code gives {impl_check}")
        return None

    def oracle(self, case: Case, impl_result: str):
        d = case.data
        op = d["op"]
        if op == "sweep":
            cls = klass(d["style"], d.get("depth", 0))
            classes = impl_result.split(" ")[1]
            for i, t in enumerate(itertools.product(d["alphabet"], repeat=d["k"])):
                s = d["prefix"] + "".join(t)
                pr = doc_parse(d["style"], s)
                got = classes[i]
                ok = (got == "a") if pr[0] == "ok" else (got != "a" and CLS_NAME.get(got) in pr[1])
                if not ok:
                    f = self.oracle_spec(d["style"], s, 80, 30, self.check_one(cls, s), "sweep") or \
                        Failure(f"sweep/{d['style']}/{s!r}", "sweep class differs but single evaluation agrees")
                    if d.get("depth"):
                        f.key = f.key.replace(f"{d['style']}/", f"check/sub{d['depth']}/{d['style']}/", 1)
                    f.case = (self.centry_case("check", d["style"], d["depth"], s, kind="sweep-witness") if d.get("depth")
                              else self.single("check", d["style"], s, kind="sweep-witness"))
                    return f
            return None
        if op == "ssweep":
            classes = impl_result.split(" ")[1]
            for i, t in enumerate(itertools.product(d["alphabet"], repeat=d["k"])):
                s = d["prefix"] + "".join(t)
                if not s:
                    continue
                pr = doc_style(d["style"], s)
                got = classes[i]
                ok = (got == "a") if pr[0] == "ok" else (got != "a" and CLS_NAME.get(got) in pr[1])
                if not ok:
                    return Failure(f"style/{d['style']}/{s!r}", f"style part {s!r}: documented {pr}, code class {got!r}",
                                   case=self.single("stylespec", d["style"], s, kind="ssweep-witness"))
            return None
        if op == "check":
            return self.oracle_spec(d["style"], d["spec"], d["cols"], d["lines"], impl_result, "_check_format_spec")
        if op == "format":
            return self.oracle_format(d)
        if op == "fentry":
            return self.oracle_fentry(d)
        if op == "centry":
            return self.oracle_centry(d)
        if op == "citer":
            return self.oracle_citer(d)
        return None

    def oracle_fentry(self, d):
        """through the public glue, on an instance with the given size setting: a rejected specifier raises the
        documented error and leaves NOTHING changed; an accepted one renders what draw() with the equivalent
        parameters prints and leaves nothing changed either"""
        style, s, cols, lines, kind, glue = d["style"], d["spec"], d["cols"], d["lines"], d["size_kind"], d["glue"]
        env.set_env(term_size=(cols, lines))
        img = make_image(style, kind, d.get("depth", 0))
        before = full_snapshot(img)
        _, res, out, written = self.run_fentry(img, glue, s)
        after = full_snapshot(img)
        key = f"{style}/{kind}/{glue}/{s!r}" + (f"/sub{d['depth']}" if d.get("depth") else "")
        f = self.oracle_spec(style, s, cols, lines, res, f"{glue} on a {kind} image of {type(img).__name__}")
        if f:
            f.key = f.key.replace(f"{style}/", f"{style}/{kind}/{glue}/", 1)
            return f
        if written:
            return Failure(f"writes/{key}", f"{glue}(img, {s!r}) wrote {len(written)} characters to stdout")
        if after != before:
            diff = {k: (before[k], after[k]) for k in before if before[k] != after.get(k)}
            what = "rejected" if res.startswith("err") else "accepted"
            return Failure(f"side-effect/{key}", f"{what} specifier {s!r} via {glue} on a {type(img).__name__} with size "
                           f"{before['size']} changed the instance: size {before['size']} -> {after['size']}, frame "
                           f"{before['frame']} -> {after['frame']}; differing: {sorted(diff)}", extra={"diff": repr(diff)[:1500]})
        if res.startswith("err"):
            return None
        p = doc_parse(style, s)[1]
        if p["pad_width"] > cols or (isinstance(p["alpha"], float) and p["alpha"] >= 1.0):
            return None
        img2 = make_image(style, kind, d.get("depth", 0))
        _, dres, printed = self.run_draw(img2, p)
        if not dres.startswith("ok"):
            return Failure(f"draw-rejects/{key}", f"draw() with the parameters denoted by {s!r} raised {dres}")
        if dres != res:
            return Failure(f"draw-params/{key}", f"{glue}({s!r}) rendered with {res}, draw(explicit) with {dres}")
        from term_image._ctlseqs import SGR_DEFAULT
        if printed != out + SGR_DEFAULT + "\n":
            return Failure(f"draw-output/{key}", f"{glue}(img, {s!r}) on a {kind} image differs from what draw() with the equivalent parameters prints")
        return None

    def oracle_format(self, d):
        """format(img, spec) == draw(explicit parameters) ; rejection is pure"""
        style, s, cols, lines = d["style"], d["spec"], d["cols"], d["lines"]
        env.set_env(term_size=(cols, lines))
        img = image_of(style)
        before = snapshot(img)
        buf = io.StringIO()
        old = sys.stdout
        sys.stdout = buf
        try:
            evs, res, out = run_recorded(lambda: format(img, s))
        finally:
            sys.stdout = old
        key = f"{style}/{s!r}"
        f = self.oracle_spec(style, s, cols, lines, res, "format()")
        if f:
            return f
        if buf.getvalue():
            return Failure(f"format-writes/{key}", "format() wrote to stdout")
        if snapshot(img) != before:
            return Failure(f"state/{key}", f"format(img, {s!r}) changed the image's state")
        if res.startswith("err"):
            if "render" in evs:
                return Failure(f"reject-impure/{key}", f"rejected specifier {s!r} reached the renderer")
            return None
        p = doc_parse(style, s)[1]
        if p["pad_width"] > cols or (isinstance(p["alpha"], float) and p["alpha"] >= 1.0):
            return None  # draw() refuses these explicit parameters (documented); nothing to compare
        _, dres, printed = self.run_draw(img, p)
        if not dres.startswith("ok"):
            return Failure(f"draw-rejects/{key}", f"draw() with the parameters denoted by {s!r} raised {dres}")
        if dres != res:
            return Failure(f"draw-params/{key}", f"format({s!r}) rendered with {res}, draw(explicit) with {dres}")
        from term_image._ctlseqs import SGR_DEFAULT
        if printed != out + SGR_DEFAULT + "\n":
            return Failure(f"draw-output/{key}", f"format(img, {s!r}) differs from what draw() with the equivalent parameters prints")
        return None

    # -- failing-input search -----------------------------------------------------------
    def search(self, rng, tier, reasons):
        out = []
        env.set_env(term_size=(80, 30))
        for style, cls in CLASSES.items():
            for L in range(0, 5):
                for t in itertools.product(ALPHABET, repeat=L):
                    s = "".join(t)
                    if style != "block" and "+" not in s:
                        continue
                    f = self.oracle_spec(style, s, 80, 30, self.check_one(cls, s), "search")
                    if f:
                        f.case = self.single("check", style, s, kind="search")
                        out.append(f)
                        if len(out) >= 3:
                            return out
            for _ in range(20000):
                s = self.rand_sentence(rng, style)
                for _ in range(rng.randrange(0, 3)):
                    s = self.mutate(rng, s)
                f = self.oracle_spec(style, s, 80, 30, self.check_one(cls, s), "search")
                if f:
                    f.case = self.single("check", style, s, kind="search")
                    out.append(f)
                    return out
        return out


if __name__ == "__main__":
    fw.main(C19)
