#!/venv/bin/python
"""C01 — a render output occupies exactly its advertised columns x lines rectangle."""
from __future__ import annotations

import base64
import os
import random
import re
import sys
import tempfile
import zlib

sys.path.insert(0, os.path.dirname(os.path.abspath(__file__)))
from common import framework as fw  # noqa: E402
from common.framework import Case, Failure, Property  # noqa: E402
from common import env  # noqa: E402
from common import tokenizer as tk  # noqa: E402
from common import lexcheck  # noqa: E402
from common.ctlgen import gen_ctl  # noqa: E402
from common import imgkit  # noqa: E402

from PIL import Image  # noqa: E402
from term_image.image import BlockImage, ITerm2Image, KittyImage  # noqa: E402

KINDS = ["kitty", "konsole", "wezterm", "iterm2", "other"]
TMP = tempfile.mkdtemp(prefix="c01-")
__import__("atexit").register(__import__("shutil").rmtree, TMP, ignore_errors=True)  # scratch images of this run


def hx(b: bytes) -> str:
    return b.hex() if b else "-"


class C01(Property):
    id = "C01"
    # TIV.Common.LexProofs: the Lean lexer the oracle reads the real bytes with is proved inverse to the
    # model's printing (`lex_toksStr`, for every render of the three models: `lex_block/kitty/iterm_render`)
    lean_props = ["TIV.C01.Props", "TIV.Common.LexProofs"]
    driver = "drv_c01"
    partial = ("that real kitty/iTerm2/WezTerm/Konsole behave like TIV.Common.Term (the quirk table is the "
               "library's own stated belief) and read the bytes the way TIV.Lex.lex does (a strict reading, proved "
               "inverse to the models' printing and to end in the ground state of TIV.Common.Scan)")

    def __init__(self):
        self._outs: list[str] = []  # every real render output of the run (cross-checked in extra_checks)
        self._cases: list[Case] = []  # the cases that have one
        self._lean: dict[int, str] | None = None  # id(case) -> driver answer (one batch for the whole run)
        self._lean_wire: dict[str, str] = {}  # output -> what the Lean lexer read
    quick_cases = 1500
    thorough_cases = 12000

    def gen_constants(self):
        return gen_ctl()

    # -- generator --------------------------------------------------------------------
    def generate(self, rng: random.Random, tier: str):
        big = tier == "thorough"
        while True:
            style = rng.choice(["block", "block", "kitty", "kitty", "iterm2", "iterm2"])
            d = imgkit.random_image_spec(rng)
            d["style"] = style
            d["cols"] = rng.randrange(1, 41 if big else 13)
            d["lines"] = rng.randrange(1, 21 if big else 9)
            d["alpha"] = rng.choice([None, 0.0, 0.4, 0.5, 0.999, "#", "#102030", "#ffffff"])
            d["bg"] = rng.choice([None, (0, 0, 0), (255, 255, 255), (16, 32, 48)])
            if style == "block":
                if rng.random() < 0.4:
                    # source at exactly the render resolution: pixel patterns reach the renderer unblurred
                    d["identity"] = True
                    d["w"], d["h"] = d["cols"], 2 * d["lines"]
                    d["mode"] = rng.choice(["RGBA", "RGBA", "LA", "RGB"])
                    d["alpha"] = rng.choice([0.4, 0.5, 0.4, None, "#"])
                if not d.get("identity") and rng.random() < 0.2:
                    # dynamic size: rendered once, the cell ratio changes, rendered again (the second render is judged)
                    d["dynamic"] = [rng.choice([0.5, 0.25, 1.0]), rng.choice([0.5, 0.25, 1.0, 0.4])]
                    d["tsize"] = [rng.randrange(8, 50), rng.randrange(5, 30)]
                d["kitty_term"] = rng.random() < 0.4
                d["split"] = rng.random() < 0.3
                kind = "block" + ("-split" if d["split"] else "") + ("-kitty" if d["kitty_term"] else "") + ("-dynamic" if d.get("dynamic") else "")
            else:
                d["cell"] = rng.choice([(1, 1), (1, 2), (2, 3), (5, 10), (8, 16), (9, 20), (20, 40)])
                d["method"] = rng.choice(["lines", "whole"] + (["anim"] if style == "iterm2" else []))
                d["mix"] = rng.random() < 0.4
                d["compress"] = rng.choice([0, 1, 4, 9])
                d["term"] = rng.choice(KINDS)
                if style == "iterm2" and rng.random() < 0.35:
                    # the terminal identity reaches the class the way it does in real use: through
                    # is_supported() (name/version from the query layer), with or without forced support
                    d["via_supported"] = True
                    d["forced"] = rng.random() < 0.5
                    d["version"] = {"konsole": rng.choice(["22.04.0", "23.08.1", "22.03.9"]), "iterm2": "3.5.0",
                                    "wezterm": "20230712-072601-f4abf8fd"}.get(d["term"], "1.0")
                if style == "iterm2" and d["method"] == "anim" and rng.random() < 0.6:
                    d["animated"] = rng.choice([2, 3])  # a real multi-frame file: native animation path
                if style == "kitty" and rng.random() < 0.15:
                    # payload of exactly k*3072 raw bytes = k*4096 base64 characters, uncompressed:
                    # the chunker's boundary case
                    d.update(mode="RGB", alpha=None, compress=0, cell=(8, 16))
                    if rng.random() < 0.5:
                        d.update(method="whole", w=rng.choice([32, 64]), h=32, cols=rng.choice([8, 16]), lines=rng.choice([4, 8]))
                    else:
                        d.update(method="lines", cols=16, lines=rng.randrange(17, 22), w=200, h=20)
                    d["exact"] = True
                if style == "kitty":
                    d["blend"] = rng.random() < 0.6
                    d["z"] = rng.choice([0, -1, 1, 2**31 - 1, -(2**31) + 1, rng.randrange(-99, 99)])
                else:
                    d["jpeg"] = rng.choice([-1, -1, 30, 95])
                kind = f"{style}-{d['method']}" + (f"-{d['term']}" if style == "iterm2" else "") + ("-native" if d.get("animated") else "") + ("-exact" if d.get("exact") else "") + ("-viasupported" if d.get("via_supported") else "")
            if style != "block" and rng.random() < 0.3:
                # the method configured on the instance differs from (or equals) the per-render override
                d["configured"] = rng.choice(["lines", "whole"])
            if style == "kitty" and rng.random() < 0.12 and not d.get("exact"):
                # a source with fewer pixel rows than rendered lines (thin strip), LINES over a configured WHOLE
                d.update(w=rng.randrange(24, 80), h=rng.randrange(2, 8), cols=rng.randrange(20, 41), lines=rng.randrange(9, 21),
                         method="lines", configured="whole", cell=rng.choice([(2, 3), (5, 10)]), manual=True)
            # an application-defined subclass of the style class (settings and terminal identity are looked up
            # through the instance's own class)
            d["subclass"] = rng.random() < 0.3
            # where the image comes from and which public entry point produces the render output
            if not d.get("dynamic") and not d.get("exact") and rng.random() < 0.55:
                d["source"] = rng.choice(["pil-file", "file", "pil-nofile"])
                if not d.get("animated") and rng.random() < 0.35:
                    d["animated"] = rng.choice([2, 3])
                    d["frame_no"] = rng.randrange(d["animated"])
                if style == "iterm2":
                    d["read_from_file"] = rng.random() < 0.6
                    d["small_anim_limit"] = rng.random() < 0.3
            if not d.get("dynamic") and rng.random() < 0.5:
                d["entry"] = rng.choice(["str", "format", "format", "iter"] if d.get("animated") else ["str", "format", "format"])
                if d["entry"] == "iter" and d.get("method") != "anim" and rng.random() < 0.5:
                    # a caching iterator that lives through a size change and the change back: one loop at the size
                    # asked for, one at another size, then the first frame again at the first size (the judged output)
                    d["entry"] = "iterhist"
            kind += ("-" + d["source"] if d.get("source") else "") + ("-" + d["entry"] if d.get("entry") else "") \
                + ("-frames" if d.get("animated") and "-native" not in kind else "") + ("-subclass" if d.get("subclass") else "")
            yield Case("", d, kind, True)

    # -- sources and entry points -----------------------------------------------------
    def _instance(self, cls, img, d):
        """the image instance, from the source flavour asked for (in-memory PIL image by default)"""
        src = d.get("source")
        n = d.get("animated")
        if not src and not n:
            return cls(img)
        if n:
            frames = []
            for k in range(n):
                dd = dict(d, iseed=d["iseed"] + k, mode="RGB")
                frames.append(imgkit.make_image(dd).convert("P"))
            path = os.path.join(TMP, f"anim-{d['iseed']}.gif")
            frames[0].save(path, save_all=True, append_images=frames[1:], duration=100, loop=0)
        else:
            ext, kw = ("jpg", {"quality": 90}) if img.mode in ("RGB", "L", "CMYK") and d["iseed"] % 2 else ("png", {})
            src_img = img if img.mode in ("1", "L", "LA", "P", "RGB", "RGBA") or ext == "jpg" else img.convert("RGBA" if "A" in img.mode else "RGB")
            path = os.path.join(TMP, f"still-{d['iseed']}.{ext}")
            src_img.save(path, **kw)
        if src in (None, "file"):
            return cls.from_file(path)
        if src == "pil-file":
            return cls(Image.open(path))  # has a readable `filename`
        import io
        return cls(Image.open(io.BytesIO(open(path, "rb").read())))  # no file behind it

    def _output(self, im, d, alpha, **style_args):
        """the render output, through the entry point asked for; returns (output, effective alpha, effective style args)"""
        import inspect
        from term_image.image import ImageIterator
        entry = d.get("entry")
        animated = im._is_animated  # Pillow merges identical frames: a "2-frame" file may have one
        frame_no = d.get("frame_no", 0) if animated and d.get("frame_no", 0) < im.n_frames else 0
        if entry in ("iter", "iterhist") and not animated:
            entry = "format"
        if frame_no and entry not in ("iter", "iterhist"):
            im.seek(frame_no)
        if not entry:
            return im._renderer(im._render_image, alpha, **style_args), style_args
        defaults = {k: p.default for k, p in inspect.signature(type(im)._render_image).parameters.items()
                    if p.kind is p.KEYWORD_ONLY and k != "frame"}
        if entry == "str":
            eff = dict(defaults)
            if "method" in style_args:
                im.set_render_method(style_args["method"])
                eff["method"] = style_args["method"]
            eff.pop("method", None) if "method" not in style_args else None
            return str(im), eff
        # format spec: no padding ("1.1" never exceeds a render), alpha and style part spelled out
        a = "#" if alpha is None else ("#" + alpha[1:] if isinstance(alpha, str) and len(alpha) > 1 else
                                       "##" if alpha == "#" else "#" + repr(float(alpha))[1:])
        eff = dict(defaults)
        st = ""
        if "method" in style_args:
            st += {"lines": "L", "whole": "W", "anim": "A"}[style_args["method"]]
            eff["method"] = style_args["method"]
        if "z_index" in style_args:
            st += f"z{style_args['z_index']}"
            eff["z_index"] = style_args["z_index"]
        if "mix" in style_args:
            st += f"m{int(style_args['mix'])}"
            eff["mix"] = style_args["mix"]
        if "compress" in style_args:
            st += f"c{style_args['compress']}"
            eff["compress"] = style_args["compress"]
        spec = "1.1" + a + ("+" + st if st else "")
        if entry == "format":
            return format(im, spec), eff
        if entry == "iterhist":
            size_a = im.size
            it = ImageIterator(im, 3, spec, True)
            try:
                for _ in range(im.n_frames):
                    next(it)
                im.set_size(width=size_a[0] + 1, height=size_a[1] + 1)
                for _ in range(im.n_frames):
                    next(it)
                im.set_size(width=size_a[0], height=size_a[1])
                out = next(it)
            finally:
                it.close()
            return out, eff
        it = ImageIterator(im, 1, spec, False)
        try:
            for _ in range(frame_no + 1):
                out = next(it)
        finally:
            it.close()
        return out, eff

    # -- run the real code, build the model request from what the real code was given ------
    def _render(self, d):
        """returns (real render string, model request line)"""
        for k in ("bg", "cell"):  # a replayed case comes back from JSON with lists for tuples
            if isinstance(d.get(k), list):
                d[k] = tuple(d[k])
        img = imgkit.make_image(d)
        style = d["style"]
        env.reset_env()
        env.set_env(bg=d["bg"], term_size=(200, 100))
        if style == "block":
            env.set_env(is_on_kitty=d["kitty_term"])
            im = self._instance(type("AppBlockImage", (BlockImage,), {}) if d.get("subclass") else BlockImage, img, d)
            if d.get("dynamic"):
                import term_image as _ti
                env.set_env(term_size=tuple(d["tsize"]))
                _ti.set_cell_ratio(d["dynamic"][0])
                im._renderer(im._render_image, d["alpha"], split_cells=d["split"])  # first render, not judged
                _ti.set_cell_ratio(d["dynamic"][1])
            elif d.get("identity"):
                im.set_size(width=d["cols"], height=d["lines"])
            elif d["cols"] <= 2 * d["lines"]:
                im.set_size(width=d["cols"])
            else:
                im.set_size(height=d["lines"])
            cap = {}
            orig = im._get_render_data

            def spy(*a, **k):
                r = orig(*a, **k)
                cap["mode"], cap["rgb"], cap["a"] = r[0].mode, r[1], r[2]
                return r

            im._get_render_data = spy
            if d.get("entry"):
                out, _ = self._output(im, d, d["alpha"])
                split = False
            else:
                out, _ = self._output(im, d, d["alpha"], split_cells=d["split"])
                split = d["split"]
            width = im._get_render_size()[0]
            rgb = bytes(c for px in cap["rgb"] for c in px)
            a = bytes(cap["a"])
            bg = "none" if d["bg"] is None else ",".join(map(str, d["bg"]))
            line = (f"block {int(cap['mode'] == 'RGBA')} {int(d['kitty_term'])} {bg} {int(split)} "
                    f"{width} {hx(rgb)} {hx(a)}")
            d["_size"] = list(im.rendered_size)
            return out, line
        env.set_env(cell_size=d["cell"], name=d["term"])
        cls = KittyImage if style == "kitty" else ITerm2Image
        if d.get("subclass"):
            cls = type("App" + cls.__name__, (cls,), {})
        restore = None
        if d.get("via_supported"):
            env.state["name_version"] = (d["term"], d["version"])
            ITerm2Image._supported = None
            ITerm2Image._TERM = ITerm2Image._TERM_VERSION = ""
            supported = d["term"] in ("iterm2", "wezterm") or (d["term"] == "konsole" and d["version"] != "22.03.9")
            ITerm2Image.forced_support = d["forced"] or not supported
            d["_eff_term"] = d["term"] if supported else "other"

            def restore():
                ITerm2Image.forced_support = False
                ITerm2Image._supported = True
        im = self._instance(cls, img, d)
        if d.get("configured"):
            im.set_render_method(d["configured"])
        if restore:
            restore()
        if d.get("manual"):
            im.set_size(width=d["cols"], height=d["lines"])
        else:
            im.set_size(width=d["cols"]) if d["cols"] <= d["lines"] else im.set_size(height=d["lines"])
        rw, rh = im.rendered_size
        d["_size"] = [rw, rh]
        if style == "kitty":
            if d.get("entry"):
                out, eff = self._output(im, d, d["alpha"], method=d["method"], z_index=d["z"], mix=d["mix"], compress=d["compress"])
            else:
                out, eff = self._output(im, d, d["alpha"], method=d["method"], z_index=d["z"], mix=d["mix"],
                                        compress=d["compress"], blend=d["blend"])
            toks = tk.tokenize(out)
            cmds = [t for t in toks if t.wire.startswith("K")]
            payloads = [base64.standard_b64decode("".join(c for _, c in t.info["chunks"])) for t in cmds]
            fmt = int(cmds[0].info["keys"]["f"])
            whole = d["method"] == "whole"
            width, height = im._get_minimal_render_size() if whole else im._get_render_size()
            line = (f"kitty {int(whole)} {int(eff['blend'])} {int(eff['mix'])} {eff['z_index']} {eff['compress']} {fmt} "
                    f"{rw} {rh} {width} {height} {len(payloads)} " + " ".join(hx(p) for p in payloads))
            return out, line
        ITerm2Image.jpeg_quality = d["jpeg"]
        if "read_from_file" in d:
            ITerm2Image.read_from_file = d["read_from_file"]
        old_limit = ITerm2Image.native_anim_max_bytes
        if d.get("small_anim_limit"):
            ITerm2Image.native_anim_max_bytes = 1
        try:
            import warnings
            with warnings.catch_warnings():
                warnings.simplefilter("ignore")
                out, eff_args = self._output(im, d, d["alpha"], method=d["method"], mix=d["mix"], compress=d["compress"])
        finally:
            del ITerm2Image.jpeg_quality
            if "read_from_file" in d:
                del ITerm2Image.read_from_file
            ITerm2Image.native_anim_max_bytes = old_limit
        toks = tk.tokenize(out)
        cmds = [t for t in toks if t.wire.startswith("I")]
        payloads = [base64.standard_b64decode(t.info["payload"]) for t in cmds]
        whole = d["method"] != "lines"
        eff = d.get("_eff_term", d["term"])
        line = (f"iterm {int(whole)} {int(eff == 'konsole')} {int(eff == 'wezterm')} {int(eff_args['mix'])} "
                f"{rw} {rh} {len(payloads)} " + " ".join(hx(p) for p in payloads))
        return out, line

    def impl(self, case: Case) -> str:
        try:
            out, line = self._render(case.data)
        except tk.TokenizeError as e:
            case.line = case.line or f"untokenizable {case.data.get('style')}"
            case.data["_out"] = None
            case.data["_tokerr"] = str(e)
            return "err TokenizeError"
        case.line = line
        case.data["_out"] = out
        self._outs.append(out)
        self._cases.append(case)
        return "ok " + hx(out.encode())

    needs_impl_first = True

    # -- the two readings of the bytes agree ---------------------------------------------
    def extra_checks(self, rng, tier, ev):
        """every real render output of the run, read by the Python tokenizer (still used to build the kitty/iterm2
        model request lines) and by the Lean lexer (used by the oracle): the wire tokens must be identical. A
        disagreement is a defect of the harness, not of the library: reported as INFRA (the framework turns an
        exception of extra_checks into an INFRA line and exit 2)."""
        bad = lexcheck.cross_check(self.driver, self._outs, self._lean_wire)
        ev["coverage"]["lexer_cross_check"] = {"outputs": len(set(self._outs)), "disagreements": len(bad), "first": bad[:3]}
        if bad:
            raise RuntimeError(f"lexer cross-check: python tokenizer and Lean lexer disagree on {len(bad)} outputs: {bad[0]}")
        return []

    # -- oracle -----------------------------------------------------------------------
    @staticmethod
    def _kind(d):
        return d.get("_eff_term") or d.get("term") or ("kitty" if d.get("kitty_term") else "other")

    def _request(self, case: Case):
        """the driver request of a case (its real output on three terminals in which the block fits) and the placements"""
        d = case.data
        w, h = d["_size"]
        places = []
        rng = random.Random(hash(case.line) & 0xFFFF)
        for _ in range(3):
            W = w + rng.choice([0, 0, 1, 5])
            H = h + rng.choice([0, 0, 1, 4])
            x = rng.choice([0, W - w])
            top = rng.randrange(0, 3)
            row = top + rng.choice([0, H - h])
            places.append((W, H, row, x, top))
        terms = [(W, H, self._kind(d), row, x, top, x) for (W, H, row, x, top) in places]
        return lexcheck.runbytes_n_request(d["_out"], terms), places

    def oracle(self, case: Case, impl_result: str):
        d = case.data
        where = f"{d['style']}/{d.get('method', '')}/{d.get('term', '')}/{d['_size'] if '_size' in d else ''}"
        if d.get("_out") is None:
            return Failure(f"tokenize/{where}", f"render output is not a sequence of complete control sequences: {d.get('_tokerr')}")
        out = d["_out"]
        w, h = d["_size"]
        if out.count("\n") != h - 1 or out.endswith("\n"):
            return Failure(f"newlines/{where}", f"{out.count(chr(10))} newlines for {h} lines (or trailing newline)")
        # the reading of the bytes is Lean-side: `term.runbytes.n` runs TIV.Lex.lex (proved inverse to the models'
        # printing, LexProofs.lex_toksStr) on the real output and the terminal model on what it read; the Python
        # tokenizer is not consulted. All cases of the run go to the driver in one batch (first call).
        if self._lean is None:
            todo = [c for c in self._cases if c.data.get("_out") is not None] or [case]
            answers = lexcheck.run_batched(self.driver, [self._request(c)[0] for c in todo])
            self._lean = {id(c): a for c, a in zip(todo, answers)}
        req, places = self._request(case)
        resp = self._lean.get(id(case)) or fw.run_driver(self.driver, [req])[0]
        kind = self._kind(d)
        parsed = lexcheck.parse_runbytes_n(resp)
        self._lean_wire[out] = "err lex" if parsed is None else " ".join([str(len(parsed[0]))] + parsed[0])
        if parsed is None:
            return Failure(f"tokenize/{where}", "render output is not a sequence of complete control sequences of the "
                           "library in canonical form (TIV.Lex.lex rejects it)")
        wires, res = parsed
        f = payload_check(out)
        if f:
            return Failure(f"undisplayable/{where}", f)
        f = iterm_stretch_check(out)
        if f:
            return Failure(f"letterbox/{where}", f)
        if kind == "konsole":
            # the library's quirk table: Konsole places the cursor after an inline image differently from iTerm2 unless
            # the image carries doNotMoveCursor=1 (the terminal model follows the iTerm2 rule for the other kinds only)
            for t in wires:
                if t.startswith("I") and not t.endswith(",1"):
                    return Failure(f"konsole-cursor/{where}", "an inline image is sent to Konsole without doNotMoveCursor=1: the "
                                   "cursor does not end where the render's cursor choreography assumes (rectangle/cursor clause)")
        for (W, H, row, x, top), r in zip(places, res):
            f = check_rect(r, W, H, row, x, top, w, h, text=d["style"] == "block")
            if f:
                return Failure(f"{f[0]}/{where}", f"{f[1]} (terminal {W}x{H}, cursor at row {row} col {x}, top {top})")
        return None


_ITERM_FILE = re.compile(r"\x1b\]1337;File=([^:\x1b]*):")


def iterm_stretch_check(out: str):
    """the inline-image protocol fits an image INSIDE its width x height cell box keeping the aspect ratio unless
    `preserveAspectRatio=0` is given: only then does the image cover the whole box (the terminal model's `iterm` token
    covers cols x rows, i.e. it speaks about stretched images)"""
    for m in _ITERM_FILE.finditer(out):
        keys = dict(i.split("=", 1) for i in m.group(1).split(";") if "=" in i)
        if keys.get("preserveAspectRatio") != "0":
            return ("an inline image is sent without preserveAspectRatio=0: the terminal letterboxes it inside the "
                    f"{keys.get('width')}x{keys.get('height')} cell box, so the rectangle is not covered")
    return None


_KITTY_TX = re.compile(r"\x1b_G([^;\x1b]*);([^\x1b]*)\x1b\\")


def payload_check(out: str):
    """a kitty transmission that says `o=z` must carry a payload that inflates (else the terminal rejects the
    image and nothing is displayed); reads the APC commands directly (first command's keys, all payloads)"""
    cur = None
    for m in _KITTY_TX.finditer(out):
        ctrl, payload = m.groups()
        keys = dict(i.split("=", 1) for i in ctrl.split(",") if "=" in i)
        if keys.get("a") == "T":
            cur = [keys, payload]
        elif cur is not None and set(keys) == {"m"}:
            cur[1] += payload
        else:
            continue
        if keys.get("m") == "0" and cur is not None:
            k0 = cur[0]
            try:
                data = base64.standard_b64decode(cur[1])
            except Exception as e:
                return f"a kitty payload is not valid base64 ({e}): the terminal rejects the image"
            if k0.get("o") == "z":
                try:
                    data = zlib.decompress(data)
                except Exception as e:
                    return (f"a kitty command says o=z but its payload does not inflate ({e}): "
                            "the terminal rejects the image and the rectangle is not covered")
            if k0.get("t", "d") == "d" and k0.get("f", "32") in ("24", "32") and "s" in k0 and "v" in k0:
                # the protocol's rule for direct pixel data: exactly s x v pixels of f/8 bytes, s and v positive;
                # anything else is answered with ENODATA / EINVAL and nothing is displayed
                s_, v_, bpp = int(k0["s"]), int(k0["v"]), int(k0.get("f", "32")) // 8
                if s_ < 1 or v_ < 1 or len(data) != s_ * v_ * bpp:
                    return (f"a kitty command announces s={s_} v={v_} f={k0.get('f', '32')} but carries {len(data)} bytes of pixel "
                            "data: the terminal rejects the image and the rectangle is not covered")
            cur = None
    return None


def check_rect(resp: str, W, H, row, x, top, w, h, text: bool):
    p = resp.split(" ")
    if p[0] != "ok":
        return ("driver", resp[:100])
    r, c, pw, top2, scrolls, wrapped, fg, bg, vis = p[1:10]
    nimg = int(p[10])
    rest = p[11 + nimg:]
    writes = rest[1:]
    if int(scrolls) or int(top2) != top:
        return ("scroll", "the render scrolled the terminal")
    if int(wrapped):
        return ("wrap", "the render wrapped at the right margin")
    if int(r) != row + h - 1:
        return ("row", f"cursor ends on row {r}, expected {row + h - 1}")
    if int(c) != min(x + w, W - 1):
        return ("col", f"cursor ends in column {c}, expected {min(x + w, W - 1)}")
    if text and (fg != "d" or bg != "d"):
        return ("sgr", "text attributes not reset")
    if not text and (fg != "d" or bg != "d"):
        return ("sgr", "graphics render changed text attributes")
    cells = set()
    for wr in writes:
        a, b, _ = wr.split(",", 2)
        cells.add((int(a), int(b)))
    want = {(row + i, x + j) for i in range(h) for j in range(w)}
    if cells - want:
        return ("outside", f"cells outside the rectangle changed: {sorted(cells - want)[:4]}")
    if want - cells:
        return ("uncovered", f"cells of the rectangle not covered: {sorted(want - cells)[:4]}")
    return None


if __name__ == "__main__":
    fw.main(C01)
