#!/venv/bin/python
"""C09 — frame caching is invisible except for speed (DESIGN.md §5 C09).

Tie: `pair` drives a real RenderIterator with the given cache setting and one with caching off
through the same history (test renderable `TR` of harness/c08.py) and compares, with the Lean
model's paired run, the per-operation observations of both and the `_render_` call log;
`ipair` does the same for `ImageIterator` over a real `BlockImage` / `KittyImage` / `ITerm2Image` of an
animated GIF, with format specs that carry style parts (+W/+L, z<N>, m0/1, c0-9) and image-size changes
after the first loop (frames identified byte for byte by rendering each (frame, width) independently with
the same spec), counting `_render_image` calls;
`draw` goes through the public drawing path — `Renderable.draw()` → `_animate_` — of a counting
renderable in virtual time (the animation's `sleep` is a hook that raises KeyboardInterrupt at its
m-th call; loops ∈ {negative = infinite, 1, 2, 3}, every cache form) and compares the per-frame
`_render_` counts and the iterator's `_cached` with the model's (`Draw.initOf`, `Draw.history`);
`decision` / `idecision` compare the `_cached` decisions (including `Renderable._animate_`'s
forwarding rule `False if loops == 1 else cache`).
Oracle (independent of Lean): cached run ≡ uncached run, no frame rendered twice by a cached
iterator within a stretch of history without a settings change, no frame rendered twice during one
draw() whose `cache` argument enables caching (any loop count), `hash` injective on the render sizes met.
"""
from __future__ import annotations

import inspect
import io
import os
import random
import sys

sys.path.insert(0, os.path.dirname(os.path.abspath(__file__)))
from common import framework as fw  # noqa: E402
from common.framework import Case, Failure, Property  # noqa: E402
from common import env  # noqa: E402  (controlled terminal environment for the image classes)

import c08  # noqa: E402  (test renderable, wire format, history generator)
from c08 import TR, case_line, gen_case, run_real, toks  # noqa: E402

from PIL import Image  # noqa: E402

import term_image  # noqa: E402
from term_image.image import BlockImage, ImageIterator, ITerm2Image, KittyImage  # noqa: E402
from term_image.render import RenderIterator  # noqa: E402
from term_image.renderable import FrameCount, Renderable  # noqa: E402

WIDTHS = [2, 3, 4, 6]
COLOURS = [(255, 0, 0), (0, 255, 0), (0, 0, 255), (255, 255, 0), (255, 255, 255), (0, 0, 0), (0, 255, 255)]
_GIFS: dict[int, bytes] = {}
_EXPECT: dict[tuple, dict[str, tuple[int, int]]] = {}
CLASSES = {"block": BlockImage, "kitty": KittyImage, "iterm2": ITerm2Image}
# format specs for the iterator: [format part]+[style part]; the style part (render method +W/+L, kitty z-index,
# `m` mix / `c` compression) reaches `_render_image` as `**style_args` on every render the iterator makes
SPECS = {
    "block": ["", "", "<9.^4#"],
    "kitty": ["", "+W", "+L", "+z5", "+m1c9", "+Wz-7m1c0", "+c0", "+Lz3m0c5", "1.1+W", "<9.^4#+z2"],
    "iterm2": ["", "+W", "+L", "+m1", "+Wm1c0", "+c3", "+Lc9", "1.1+W", ">8._5#+Wm1c0"],
}
HASHES: dict[int, tuple[int, int]] = {}


def gif_bytes(n: int) -> bytes:
    if n not in _GIFS:
        frames = []
        for i in range(n):
            im = Image.new("RGB", (6, 6), COLOURS[i % len(COLOURS)])
            im.putpixel((i % 6, 0), ((i * 40 + 10) % 256, 7, 9))
            frames.append(im)
        buf = io.BytesIO()
        if n == 1:
            frames[0].save(buf, "GIF")
        else:
            frames[0].save(buf, "GIF", save_all=True, append_images=frames[1:], duration=10)
        _GIFS[n] = buf.getvalue()
    return _GIFS[n]


_TMP = [None]


def gif_path(n: int) -> str:
    """the n-frame GIF as a file in a harness temp dir (removed at exit)"""
    import atexit
    import shutil
    import tempfile

    if _TMP[0] is None:
        _TMP[0] = tempfile.mkdtemp(prefix="tiv-c09-")
        atexit.register(shutil.rmtree, _TMP[0], ignore_errors=True)
    path = os.path.join(_TMP[0], f"anim{n}.gif")
    if not os.path.exists(path):
        with open(path, "wb") as f:
            f.write(gif_bytes(n))
    return path


def mk_image(n: int, width: int, cls: str = "block", src: str = "pil"):
    env.reset_env()
    env.set_env(cell_size=None if cls == "block" else (4, 8))
    term_image.set_cell_ratio(0.5)
    klass = CLASSES[cls]
    if cls != "block":
        klass.forced_support = True  # controlled environment: no supporting terminal needed
    if src == "file":
        # file-sourced: every render opens the file; the iterator keeps ONE open image for its whole life
        return klass.from_file(gif_path(n), width=width)
    return klass(Image.open(io.BytesIO(gif_bytes(n))), width=width)


def expect_table(n: int, cls: str = "block", spec: str = "") -> dict[str, tuple[int, int]]:
    """render output of (frame k, width w) under `spec`, produced without any iterator → (k, w)"""
    if (n, cls, spec) not in _EXPECT:
        tab = {}
        for w in WIDTHS:
            img = mk_image(n, w, cls)
            for k in range(n):
                img.seek(k)
                s = format(img, spec)
                if s in tab and tab[s] != (k, w):
                    raise RuntimeError("test frames are not distinguishable")
                tab[s] = (k, w)
            # the code keys its cache on hash(rendered_size): record what it meets
            rs = img.rendered_size
            h = hash(rs)
            if h in HASHES and HASHES[h] != tuple(rs):
                raise RuntimeError(f"hash collision on render sizes {HASHES[h]} and {tuple(rs)}")
            HASHES[h] = tuple(rs)
        _EXPECT[(n, cls, spec)] = tab
    return _EXPECT[(n, cls, spec)]


def run_image_iter(n, rep, cache, width, seekpos, ops, cls="block", spec="", src="pil", dyn=None) -> str:
    import zlib
    from term_image.image import Size as ImageSize
    tab = expect_table(n, cls, spec) if n >= 2 else {}
    img = mk_image(n, width, cls, src)
    if dyn:
        # a DYNAMIC image size: the rendered size follows the (controlled) terminal, `width` columns wide;
        # a `size w` operation is then a terminal resize to w columns, not a `set_size()`
        img.size = getattr(ImageSize, dyn)
        env.set_env(term_size=(width, 30))
    if seekpos:
        img.seek(seekpos)
    count = [0]
    orig = img._render_image

    def counting(*a, **k):
        r = orig(*a, **k)
        count[0] += 1
        return r

    img._render_image = counting
    cached = bool(cache[1]) if cache[0] == "b" else cache[1]
    try:
        it = ImageIterator(img, rep, spec, cached)
    except Exception as e:  # noqa: BLE001
        return "err " + type(e).__name__
    obs = []
    for op in ops:
        try:
            if op[0] == "next":
                frame = next(it)
                # a frame that is not `format(image, spec)` of any (frame, width): -1 and its checksum
                k, w = tab.get(frame) or (-1, zlib.crc32(frame.encode()))
                res = f"f {k} {w}"
            elif op[0] == "seek":
                it.seek(op[1])
                res = "ok"
            elif op[0] == "size":
                if dyn:
                    env.set_env(term_size=(op[1], 30))
                else:
                    img.set_size(width=op[1])
                res = "ok"
            else:
                it.close()
                res = "ok"
        except StopIteration:
            res = "e StopIteration"
        except Exception as e:  # noqa: BLE001
            res = "e " + type(e).__name__
        ln = it.loop_no
        obs.append(f"{res} L{'none' if ln is None else ln} P{img.tell()}")
    it.close()
    return "ok " + " | ".join(obs) + f" # {count[0]}"


class _StopDrawing(Exception):
    pass


def run_draw_real(n, loops, cache, m):
    """`Renderable.draw()` of a counting renderable, in virtual time: the animation's `sleep` is
    replaced by a hook that raises KeyboardInterrupt at its `m`-th call (how an animation is stopped;
    `_animate_` swallows it).  → per-frame `_render_` counts, total, the iterator's `_cached`"""
    import term_image.renderable._renderable as rmod
    from term_image.padding import ExactPadding

    c08.set_term(80, 30)
    r = TR(n, 7, (2, 1))
    cval = bool(cache[1]) if cache[0] == "b" else cache[1]
    sleeps = [0]
    seen = {}

    def fake_sleep(_secs):
        sleeps[0] += 1
        if sleeps[0] >= m:
            raise KeyboardInterrupt

    orig_frd = RenderIterator._from_render_data_.__func__

    def spy(cls, *a, **k):
        it = orig_frd(cls, *a, **k)
        seen["cached"] = bool(it._cached)
        return it

    real_sleep, real_stdout = rmod.sleep, sys.stdout
    rmod.sleep = fake_sleep
    RenderIterator._from_render_data_ = classmethod(spy)
    sys.stdout = io.StringIO()
    try:
        try:
            r.draw(None, ExactPadding(), loops=loops, cache=cval)
        except KeyboardInterrupt:  # m == 0: interrupted outside `_animate_`'s own handler
            pass
        except Exception as e:  # noqa: BLE001
            return "err " + type(e).__name__, r
    finally:
        sys.stdout = real_stdout
        rmod.sleep = real_sleep
        RenderIterator._from_render_data_ = classmethod(orig_frd)
    offs = [int(x.split(" ")[0]) for x in r.calls]
    counts = [offs.count(k) for k in range(n)]
    return "ok " + " ".join(map(str, counts)) + f" # {len(offs)} {int(seen.get('cached', False))}", r


def run_pair_real(c, ops):
    out = []
    logs = []
    for cache in (c["cache"], ["b", 0]):
        c2 = dict(c, cache=cache)
        res, rr = run_real(c2, ops)
        if res.startswith("err"):
            out.append(res)
            logs.append([])
        else:
            calls = rr.r.calls
            out.append(f"{res} # {len(calls)} " + ",".join(x.split(" ")[0] for x in calls))
            logs.append(calls)
    return " || ".join(out), logs


def settings_after(cur, op, accepted):
    """(size, duration, args) — as values — after a set operation the iterator accepted"""
    size, dur, args = cur
    if not accepted:
        return cur
    if op[0] == "size":
        return ((int(op[1]), int(op[2])), dur, args)
    if op[0] == "dur":
        return (size, "D" if op[1] == "D" else int(op[1]), args)
    if op[0] == "args":
        a = {"own": lambda: (int(op[2]), int(op[3])), "base": lambda: (int(op[2]), 0), "root": lambda: (0, 0)}[op[1]]()
        return (size, dur, a)
    return cur


def stretch_rerender(c, ops, calls_per_op, accepted):
    """cached definite iterator: while size, duration and render args are unchanged no frame may be
    rendered twice.  "Unchanged" is about values: a setter called with a value equal to the current one
    (a new `Size(*current)`, an equal `RenderArgs` built anew, an equal int) changes nothing and does not
    start a new stretch.  → offending (op index, frame) or None"""
    a0 = c["args"]
    cur = ((int(c["size"][0]), int(c["size"][1])), "D" if c["dur"] == "D" else int(c["dur"]),
           (0, 0) if a0 is None else {"own": lambda: (int(a0[1]), int(a0[2])), "base": lambda: (int(a0[1]), 0),
                                      "root": lambda: (0, 0)}.get(a0[0], lambda: (0, 0))())
    seen = set()
    for i, (op, calls, ok) in enumerate(zip(ops, calls_per_op, accepted)):
        if op[0] in ("dur", "args", "size"):
            new = settings_after(cur, op, ok)
            if new != cur:
                seen = set()
            cur = new
        for q in calls:
            off = q.split(" ")[0]
            if off in seen:
                return i, off
            seen.add(off)
    return None


class C09(Property):
    id = "C09"
    title = "Frame caching is invisible except for speed"
    lean_props = ["TIV.C09.Props"]
    driver = "drv_c09"
    partial = ("`hash` on render sizes is assumed injective (the image iterator keys its cache on hash(rendered_size)); "
               "checked by the harness on every size it meets; Pillow/BlockImage rendering is a parameter of the model")
    assumptions = [
        "the renderable is a function of the request when caching is on (`IsPure`)",
        "hash(rendered_size) is injective on the render sizes that occur",
        "image.n_frames is exact and Pillow raises EOFError exactly for frame numbers >= n_frames",
    ]
    quick_cases = 12000
    thorough_cases = 150000
    rule = ("paired histories generated from one PRNG state derived from VERIF_SEED; non-trivial = the cached iterator was "
            "really caching and the history revisits a frame (wraps or seeks back); distinct by request line")

    def gen_constants(self):
        sig = inspect.signature(RenderIterator.__init__).parameters
        isig = inspect.signature(ImageIterator.__init__).parameters

        class Probe(Renderable):
            def __init__(self):
                super().__init__(2, 1)

            def _get_render_size_(self):
                from term_image.geometry import Size
                return Size(1, 1)

            def _render_(self, d, a):  # pragma: no cover
                raise NotImplementedError

        it = iter(Probe())
        iter_cached = bool(it._cached)
        it.close()
        body = (
            "/-! GENERATED by harness/c09.py from the imported package — do not edit -/\n"
            "namespace TIV.C09.Generated\n"
            f"def iterDefaultCache : Int := {int(sig['cache'].default)}\n"
            f"def iterDefaultLoops : Int := {int(sig['loops'].default)}\n"
            f"def imageIterDefaultRepeat : Int := {int(isig['repeat'].default)}\n"
            f"def imageIterDefaultCached : Int := {int(isig['cached'].default)}\n"
            f"def renderableIterCache : Bool := {'true' if iter_cached else 'false'}\n"
            "end TIV.C09.Generated\n"
        )
        # C09's theorems are built on the C08 model: its constants are regenerated here too
        files = dict(c08.C08().gen_constants())
        files["TIV/C09/Generated.lean"] = body
        return files

    # -- generator --------------------------------------------------------------------
    def generate(self, rng: random.Random, tier: str):
        i = 0
        while True:
            i += 1
            m = i % 10
            if m in (0, 5, 8):
                yield self.gen_ipair(rng, tier)
            elif m in (6, 9):
                yield self.gen_draw(rng)
            elif m == 3:
                yield self.gen_decision(rng)
            elif m in (2, 7):
                yield self.gen_hashy(rng, tier)
            else:
                flavour = rng.choice(["definite"] * 8 + ["indefinite", "malformed"])
                c, ops = gen_case(rng, tier, flavour)
                if c["count"] is not None and c["count"] >= 2 and rng.random() < 0.7:
                    # make caching real and the history long enough to revisit frames
                    c["cache"] = rng.choice([["b", 1], ["n", c["count"]], ["n", c["count"] + 3]])
                    c["loops"] = rng.choice([2, 3, -1])
                    # revisit frames: run into the next loop(s) and seek back
                    extra = []
                    for _ in range(rng.randrange(0, 3 * c["count"])):
                        extra.append(["next"] if rng.random() < 0.8 else ["seek", rng.randrange(c["count"]), 0])
                    at = rng.randrange(len(ops) + 1)
                    ops = ops[:at] + extra + ops[at:]
                case = Case(case_line(c, ops, "pair"), {"cfg": c, "ops": ops}, "pair", True)
                res = self.impl(case)
                case._impl = res
                nc = res.split(" || ")
                really = len(nc) == 2 and " # " in nc[0] and " # " in nc[1] and \
                    nc[0].rsplit(" # ", 1)[1].split(" ")[0] != nc[1].rsplit(" # ", 1)[1].split(" ")[0]
                case.kind = "pair-cache-hit" if really else ("pair-ctor-error" if res.startswith("err") else "pair-no-hit")
                case.nontrivial = really
                yield case

    def gen_ipair(self, rng, tier):
        n = rng.choice([2, 3, 3, 4, 5])
        rep = rng.choice([1, 2, 2, 3, -1, -1])
        cache = rng.choice([["b", 1], ["b", 1], ["b", 0], ["n", n], ["n", n - 1], ["n", n + 1], ["n", 100]])
        malformed = rng.random() < 0.1
        if malformed:
            which = rng.choice(["rep", "cache", "n"])
            if which == "rep":
                rep = 0
            elif which == "cache":
                cache = ["n", rng.choice([0, -2])]
            else:
                n = 1
        width = rng.choice(WIDTHS)
        seekpos = rng.randrange(n) if rng.random() < 0.3 else 0
        maxlen = 30 if tier == "quick" else rng.choice([30, 80])
        ops = []
        for _ in range(rng.choice([1, 3, 6, 12, maxlen])):
            k = rng.random()
            if k < 0.62:
                ops.append(["next"])
            elif k < 0.82:
                ops.append(["seek", rng.randrange(-1, n + 1) if rng.random() < 0.3 else rng.randrange(max(n, 1))])
            elif k < 0.97:
                ops.append(["size", rng.choice(WIDTHS)])
            else:
                ops.append(["close"])
        cls = rng.choice(["block", "kitty", "kitty", "iterm2", "iterm2"])
        spec = rng.choice(SPECS[cls])
        if cls != "block" and not malformed and rng.random() < 0.5:
            # the image size changes after the frames were cached (first loop done), then frames are revisited
            ops = [["next"]] * (n + rng.choice([0, 1, 2]))
            for _ in range(rng.choice([1, 2, 3])):
                ops += [["size", rng.choice(WIDTHS)]] + ([["seek", rng.randrange(n)]] if rng.random() < 0.3 else []) \
                    + [["next"]] * rng.choice([1, n, n + 1])
            rep = rng.choice([2, 3, -1, -1]) if rep == 1 else rep
        src = "file" if (n >= 2 and rng.random() < 0.45) else "pil"
        if src == "file" and not malformed and rng.random() < 0.6:
            # replay pass of the cache with >= 2 re-renders: frames skipped by seek() in the first loop (holes),
            # or the image size changed in a later loop, then at least two frames
            n = max(n, 3)
            rep = rng.choice([2, 3, -1, -1])
            cache = rng.choice([["b", 1], ["n", n], ["n", 100]])
            seekpos = 0
            if rng.random() < 0.5:
                skip_to = rng.randrange(2, n)                 # frames 1 .. skip_to-1 are never rendered in loop 1
                ops = [["next"], ["seek", skip_to]] + [["next"]] * (n - skip_to + 1) + [["next"]] * rng.choice([n, n + 2])
            else:
                ops = [["next"]] * (n + rng.choice([1, 2])) + [["size", rng.choice([w for w in WIDTHS if w != width])]] \
                    + [["next"]] * rng.choice([2, 3, n + 1])
        dyn = None
        if not malformed and n >= 2 and rng.random() < 0.25:
            # dynamic image size (no set_size): the terminal is resized between loops and frames are revisited;
            # the spec asks for no padding ("1.1") so a frame's bytes depend on its rendered size only
            dyn = rng.choice(["FIT", "FIT_TO_WIDTH"] + (["AUTO"] if cls == "block" else []))
            spec = "1.1" if cls == "block" else rng.choice(["1.1", "1.1+W", "1.1+L"])
            rep = rng.choice([2, 3, -1, -1])
            cache = rng.choice([["b", 1], ["n", n], ["n", 100], ["b", 0]])
            ops = [["next"]] * (n + rng.choice([0, 1, 2]))
            for _ in range(rng.choice([1, 2, 3])):
                ops += [["size", rng.choice(WIDTHS)]] + ([["seek", rng.randrange(n)]] if rng.random() < 0.3 else []) \
                    + [["next"]] * rng.choice([1, n, n + 1])
        line = f"ipair {n} {rep} {toks(cache)} {width} {seekpos} {len(ops)}" + "".join(" " + toks(o) for o in ops)
        d = {"n": n, "rep": rep, "cache": cache, "width": width, "seekpos": seekpos, "ops": ops, "cls": cls, "spec": spec,
             "src": src, "dyn": dyn}
        nexts = sum(1 for o in ops if o[0] == "next")
        kind = "ipair-malformed" if malformed else ("ipair" if cls == "block" else
                                                     f"ipair-{cls}" + ("+style" if "+" in spec else "")) + \
            ("+file" if src == "file" else "") + ("+dynamic" if dyn else "")
        return Case(line, d, kind, nexts > n and rep != 1)

    def gen_hashy(self, rng, tier):
        """paired cached/uncached histories whose render-arg fields, durations and sizes come from a
        pool with hash-colliding values: unequal but hash-equal (-1/-2, x / x + (2**61 - 1), also inside
        `Size`) — a revisit after such a change must re-render — and equal *and* hash-equal spellings
        (True/1/1.0, 0/0.0/-0.0/False; `pyvar`) — a revisit after such a "change" may be served from the
        cache and must look the same.  The render iterator compares settings with `==`; `hash` plays no role."""
        M = 2**61 - 1
        n = rng.choice([2, 2, 3, 4])
        ints = [-1, -2, -1 - M, 0, 1, 2, 5, 5 + M, 1 + M]
        durs = [1, 7, 7 + M, 1 + M, "D"]
        sizes = [[2, 1], [2 + M, 1], [3, 1], [3 + M, 1], [2, 2]]
        c = {"count": n, "loops": rng.choice([-1, 2, 3]), "cache": rng.choice([["b", 1], ["n", n], ["n", 100]]),
             "padding": ["exact", 0, 0, 0, 0, 0], "args": rng.choice([None, ["own", rng.choice(ints), rng.choice(ints)]]),
             "size": rng.choice(sizes), "dur": rng.choice(durs), "rframe": 0, "term": [20, 6], "stream": 0,
             "stop_at": None, "fail_at": None, "ctor": rng.choice([0, 1]), "finalize": 1,
             "pyvar": rng.choice([0, 1, 1, 2, 3])}
        ops = []
        cur_args = list(c["args"][1:]) if c["args"] else [0, 0]
        cur_dur, cur_size = c["dur"], list(c["size"])
        for _ in range(rng.choice([2, 3, 4, 6] if tier == "quick" else [2, 4, 6, 10])):
            k = rng.random()
            if rng.random() < 0.3:
                # a setter called with a value EQUAL to the current one (always a new object: a fresh RenderArgs /
                # Size, an int parsed anew): nothing changes, cached frames stay valid
                if k < 0.5:
                    ops.append(["args", "own"] + cur_args)
                elif k < 0.75:
                    ops.append(["dur", cur_dur])
                else:
                    ops.append(["size"] + cur_size)
            elif k < 0.6:
                which = rng.random()
                if which < 0.4:
                    cur_args = [rng.choice(ints), rng.choice([0, 0, 1, rng.choice(ints)])]
                    ops.append(["args", "own"] + cur_args)
                elif which < 0.6:
                    cur_args = [rng.choice(ints), 0]
                    ops.append(["args", "base", cur_args[0]])
                else:
                    cur_args = [rng.choice([0, 1]), rng.choice(ints)]
                    ops.append(["args", "own"] + cur_args)
            elif k < 0.8:
                cur_dur = rng.choice(durs + [300, 1000])
                ops.append(["dur", cur_dur])
            else:
                cur_size = list(rng.choice(sizes))
                ops.append(["size"] + cur_size)
            # revisit: a whole loop, or seek back and a few frames
            if rng.random() < 0.6:
                ops += [["next"]] * rng.choice([n, n, n + 1])
            else:
                ops += [["seek", rng.randrange(n), 0]] + [["next"]] * rng.randrange(1, n + 1)
        ops = [["next"]] * rng.choice([1, n, n]) + ops
        case = Case(case_line(c, ops, "pair"), {"cfg": c, "ops": ops}, "pair-hashy", True)
        res = self.impl(case)
        case._impl = res
        return case

    def gen_draw(self, rng):
        """the public drawing path: loops (negative = infinite, 1, 2, 3) × cache (True, False, below /
        at / above the frame count, invalid) × where the animation is interrupted (k >= 2 full loops often)"""
        n = rng.choice([2, 3, 3, 4, 5])
        loops = rng.choice([-1, -1, -1, -3, 1, 2, 3])
        cache = rng.choice([["b", 1], ["b", 1], ["b", 0], ["n", n], ["n", n + 1], ["n", 100], ["n", n - 1], ["n", 1]])
        if rng.random() < 0.06:
            cache = ["n", rng.choice([0, -1])]
        full = rng.choice([2, 2, 3, 4])
        m = max(1, rng.choice([full * n, full * n + 1, full * n - 1, rng.randrange(1, 4 * n + 2)]))
        d = {"n": n, "loops": loops, "cache": cache, "m": m}
        kind = "draw-infinite" if loops < 0 else f"draw-loops{loops}"
        return Case(f"draw {n} {loops} {toks(cache)} {m}", d, kind, m + 1 > n and loops != 1)

    def gen_decision(self, rng):
        if rng.random() < 0.5:
            n = rng.choice([None, 2, 3, 5, 100, 101])
            loops = rng.choice([1, 2, -1, 3])
            cache = rng.choice([["b", 0], ["b", 1], ["n", 1], ["n", 2], ["n", 3], ["n", 4], ["n", 5], ["n", 99], ["n", 100], ["n", 101]])
            post = rng.random() < 0.4
            return Case(f"decision {'postponed ' if post else ''}{'none' if n is None else f'some {n}'} {loops} {toks(cache)}",
                        {"n": n, "loops": loops, "cache": cache, "postponed": post},
                        "decision-postponed" if post else "decision", True)
        n = rng.choice([2, 3, 5])
        rep = rng.choice([1, 2, -1])
        cache = rng.choice([["b", 0], ["b", 1], ["n", n - 1], ["n", n], ["n", n + 1], ["n", 100]])
        return Case(f"idecision {n} {rep} {toks(cache)}", {"n": n, "rep": rep, "cache": cache}, "idecision", True)

    # -- implementation ---------------------------------------------------------------
    def impl(self, case: Case) -> str:
        cached = getattr(case, "_impl", None)
        if cached is not None:
            return cached
        op = case.line.split(" ", 1)[0]
        d = case.data
        if op == "pair":
            return run_pair_real(d["cfg"], d["ops"])[0]
        if op == "ipair":
            cls, spec = d.get("cls", "block"), d.get("spec", "")
            src = d.get("src", "pil")
            dyn = d.get("dyn")
            a = run_image_iter(d["n"], d["rep"], d["cache"], d["width"], d["seekpos"], d["ops"], cls, spec, src, dyn)
            b = run_image_iter(d["n"], d["rep"], ["b", 0], d["width"], d["seekpos"], d["ops"], cls, spec, src, dyn)
            return a + " || " + b
        if op == "draw":
            return run_draw_real(d["n"], d["loops"], d["cache"], d["m"])[0]
        if op == "decision":
            n, loops, cache = d["n"], d["loops"], d["cache"]
            cval = bool(cache[1]) if cache[0] == "b" else cache[1]
            r = TR(n, 7, (1, 1), stream=3, postponed=bool(d.get("postponed")))
            try:
                it = RenderIterator(r, loops=loops, cache=cval)
            except Exception as e:  # noqa: BLE001
                return "err " + type(e).__name__
            direct = bool(it._cached)
            it.close()
            # what `_animate_` hands to the iterator it creates
            seen = {}
            orig = RenderIterator._from_render_data_.__func__

            def spy(cls, renderable, render_data, render_args=None, padding=None, loops_=1, cache_=100, **kw):
                seen["args"] = (loops_, cache_)
                raise KeyboardInterrupt

            RenderIterator._from_render_data_ = classmethod(spy)
            try:
                data = r._get_render_data_(iteration=True)
                try:
                    from term_image.padding import ExactPadding
                    from term_image.renderable import RenderArgs
                    r._animate_(data, RenderArgs(TR), ExactPadding(), loops, cval, io.StringIO())
                except KeyboardInterrupt:
                    pass
                finally:
                    data.finalize()
            finally:
                RenderIterator._from_render_data_ = classmethod(orig)
            it2 = RenderIterator(r, loops=seen["args"][0], cache=seen["args"][1])
            via_draw = bool(it2._cached)
            it2.close()
            return f"ok {int(direct)} {int(via_draw)}"
        if op == "idecision":
            img = mk_image(d["n"], 2)
            cval = bool(d["cache"][1]) if d["cache"][0] == "b" else d["cache"][1]
            it = ImageIterator(img, d["rep"], "", cval)
            res = bool(it._cached)
            it.close()
            return f"ok {int(res)}"
        return "harness-bad-op"

    # -- oracle -----------------------------------------------------------------------
    def oracle(self, case: Case, impl_result: str):
        op = case.line.split(" ", 1)[0]
        d = case.data
        if op == "pair":
            if not valid_cache(d["cfg"]["cache"]):
                return None  # the statement is about `cache` arguments the constructor accepts
            return self.judge_pair(d["cfg"], d["ops"], shrink=True)
        if op == "draw":
            return draw_verdict(d, impl_result)
        if op == "ipair":
            if not valid_cache(d["cache"]):
                return None
            parts = impl_result.split(" || ")
            if len(parts) != 2:
                return None
            a, b = (p.rsplit(" # ", 1)[0] for p in parts)
            if a != b:
                fa, fb = a.split(" | "), b.split(" | ")
                i = next((j for j in range(min(len(fa), len(fb))) if fa[j] != fb[j]), min(len(fa), len(fb)))
                opn = d["ops"][i][0] if i < len(d["ops"]) else "?"
                return Failure(f"image-iterator/cached-differs/{opn}",
                               f"ImageIterator({CLASSES[d.get('cls', 'block')].__name__}"
                               f"{'.from_file' if d.get('src') == 'file' else ''}"
                               f"{', size=Size.' + d['dyn'] + ' (`size w` = terminal resized to w columns)' if d.get('dyn') else ''}, repeat={d['rep']}, "
                               f"format_spec={d.get('spec', '')!r}) cached={toks(d['cache'])} vs uncached differ at op #{i} {opn}: "
                               f"`{fa[i] if i < len(fa) else None}` vs `{fb[i] if i < len(fb) else None}`")
            return None
        return None

    def judge_pair(self, c, ops, shrink=False):
        v = pair_verdict(c, ops)
        if v is None:
            return None
        key, what = v
        if shrink:
            ops2 = list(ops)
            changed = True
            while changed and len(ops2) > 1:
                changed = False
                i = 0
                while i < len(ops2):
                    cand = ops2[:i] + ops2[i + 1:]
                    v2 = pair_verdict(c, cand) if cand else None
                    if v2 and v2[0] == key:
                        ops2, what, changed = cand, v2[1], True
                    else:
                        i += 1
            ops = ops2
        return Failure(key, what, Case(case_line(c, ops, "pair"), {"cfg": c, "ops": ops}, "shrunk"))

    def search(self, rng, tier, reasons):
        """revisit every frame after changing exactly one setting (and changing it back)"""
        out, seen = [], set()
        settings = [["size", 3, 2], ["dur", 3], ["dur", "D"], ["args", "own", 1, 0], ["args", "own", 0, 2], ["args", "base", 2],
                    ["pad", "exact", 1, 1, 0, 0, 0], ["pad", "aligned", 0, -1, 1, 1, 0]]
        for n in (2, 3):
            for cache in (["b", 1], ["n", n]):
                c = {"count": n, "loops": -1, "cache": cache, "padding": ["exact", 0, 0, 0, 0, 0], "args": None,
                     "size": [2, 1], "dur": 7, "rframe": 0, "term": [12, 6], "stream": 0, "stop_at": None, "fail_at": None,
                     "ctor": 0, "finalize": 1}
                for st in settings:
                    for back in (None, ["size", 2, 1], ["dur", 7], ["args", "root"]):
                        ops = [["next"]] * n + [st] + [["next"]] * n + ([back] + [["next"]] * n if back else []) + \
                              [["seek", 0, 0], ["next"], ["seek", -1, 1], ["next"]]
                        f = self.judge_pair(c, ops, shrink=True)
                        if f and f.key not in seen:
                            seen.add(f.key)
                            out.append(f)
        for n in (2, 3, 4):
            for loops in (-1, -2, 1, 2, 3):
                for cache in (["b", 1], ["n", n], ["n", n + 1], ["n", 100]):
                    for m in (2 * n, 3 * n + 1):
                        d = {"n": n, "loops": loops, "cache": cache, "m": m}
                        case = Case(f"draw {n} {loops} {toks(cache)} {m}", d, "search")
                        f = draw_verdict(d, run_draw_real(n, loops, cache, m)[0])
                        if f and f.key not in seen:
                            seen.add(f.key)
                            f.case = case
                            out.append(f)
        for n in (2, 3):
            for wseq in ([2, 3], [3, 2, 3], [4, 4, 2]):
                ops = [["next"]] * (n + 1)
                for w in wseq:
                    ops += [["size", w]] + [["next"]] * n
                for cls, spec, src in (("block", "", "pil"), ("block", "", "file"), ("kitty", "+Wz-7m1c0", "pil"),
                                       ("kitty", "+m1c9", "file"), ("iterm2", "+Wm1c0", "pil"), ("iterm2", "+c3", "file")):
                    d = {"n": n, "rep": -1, "cache": ["b", 1], "width": 2, "seekpos": 0, "ops": ops, "cls": cls, "spec": spec,
                         "src": src}
                    line = f"ipair {n} -1 b 1 2 0 {len(ops)}" + "".join(" " + toks(o) for o in ops)
                    case = Case(line, d, "search")
                    f = self.oracle(case, self.impl(case))
                    if f and f"{f.key}/{cls}" not in seen:
                        seen.add(f"{f.key}/{cls}")
                        f.case = case
                        out.append(f)
        return out

    def extra_checks(self, rng, tier, ev):
        """targeted sweep on the real code (both tiers): revisit every frame after changing exactly
        one setting, and after changing it back; image iterator: resize sequences across loops"""
        fails = self.search(rng, tier, [])
        ev["coverage"]["render_size_hashes_seen"] = len(HASHES)
        ev["coverage"]["hash_injective_on_sizes_met"] = True  # expect_table() raises otherwise
        return fails


def draw_verdict(d, impl_result):
    """the property on the real drawing path: when the `cache` argument enables caching for the source
    (documented rule: `True`, or an integer >= frame_count) no frame index is rendered twice during one
    draw() — whatever the loop count (negative = infinite included; with loops == 1 no frame is
    revisited in the first place)"""
    if not impl_result.startswith("ok "):
        return None
    n, loops, cache = d["n"], d["loops"], d["cache"]
    enabling = (cache[0] == "b" and cache[1] == 1) or (cache[0] == "n" and cache[1] >= n)
    if not enabling:
        return None
    counts = [int(x) for x in impl_result[3:].split(" # ")[0].split()]
    worst = max(range(n), key=lambda k: counts[k])
    if counts[worst] > 1:
        lk = "infinite" if loops < 0 else str(loops)
        return Failure(f"draw/rerender/loops-{'negative' if loops < 0 else loops}",
                       f"draw(loops={loops}, cache={'True' if cache[0] == 'b' else cache[1]}) of a {n}-frame animation "
                       f"({lk} looping, interrupted at sleep #{d['m']}): caching is requested and applies "
                       f"(frame_count={n}), settings never changed, yet `_render_` was called {counts} times per frame "
                       f"(frame {worst}: {counts[worst]}x)")
    return None


def valid_cache(cache) -> bool:
    return cache[0] == "b" or cache[1] > 0


def pair_verdict(c, ops):
    """the property on the real code: cached ≡ uncached; no re-render within a stretch"""
    rr_a = c08.RealRun(c)
    rr_b = c08.RealRun(dict(c, cache=["b", 0]))
    if rr_a.error or rr_b.error:
        if rr_a.error != rr_b.error:
            return ("render-iterator/ctor-differs", f"constructor: cached → {rr_a.error}, uncached → {rr_b.error}")
        return None
    really_cached = bool(rr_a.it._cached)
    per_op, accepted = [], []
    try:
        for i, op in enumerate(ops):
            before = len(rr_a.r.calls)
            a = rr_a.do(op)
            b = rr_b.do(op)
            per_op.append(rr_a.r.calls[before:])
            accepted.append(a.startswith("ok"))
            if a != b:
                return (f"render-iterator/cached-differs/{c08.op_name(op)}",
                        f"cache={toks(c['cache'])} vs cache off differ at op #{i} {toks(op)}: `{a}` vs `{b}`")
        if really_cached:
            bad = stretch_rerender(c, ops, per_op, accepted)
            if bad:
                return ("render-iterator/rerender-in-stretch",
                        f"cached iterator rendered frame {bad[1]} a second time at op #{bad[0]} ({toks(ops[bad[0]])}) although "
                        f"the values of size/duration/args had not changed since it was cached")
    finally:
        rr_a.finish()
        rr_b.finish()
    return None


if __name__ == "__main__":
    fw.main(C09)
