#!/venv/bin/python
"""C08 — a render iterator yields exactly the frames its operation history dictates
(DESIGN.md §5 C08).

Tie: random type-directed operation histories are run on a real `RenderIterator` over a
recording test renderable (`TR`, definite n >= 2 or INDEFINITE with a k-frame stream) and on the
Lean model (`drv_c08 run …`); compared per operation: the frame (number, duration, render size,
the padding found in the output, the request the renderable answered), `iterator.loop`,
`renderable.tell()`, the error class.  Oracle: the documented model re-implemented in Python
(`PySpec`), independent of the Lean side.
"""
from __future__ import annotations

import inspect
import os
import random
import sys

sys.path.insert(0, os.path.dirname(os.path.abspath(__file__)))
from common import framework as fw  # noqa: E402
from common.framework import Case, Failure, Property  # noqa: E402

fw.setup_import_path()

import term_image.padding as _padding_mod  # noqa: E402
import term_image.render._iterator as _it  # noqa: E402
import term_image.renderable._renderable as _rr  # noqa: E402
from term_image.geometry import Size  # noqa: E402
from term_image.padding import AlignedPadding, ExactPadding, HAlign, VAlign  # noqa: E402
from term_image.render import RenderIterator  # noqa: E402
from term_image.renderable import (  # noqa: E402
    ArgsNamespace,
    DataNamespace,
    Frame,
    FrameCount,
    FrameDuration,
    Renderable,
    RenderArgs,
    Seek,
)

# --------------------------------------------------------------------------------------
# environment: the terminal size the library sees (no tty involved)

_TERM = [os.terminal_size((80, 30))]


def _get_terminal_size():
    return _TERM[0]


# The library's modules take `get_terminal_size` from `term_image.utils` (the active terminal).  Only such a
# binding is redirected to the controlled terminal; a module that binds anything else (e.g. shutil's, which
# answers from COLUMNS/LINES or a fallback) is left alone, so its answer — made different from every controlled
# size below — shows up in the frames.  What each module binds is also a generated constant.
os.environ["COLUMNS"], os.environ["LINES"] = "77", "23"
TERMSIZE_BINDING = {}
for _mod, _name in ((_it, "render._iterator"), (_rr, "renderable._renderable")):
    _fn = getattr(_mod, "get_terminal_size", None)
    TERMSIZE_BINDING[_name] = getattr(_fn, "__module__", "?")
    if TERMSIZE_BINDING[_name] in ("term_image.utils", "common.env"):
        TERMSIZE_BINDING[_name] = "term_image.utils"
        setattr(_mod, "get_terminal_size", _get_terminal_size)


def set_term(w, h):
    _TERM[0] = os.terminal_size((w, h))


FILLS = [" ", "*"]
SEEKS = [Seek.START, Seek.CURRENT, Seek.END]

# --------------------------------------------------------------------------------------
# the recording test renderable: TR(Base(Renderable)), plus an unrelated class for foreign args


class Base(Renderable):
    def _get_render_size_(self):
        return self.size

    def _render_(self, render_data, render_args):  # pragma: no cover
        raise NotImplementedError


class BaseArgs(ArgsNamespace, render_cls=Base):
    foo: int = 0


def _num(v) -> str:
    return str(v).replace("-", "m")


def serial(pos, off, whence, w, h, dur, foo, bar) -> str:
    """one line of a render output: the request, in an alphabet free of blanks/fill/newline"""
    return f"p{_num(pos)}o{_num(off)}k{whence}s{w}x{h}d{_num(dur)}a{_num(foo)}_{_num(bar)}"


def unserial(text: str) -> str:
    """inverse of `serial`, into the driver's format `pos off whence w h dur foo bar`"""
    import re

    m = re.fullmatch(r"p(m?\d+)o(m?\d+)k(\d)s(\d+)x(\d+)d(D|m?\d+)a(m?\d+)_(m?\d+)", text)
    if not m:
        raise ValueError(text)
    return " ".join(g.replace("m", "-") for g in m.groups())


class TR(Base):
    def __init__(self, count, dur, size, stream=0, stop_at=None, fail_at=None, postponed=False):
        # `postponed`: constructed with FrameCount.POSTPONED; `_get_frame_count_()` resolves it to `count`
        self._resolves_to = FrameCount.INDEFINITE if count is None else count
        super().__init__(FrameCount.POSTPONED if postponed else self._resolves_to, dur)
        self.size = Size(*size)
        self.stream, self.stop_at, self.fail_at = stream, stop_at, fail_at
        self.calls = []
        self.definite = count is not None

    def _get_frame_count_(self):
        return self._resolves_to

    def _get_render_data_(self, *, iteration):
        render_data = super()._get_render_data_(iteration=iteration)
        render_data[TR].pos = 0
        return render_data

    def _render_(self, render_data, render_args):
        d = render_data[Renderable]
        mine = render_data[TR]
        off, whence, size, dur = d.frame_offset, d.seek_whence, d.size, d.duration
        # equal settings give equal output: True / 1 / 1.0 and 0.0 / -0.0 / 0 / False are the same value
        foo, bar = int(render_args[Base].foo), int(render_args[TR].bar)
        if dur is not FrameDuration.DYNAMIC:
            dur = int(dur)
        durs = "D" if dur is FrameDuration.DYNAMIC else dur
        self.calls.append(f"{off} {whence.value} {size.width} {size.height} {durs} {foo} {bar}")
        if self.definite:
            if self.stop_at == off:
                raise StopIteration
            if self.fail_at == off:
                raise RuntimeError("tr-fail")
            number, pos = off, 0
        else:
            target = off if whence is Seek.START else mine.pos + off if whence is Seek.CURRENT else self.stream - 1 + off
            target = max(target, 0)
            if target >= self.stream or self.stop_at == target:
                raise StopIteration
            if self.fail_at == target:
                raise RuntimeError("tr-fail")
            mine.pos = target + 1
            number = pos = target
        duration = 10 * (number + 1) if dur is FrameDuration.DYNAMIC else dur
        text = serial(pos, off, whence.value, size.width, size.height, durs, foo, bar)
        return Frame(number, duration, size, "\n".join([text] * size.height))


class TRArgs(ArgsNamespace, render_cls=TR):
    bar: int = 0


class TRData(DataNamespace, render_cls=TR):
    pos: int


class Other(Renderable):
    def _get_render_size_(self):
        return Size(1, 1)

    def _render_(self, render_data, render_args):  # pragma: no cover
        raise NotImplementedError


class OtherArgs(ArgsNamespace, render_cls=Other):
    baz: int = 0


# --------------------------------------------------------------------------------------
# wire format


class AppPadding(AlignedPadding):
    """a trivial application subclass (`AlignedPadding.resolve()` builds `type(self)(…)`)"""


PAD_SUB = [False]  # per run (cfg `padsub`): aligned paddings are instances of the subclass


def mk_padding(p):
    if p[0] == "exact":
        return ExactPadding(p[1], p[2], p[3], p[4], FILLS[p[5]])
    cls = AppPadding if PAD_SUB[0] else AlignedPadding
    return cls(p[1], p[2], HAlign(p[3]), VAlign(p[4]), FILLS[p[5]])


# Python spellings of one wire value (equal AND hash-equal objects of different types).  `mode` 0 = the
# value as is; otherwise the spelling cycles deterministically with a per-run counter, so a cached and
# an uncached run of the same history receive the same objects.
PYVAR = {"mode": 0, "ctr": 0}


def pyval(v, ints_only=False):
    if not PYVAR["mode"] or not isinstance(v, int):
        return v
    PYVAR["ctr"] += 1
    if v == 1:
        choices = [1, True] if ints_only else [1, True, 1.0]
    elif v == 0:
        choices = [0, False] if ints_only else [0, 0.0, -0.0, False]
    elif abs(v) < 100 and not ints_only:
        choices = [v, float(v)]
    else:
        choices = [v]
    return choices[(PYVAR["ctr"] * PYVAR["mode"]) % len(choices)]


def mk_args(a):
    if a[0] == "own":
        return RenderArgs(TR, BaseArgs(pyval(a[1])), TRArgs(pyval(a[2])))
    if a[0] == "base":
        return RenderArgs(Base, BaseArgs(pyval(a[1])))
    if a[0] == "root":
        return RenderArgs(Renderable)
    return RenderArgs(Other)


def mk_dur(d):
    if d == "D":
        return FrameDuration.DYNAMIC
    d = pyval(d, ints_only=True)
    # a fresh object every time (CPython shares small ints only): an equal duration is not the identical one
    return int(str(d)) if type(d) is int else d


def toks(x) -> str:
    return " ".join(str(t) for t in x)


def opt(v) -> str:
    return "none" if v is None else f"some {v}"


def cfg_line(c) -> str:
    return " ".join([
        ("postponed " if c.get("postponed") else "") + opt(c["count"]), str(c["loops"]), toks(c["cache"]), toks(c["padding"]),
        "none" if c["args"] is None else "some " + toks(c["args"]),
        toks(c["size"]), str(c["dur"]), str(c["rframe"]), toks(c["term"]),
        str(c["stream"]), opt(c["stop_at"]), opt(c["fail_at"]),
    ])


def case_line(c, ops, op="run") -> str:
    return f"{op} {cfg_line(c)} {len(ops)}" + "".join(" " + toks(o) for o in ops)


def err_name(e: BaseException) -> str:
    if isinstance(e, RuntimeError) and str(e) == "tr-fail":
        return "RenderFailure"
    return type(e).__name__


def decode_frame(f: Frame) -> str:
    """`f num dur w h l t r b fill <request>` — the padding is read off the output itself"""
    out = f.render_output
    lines = out.split("\n")
    fillset = set(FILLS)

    def is_fill(line):
        return all(ch in fillset for ch in line)

    top = 0
    while top < len(lines) and is_fill(lines[top]):
        top += 1
    bottom = 0
    while bottom < len(lines) - top and is_fill(lines[len(lines) - 1 - bottom]):
        bottom += 1
    content = lines[top:len(lines) - bottom]
    if not content:
        return f"f {f.number} {f.duration} {f.render_size.width} {f.render_size.height} garbled-empty"
    first = content[0]
    left = len(first) - len(first.lstrip("".join(FILLS)))
    right = len(first) - len(first.rstrip("".join(FILLS)))
    inner = first[left:len(first) - right]
    fills = set(out) & fillset
    try:
        req = unserial(inner)
    except ValueError:
        return f"f {f.number} {f.duration} {f.render_size.width} {f.render_size.height} garbled-inner"
    iw, ih = int(req.split()[3]), int(req.split()[4])
    if left == top == right == bottom == 0:
        fill = "-"
        fch = " "
    else:
        if len(fills) != 1:
            return f"f {f.number} {f.duration} {f.render_size.width} {f.render_size.height} garbled-fill"
        fch = fills.pop()
        fill = str(FILLS.index(fch))
    # self-check: the output is exactly the padding of `ih` copies of the request line
    width = left + iw + right
    edge = [fch * width] if top or bottom else [""]  # (a huge declared width must not be materialised)
    expect = edge * top + [fch * left + inner + fch * right] * ih + edge * bottom
    if lines != expect:
        return f"f {f.number} {f.duration} {f.render_size.width} {f.render_size.height} garbled-layout"
    return (f"f {f.number} {f.duration} {f.render_size.width} {f.render_size.height} "
            f"{left} {top} {right} {bottom} {fill} {req}")


NOISE = [((7, 3), 99), ((1, 1), FrameDuration.DYNAMIC), ((5, 2), 1)]


class RealRun:
    """a real RenderIterator over a TR, driven by wire ops"""

    def __init__(self, c):
        set_term(*c["term"])
        PYVAR["mode"], PYVAR["ctr"] = c.get("pyvar", 0), 0
        PAD_SUB[0] = bool(c.get("padsub"))
        self.r = r = TR(c["count"], mk_dur(c["dur"]) if c["count"] != 1 else 1, c["size"], c["stream"], c["stop_at"], c["fail_at"],
                           postponed=bool(c.get("postponed")) and c["count"] != 1)
        if c["rframe"]:
            r.seek(c["rframe"])
        self.noise = 0
        self.error = None
        self.it = None
        loops = c["loops"]
        cache = bool(c["cache"][1]) if c["cache"][0] == "b" else c["cache"][1]
        args = None if c["args"] is None else mk_args(c["args"])
        padding = mk_padding(c["padding"])
        try:
            # `kw`: how loops/cache are handed over — 0 positional, 1 both by keyword, 2 loops positional + cache keyword
            kw = c.get("kw", 0)
            pos = () if kw == 1 else (loops,) if kw == 2 else (loops, cache)
            kws = {"loops": loops, "cache": cache} if kw == 1 else {"cache": cache} if kw == 2 else {}
            if c.get("ctor", 0) == 0:
                self.it = RenderIterator(r, args, padding, *pos, **kws)
            else:
                data = r._get_render_data_(iteration=True)
                try:
                    self.it = RenderIterator._from_render_data_(r, data, args, padding, *pos,
                                                                finalize=bool(c.get("finalize", 1)), **kws)
                except BaseException:
                    data.finalize()
                    raise
        except Exception as e:  # noqa: BLE001
            self.error = err_name(e)

    def do(self, op) -> str:
        it, r = self.it, self.r
        try:
            k = op[0]
            if k == "next":
                res = decode_frame(next(it))
            else:
                if k == "seek":
                    it.seek(op[1], SEEKS[op[2]])
                elif k == "dur":
                    it.set_frame_duration(mk_dur(op[1]))
                elif k == "pad":
                    it.set_padding(mk_padding(op[1:]))
                elif k == "args":
                    it.set_render_args(mk_args(op[1:]))
                elif k == "size":
                    it.set_render_size(Size(op[1], op[2]))
                elif k == "close":
                    it.close()
                elif k == "poke":
                    it.loop = op[1]
                elif k == "rseek":
                    r.seek(op[1], SEEKS[op[2]])
                elif k == "rnoise":
                    sz, du = NOISE[self.noise % len(NOISE)]
                    self.noise += 1
                    r.size = Size(*sz)
                    r.frame_duration = du
                elif k == "term":
                    set_term(op[1], op[2])
                else:
                    raise KeyError(k)
                res = "ok"
        except StopIteration:
            res = "e StopIteration"
        except Exception as e:  # noqa: BLE001
            res = "e " + err_name(e)
        return f"{res} L{it.loop} T{r.tell()}"

    def finish(self):
        if self.it is not None:
            self.it.close()


def run_real(c, ops):
    rr = RealRun(c)
    if rr.error:
        return "err " + rr.error, rr
    obs = [rr.do(op) for op in ops]
    rr.finish()
    return "ok " + " | ".join(obs), rr


# --------------------------------------------------------------------------------------
# the documented model, in Python (oracle; independent of the Lean side)


class PySpec:
    def __init__(self, c):
        self.error = None
        n = c["count"]
        if n is not None and n < 2:
            self.error = "ValueError"
            return
        if c["loops"] == 0 or (c["cache"][0] == "n" and c["cache"][1] <= 0):
            self.error = "ValueError"
            return
        if c["args"] is not None and c["args"][0] == "foreign":
            self.error = "IncompatibleRenderArgsError"
            return
        self.n = n
        self.stream, self.stop_at, self.fail_at = c["stream"], c["stop_at"], c["fail_at"]
        self.closed = False
        self.next = 0
        self.left = 1 if n is None else c["loops"]
        self.shown = self.left
        self.pending = (0, 0)
        self.pos = 0
        self.size = tuple(c["size"])
        self.dur = c["dur"]
        self.args = self.conv(c["args"]) if c["args"] is not None else (0, 0)
        self.term = tuple(c["term"])
        self.tell = c["rframe"]
        self.padding = self.take_in(c["padding"])

    @staticmethod
    def conv(a):
        return {"own": lambda: (a[1], a[2]), "base": lambda: (a[1], 0), "root": lambda: (0, 0)}[a[0]]()

    def take_in(self, p):
        p = mk_padding(p)
        if isinstance(p, AlignedPadding):
            p = p.resolve(os.terminal_size(self.term))
        return p

    def render(self, off, whence):
        """the test renderable, functionally: → ('frame', number, pos) | 'stop' | 'fail'"""
        if self.n is not None:
            if self.stop_at == off:
                return "stop"
            if self.fail_at == off:
                return "fail"
            return ("frame", off, 0)
        target = max(off if whence == 0 else self.pos + off if whence == 1 else self.stream - 1 + off, 0)
        if target >= self.stream or self.stop_at == target:
            return "stop"
        if self.fail_at == target:
            return "fail"
        self.pos = target + 1
        return ("frame", target, target)

    def present(self, number, pos, off, whence):
        w, h = self.size
        dur = 10 * (number + 1) if self.dur == "D" else self.dur
        pw, ph = self.padding.get_padded_size(Size(w, h))
        l, t, r, b = self.padding._get_exact_dimensions_(Size(w, h))
        fill = "-" if l == t == r == b == 0 else str(FILLS.index(self.padding.fill))
        return (f"f {number} {dur} {pw} {ph} {l} {t} {r} {b} {fill} "
                f"{pos} {off} {whence} {w} {h} {self.dur} {self.args[0]} {self.args[1]}")

    def step(self, op) -> str:
        k = op[0]
        if k == "next":
            if self.closed:
                return "e StopIteration"
            if self.n is not None:
                if self.next >= self.n:
                    self.next = 0
                    if self.left > 0:
                        self.left -= 1
                        self.shown = self.left
                if self.left == 0:
                    self.closed = True
                    return "e StopIteration"
                res = self.render(self.next, 0)
                if res == "stop":
                    self.closed = True
                    return "e StopDefiniteIterationError"
                off, whence = self.next, 0
            else:
                off, whence = self.pending
                res = self.render(off, whence)
                if res == "stop":
                    self.closed = True
                    self.shown = 0
                    return "e StopIteration"
            if res == "fail":
                self.closed = True
                return "e RenderFailure"
            if self.n is not None:
                self.next += 1
            else:
                self.pending = (0, 1)
            return self.present(res[1], res[2], off, whence)
        if k in ("rseek", "rnoise", "term", "poke", "close"):
            if k == "rseek":
                if self.n is None:
                    return "e IndefiniteSeekError"
                tgt = op[1] if op[2] == 0 else self.tell + op[1] if op[2] == 1 else self.n - 1 + op[1]
                if not 0 <= tgt < self.n:
                    return "e ValueError"
                self.tell = tgt
            elif k == "term":
                self.term = (op[1], op[2])
            elif k == "poke":
                self.shown = op[1]
            elif k == "close":
                self.closed = True
            return "ok"
        if self.closed:
            return "e FinalizedIteratorError"
        if k == "seek":
            off, wh = op[1], op[2]
            if self.n is None:
                if (wh == 0 and off < 0) or (wh == 2 and off > 0):
                    return "e ValueError"
                self.pending = (off, wh)
                return "ok"
            tgt = off if wh == 0 else self.next + off if wh == 1 else self.n - 1 + off
            if not 0 <= tgt < self.n:
                return "e ValueError"
            self.next = tgt
            return "ok"
        if k == "dur":
            if op[1] != "D" and op[1] <= 0:
                return "e ValueError"
            self.dur = op[1]
            return "ok"
        if k == "pad":
            self.padding = self.take_in(op[1:])
            return "ok"
        if k == "args":
            if op[1] == "foreign":
                return "e IncompatibleRenderArgsError"
            self.args = self.conv(op[1:])
            return "ok"
        if k == "size":
            self.size = (op[1], op[2])
            return "ok"
        raise KeyError(k)

    def snapshot(self):
        return dict(vars(self))

    def restore(self, snap):
        self.__dict__.update(snap)


def op_name(op) -> str:
    k = op[0]
    if k == "pad":
        rel = op[1] == "aligned" and not (op[2] > 0 and op[3] > 0)
        return "set_padding/" + ("relative" if rel else op[1])
    return {"seek": "seek", "dur": "set_frame_duration", "args": "set_render_args", "size": "set_render_size",
            "next": "next", "close": "close", "poke": "loop=", "rseek": "Renderable.seek", "rnoise": "renderable-change",
            "term": "terminal-resize"}[k]


def judge(c, ops, impl_result: str):
    """Compare what the real iterator did with the documented model.  → None | (key, what)"""
    spec = PySpec(c)
    if impl_result.startswith("harness-exc"):
        return None
    if spec.error or impl_result.startswith("err "):
        want = "err " + spec.error if spec.error else "ok"
        got = impl_result.split(" | ")[0] if impl_result.startswith("err ") else "ok"
        if (want != got):
            return (f"construct/{want.replace(' ', '-')}-vs-{got.replace(' ', '-')}",
                    f"constructor: documented model says `{want}`, the code did `{got}`")
        return None
    got = impl_result[3:].split(" | ") if ops else []
    if len(got) != len(ops):
        return ("shape", f"{len(got)} observations for {len(ops)} operations")
    rejected = None  # (index, opname, error) of an operation the code rejected although the model accepts it
    for i, (op, g) in enumerate(zip(ops, got)):
        snap = spec.snapshot()
        resp = spec.step(op)
        want = f"{resp} L{spec.shown} T{spec.tell}"
        if want == g:
            continue
        gresp = g.rsplit(" L", 1)[0]
        if op[0] not in ("next", "close") and gresp.startswith("e ") and resp == "ok" and rejected is None:
            # rejected by the code: the documented contract then is "state unchanged"
            spec.restore(snap)
            if f"{gresp} L{spec.shown} T{spec.tell}" == g:
                rejected = (i, op_name(op), gresp[2:])
                continue
        if rejected is not None:
            j, name, err = rejected
            return (f"reject-changed-state/{name}/{err}",
                    f"op #{j} {name} raised {err} (rejected) yet changed the iterator: op #{i} {toks(op)} gave `{g}`, "
                    f"the state before op #{j} dictates `{want}`")
        kind = "frame" if resp.startswith("f ") else resp.replace(" ", "-")
        gkind = "frame" if gresp.startswith("f ") else gresp.replace(" ", "-")
        field = ""
        if kind == gkind == "frame":
            names = ["", "number", "duration", "width", "height", "pad-left", "pad-top", "pad-right", "pad-bottom", "fill",
                     "stream-pos", "frame_offset", "seek_whence", "req-width", "req-height", "req-duration", "foo", "bar"]
            a, b = want.split(), g.split()
            field = next((names[x] if x < len(names) else "loop/tell" for x in range(min(len(a), len(b))) if a[x] != b[x]), "len")
            field = "/" + field
        return (f"diverge/{op_name(op)}/{kind}-vs-{gkind}{field}",
                f"op #{i} {toks(op)}: documented model dictates `{want}`, the code gave `{g}`")
    if rejected is not None:
        j, name, err = rejected
        return (f"undocumented-error/{name}/{err}", f"op #{j} {name} raised {err}, which the documented model does not")
    return None


# --------------------------------------------------------------------------------------
# generator


def gen_padding(rng, size, term, relative_ok=True):
    k = rng.random()
    f = rng.choice([0, 0, 1])
    if k < 0.2:
        return ["exact", 0, 0, 0, 0, f]
    if k < 0.5:
        return ["exact", rng.choice([0, 1, 2]), rng.choice([0, 0, 1]), rng.choice([0, 1, 3]), rng.choice([0, 0, 2]), f]
    ha, va = rng.randrange(3), rng.randrange(3)
    if k < 0.8 or not relative_ok:
        # absolute, around the render size (below, equal, above)
        return ["aligned", max(1, size[0] + rng.choice([-1, 0, 1, 2, 5])), max(1, size[1] + rng.choice([-1, 0, 1, 3])), ha, va, f]
    # terminal-relative in one or both dimensions (around 0 and around -terminal)
    w = rng.choice([0, -1, -2, -term[0], -term[0] - 3, size[0] + 2])
    h = rng.choice([0, -1, -2, -term[1], -term[1] - 1, size[1] + 1])
    if w > 0 and h > 0:
        h = 0
    return ["aligned", w, h, ha, va, f]


def gen_args(rng, malformed):
    k = rng.random()
    if k < 0.5:
        return ["own", rng.choice([0, 1, 2]), rng.choice([0, 1, 2])]
    if k < 0.75:
        return ["base", rng.choice([0, 1, 2])]
    if k < 0.9 or not malformed:
        return ["root"]
    return ["foreign"]


def gen_case(rng, tier, flavour):
    malformed = flavour == "malformed"
    indefinite = flavour == "indefinite" or (malformed and rng.random() < 0.3)
    n = None if indefinite else rng.choice([2, 2, 3, 3, 4, 5, 6])
    term = [rng.choice([8, 12, 20]), rng.choice([4, 6, 9])]
    size = [rng.choice([1, 2, 3, 4]), rng.choice([1, 1, 2, 3])]
    loops = rng.choice([-1, -3, 1, 1, 2, 2, 3])
    if n is None:
        cache = rng.choice([["b", 0], ["b", 1], ["n", 100], ["n", 1]])
    else:
        cache = rng.choice([["b", 0], ["b", 1], ["b", 1], ["n", n - 1] if n > 1 else ["n", 1], ["n", n], ["n", n + 1], ["n", 100]])
    c = {
        "count": n, "loops": loops, "cache": cache,
        "padding": gen_padding(rng, size, term),
        "args": None if rng.random() < 0.5 else gen_args(rng, False),
        "size": size, "dur": rng.choice(["D", 1, 5, 7, 7]),
        "rframe": 0 if n is None or rng.random() < 0.6 else rng.randrange(n),
        "term": term,
        "stream": rng.choice([0, 1, 2, 3, 5, 8]) if n is None else 0,
        "stop_at": None, "fail_at": None,
        "ctor": rng.choice([0, 0, 1, 1]), "finalize": rng.choice([0, 1]), "kw": rng.choice([0, 1, 1, 2]),
        "padsub": rng.random() < 0.4,  # aligned paddings as instances of a subclass of AlignedPadding
        # constructed with FrameCount.POSTPONED, resolved by the `frame_count` property to `count`
        "postponed": rng.random() < 0.25,
    }
    if rng.random() < 0.08:
        hi = n if n is not None else max(1, c["stream"])
        c[rng.choice(["stop_at", "fail_at"])] = rng.randrange(hi)
    if malformed and rng.random() < 0.25:
        which = rng.choice(["loops", "cache", "count", "args"])
        if which == "loops":
            c["loops"] = 0
        elif which == "cache":
            c["cache"] = ["n", rng.choice([0, -1])]
        elif which == "count":
            c["count"], c["rframe"], c["stream"] = 1, 0, 0
            c["postponed"] = False  # a postponed count resolving to 1 is invalid by the documentation
            n = 1
        else:
            c["args"] = ["foreign"]
    maxlen = 40 if tier == "quick" else rng.choice([40, 40, 120, 400])
    length = rng.choice([1, 2, 3, 5, 8, 12, 20, maxlen])
    ops = []
    cur_size = list(size)
    nn = n or 4
    for _ in range(length):
        k = rng.random()
        if k < 0.48:
            ops.append(["next"])
        elif k < 0.66:
            wh = rng.randrange(3)
            if n is None:
                off = rng.choice([0, 1, 2, -1, -2, 3, -5, 7]) if malformed or rng.random() < 0.3 else \
                    {0: rng.choice([0, 1, 2, 4]), 1: rng.choice([-2, -1, 0, 1, 2]), 2: rng.choice([0, -1, -2])}[wh]
            else:
                off = rng.randrange(-nn - 1, nn + 2)
                if wh == 2 and rng.random() < 0.7:
                    off = rng.randrange(-nn, 2)
                if wh == 0 and rng.random() < 0.7:
                    off = rng.randrange(-1, nn + 1)
            ops.append(["seek", off, wh])
        elif k < 0.72:
            d = rng.choice(["D", 1, 5, 7, 9])
            if malformed and rng.random() < 0.4:
                d = rng.choice([0, -1, -7])
            ops.append(["dur", d])
        elif k < 0.80:
            ops.append(["pad"] + gen_padding(rng, cur_size, term))
        elif k < 0.86:
            ops.append(["args"] + gen_args(rng, malformed))
        elif k < 0.92:
            cur_size = [rng.choice([1, 2, 3, 4]), rng.choice([1, 2, 3])]
            ops.append(["size"] + cur_size)
        elif k < 0.935:
            ops.append(["close"])
        elif k < 0.95:
            ops.append(["poke", rng.choice([0, 1, 5, -2])])
        elif k < 0.97:
            ops.append(["rseek", rng.randrange(-nn, nn + 1), rng.randrange(3)])
        elif k < 0.985:
            ops.append(["rnoise"])
        else:
            term = [rng.choice([8, 12, 20]), rng.choice([4, 6, 9])]
            ops.append(["term"] + term)
    return c, ops


def describe(c, ops, result: str):
    kind = "indefinite" if c["count"] is None else "definite"
    if result.startswith("err"):
        return "ctor-error", True
    from_spec_cached = c["count"] is not None and (bool(c["cache"][1]) if c["cache"][0] == "b" else c["count"] <= c["cache"][1])
    kind += "-cached" if from_spec_cached else "-plain"
    obs = result[3:].split(" | ") if ops else []
    frames = sum(1 for o in obs if o.startswith("f "))
    errs = sum(1 for o, op in zip(obs, ops) if o.startswith("e ") and op[0] != "next")
    if any(op[0] == "pad" and op[1] == "aligned" and not (op[2] > 0 and op[3] > 0) for op in ops):
        kind += "+relpad"
    if errs:
        kind += "+rejects"
    if c["count"] is not None and frames > c["count"]:
        kind += "+wraps"
    return kind, frames >= 1 and len(ops) >= 2


from common.py2lean_specs import with_translation  # noqa: E402


@with_translation
class C08(Property):
    id = "C08"
    title = "A render iterator yields exactly the frames its operation history dictates"
    lean_props = ["TIV.C08.Props"]
    driver = "drv_c08"
    partial = ""
    assumptions = [
        "the renderable is a deterministic function of what `_render_` can read (render data fields, render args, "
        "its own per-iteration state); for the cached case: of the request alone (`Pure`)",
        "CPython generator semantics: the body of `_iterate` runs between two `yield`s exactly as written",
    ]
    quick_cases = 20000
    thorough_cases = 300000
    rule = ("operation histories are generated type-directed from one PRNG state derived from VERIF_SEED; a case is "
            "non-trivial when the real iterator yielded at least one frame and the history has at least two operations; "
            "distinct by the hash of the request line")

    # -- translator -------------------------------------------------------------------
    def gen_constants(self):
        sig = inspect.signature(RenderIterator.__init__).parameters
        d = _it.DUMMY_FRAME
        pad = sig["padding"].default

        def members(enum):
            return "[" + ", ".join(f'("{m.name}", {int(m.value)})' for m in enum) + "]"

        body = (
            "/-! GENERATED by harness/c08.py from the imported package — do not edit -/\n"
            "namespace TIV.C08.Generated\n"
            "def alignRatios : List (Nat × Nat) := ["
            + ", ".join(f"({a}, {b})" for a, b in _padding_mod._ALIGN_RATIOS) + "]\n"
            f"def seekMembers : List (String × Int) := {members(Seek)}\n"
            f"def defaultLoops : Int := {int(sig['loops'].default)}\n"
            f"def defaultCache : Int := {int(sig['cache'].default)}\n"
            f"def defaultPadding : List Nat := [{', '.join(str(x) for x in pad.dimensions)}]\n"
            f"def terminalSizeSource : List (String × String) := ["
            + ", ".join(f'("{k}", "{v}")' for k, v in sorted(TERMSIZE_BINDING.items())) + "]\n"
            f"def dummyFrame : List Int := [{d.number}, {d.duration}, {d.render_size.width}, {d.render_size.height}]\n"
            f"def hAlign : List (String × Int) := {members(HAlign)}\n"
            f"def vAlign : List (String × Int) := {members(VAlign)}\n"
            "end TIV.C08.Generated\n"
        )
        return {"TIV/C08/Generated.lean": body}

    # -- generator --------------------------------------------------------------------
    def generate(self, rng: random.Random, tier: str):
        # a few fixed histories first (the documented examples and the known corner cases)
        for c, ops in fixed_cases():
            yield self.mk_case(c, ops, "fixed")
        i = 0
        while True:
            i += 1
            if i % 9 == 0:
                yield self.mk_pad_case(rng)
                continue
            flavour = rng.choice(["definite"] * 5 + ["indefinite"] * 3 + ["malformed"] * 2)
            c, ops = gen_case(rng, tier, flavour)
            # one case in seven goes to the Lean *documented model* instead of the implementation model
            yield self.mk_case(c, ops, None, "spec" if i % 7 == 0 else "run")

    def mk_case(self, c, ops, kind, op="run"):
        case = Case(case_line(c, ops, op), {"cfg": c, "ops": ops}, kind or "gen", True)
        if kind is None:
            res = self.impl(case)
            case.kind, case.nontrivial = describe(c, ops, res)
            if op == "spec":
                case.kind = "spec:" + case.kind
            case._impl = res
        return case

    def mk_pad_case(self, rng):
        term = [rng.choice([1, 2, 8, 20]), rng.choice([1, 3, 9])]
        size = [rng.randrange(1, 9), rng.randrange(1, 6)]
        p = gen_padding(rng, size, term)
        if rng.random() < 0.3:
            return Case(f"paddedraw {toks(p)} {toks(size)}", {"p": p, "size": size}, "padding-raw", True)
        return Case(f"padded {toks(p)} {toks(term)} {toks(size)}", {"p": p, "term": term, "size": size}, "padding", True)

    # -- implementation ---------------------------------------------------------------
    def impl(self, case: Case) -> str:
        cached = getattr(case, "_impl", None)
        if cached is not None:
            return cached
        op = case.line.split(" ", 1)[0]
        d = case.data
        if op in ("run", "spec"):
            return run_real(d["cfg"], d["ops"])[0]
        if op in ("padded", "paddedraw"):
            try:
                p = mk_padding(d["p"])
                if op == "padded":
                    ts = os.terminal_size(tuple(d["term"]))
                    p = p.resolve(ts) if isinstance(p, AlignedPadding) and p.relative else p
                sz = Size(*d["size"])
                ps = p.get_padded_size(sz)
                l, t, r, b = p._get_exact_dimensions_(sz)
                return f"ok {ps.width} {ps.height} {l} {t} {r} {b}"
            except Exception as e:  # noqa: BLE001
                return "err " + err_name(e)
        return "harness-bad-op"

    # -- oracle -----------------------------------------------------------------------
    def oracle(self, case: Case, impl_result: str):
        op = case.line.split(" ", 1)[0]
        if op not in ("run", "spec"):
            return None
        c, ops = case.data["cfg"], case.data["ops"]
        v = judge(c, ops, impl_result)
        if v is None:
            return None
        key, what = v
        c2, ops2 = shrink_history(c, ops, key)
        res2 = run_real(c2, ops2)[0]
        v2 = judge(c2, ops2, res2) or v
        return Failure(v2[0], v2[1], Case(case_line(c2, ops2), {"cfg": c2, "ops": ops2}, "shrunk"),
                       extra={"impl": res2[:2000], "original_length": len(ops)})

    def extra_checks(self, rng, tier, ev):
        """exhaustive small sub-domain, judged by the Python documented model on the real code:
        every history `next · w · next next next` with |w| <= 1 (quick) / 2 (thorough) over a
        17-letter operation alphabet, on 12 small configurations"""
        fails = self.search(rng, "exhaustive-" + tier, [])
        ev["coverage"]["exhaustive_short_histories"] = getattr(self, "_enumerated", 0)
        return fails

    def search(self, rng, tier, reasons):
        """short histories enumerated exhaustively over a small alphabet, on small configurations"""
        out, seen = [], set()
        self._enumerated = 0
        alphabet = [["next"], ["seek", 0, 0], ["seek", 1, 1], ["seek", -1, 1], ["seek", 0, 2], ["seek", 2, 0],
                    ["dur", "D"], ["dur", 3], ["pad", "exact", 1, 0, 2, 1, 0], ["pad", "aligned", 6, 3, 1, 1, 0],
                    ["pad", "aligned", 0, -2, 1, 1, 0], ["pad", "aligned", -1, 2, 0, 2, 1], ["args", "own", 1, 2],
                    ["args", "base", 2], ["size", 3, 2], ["close"], ["term", 9, 5]]
        import itertools
        configs = []
        for count, stream in ((2, 0), (3, 0), (None, 3)):
            for cache in (["b", 0], ["b", 1]):
                for padding in (["exact", 0, 0, 0, 0, 0], ["exact", 1, 0, 0, 0, 0]):
                    configs.append({"count": count, "loops": 2, "cache": cache, "padding": padding, "args": None,
                                    "size": [2, 1], "dur": 7, "rframe": 0, "term": [12, 6], "stream": stream,
                                    "stop_at": None, "fail_at": None, "ctor": 0, "finalize": 1})
        for c in configs:
            for k in ((1,) if tier == "exhaustive-quick" else (1, 2)):
                for mid in itertools.product(alphabet, repeat=k):
                    ops = [["next"]] + [list(m) for m in mid] + [["next"], ["next"], ["next"]]
                    self._enumerated += 1
                    res = run_real(c, ops)[0]
                    v = judge(c, ops, res)
                    if v and v[0] not in seen:
                        seen.add(v[0])
                        c2, ops2 = shrink_history(c, ops, v[0])
                        res2 = run_real(c2, ops2)[0]
                        v2 = judge(c2, ops2, res2) or v
                        out.append(Failure(v2[0], v2[1], Case(case_line(c2, ops2), {"cfg": c2, "ops": ops2}, "search"),
                                           extra={"impl": res2[:2000]}))
                if tier == "quick" and len(out) >= 3:
                    return out
        return out


def shrink_history(c, ops, key):
    """delete operations (then simplify the configuration) while the same failure key persists"""
    def fails(c_, ops_):
        try:
            v = judge(c_, ops_, run_real(c_, ops_)[0])
        except Exception:  # noqa: BLE001
            return False
        return v is not None and v[0] == key

    ops = list(ops)
    changed = True
    while changed and len(ops) > 1:
        changed = False
        # drop chunks, then single ops
        for chunk in (8, 4, 2, 1):
            i = 0
            while i < len(ops):
                cand = ops[:i] + ops[i + chunk:]
                if cand and fails(c, cand):
                    ops = cand
                    changed = True
                else:
                    i += 1
    c = dict(c)
    for k, v in (("postponed", False), ("padsub", False), ("kw", 0), ("rframe", 0), ("args", None), ("ctor", 0), ("padding", ["exact", 0, 0, 0, 0, 0]), ("dur", 7),
                 ("cache", ["b", 0]), ("loops", 1), ("stop_at", None), ("fail_at", None)):
        if c.get(k) != v:
            c2 = dict(c)
            c2[k] = v
            if fails(c2, ops):
                c = c2
    return c, ops


def fixed_cases():
    base = {"count": 10, "loops": 1, "cache": ["n", 100], "padding": ["exact", 0, 0, 0, 0, 0], "args": None,
            "size": [1, 1], "dur": 7, "rframe": 0, "term": [20, 6], "stream": 0, "stop_at": None, "fail_at": None,
            "ctor": 0, "finalize": 1}
    # the docstring example of `seek` (definite)
    yield base, [["seek", 5, 0], ["next"], ["seek", 2, 1], ["seek", -4, 1], ["next"], ["seek", 7, 0], ["seek", 1, 1],
                 ["seek", -5, 1], ["next"], ["seek", 3, 1], ["seek", 2, 0], ["next"]]
    # the docstring example (INDEFINITE)
    ind = dict(base, count=None, stream=12)
    yield ind, [["seek", 5, 0], ["next"], ["seek", 2, 1], ["seek", -4, 1], ["next"], ["seek", 7, 0], ["seek", 3, 1], ["next"]]
    # the known defect of the unrepaired tree: a terminal-relative padding given to set_padding
    two = dict(base, count=3, loops=2, padding=["exact", 1, 0, 0, 0, 0], size=[2, 1])
    yield two, [["next"], ["pad", "aligned", 0, -2, 1, 1, 0], ["next"]]
    # seek(0, CURRENT) right after the last frame of a loop is rejected (next = frame_count)
    yield two, [["next"], ["next"], ["next"], ["seek", 0, 1], ["seek", -1, 1], ["next"], ["next"], ["next"]]
    # seeking back at the end of a loop does not consume the loop
    yield two, [["next"], ["next"], ["next"], ["seek", 0, 0], ["next"], ["next"], ["next"], ["next"], ["next"], ["next"], ["next"]]
    # exhaustion, then everything is rejected
    yield dict(two, loops=1), [["next"], ["next"], ["next"], ["next"], ["seek", 0, 0], ["dur", 3], ["size", 2, 2],
                               ["pad", "exact", 1, 1, 1, 1, 0], ["args", "root"], ["close"], ["next"]]


if __name__ == "__main__":
    fw.main(C08)
