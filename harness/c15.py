#!/venv/bin/python
"""C15 — cached terminal facts never outlive the condition they were computed under
(DESIGN.md §5 C15).

The REAL top-level functions (`term_image.utils.get_cell_size`, `get_fg_bg_colors`,
`get_terminal_name_version`, `term_image.{enable,disable}_queries`, `…_win_size_swap`,
`set/get_cell_ratio`, `TextImage._is_on_kitty`, `KittyImage/ITerm2Image.is_supported`, the
decorators `cached` / `terminal_size_cached`) run against a virtual terminal: fake
`utils.os / termios / fcntl / select / monotonic` with a quantised virtual clock.
harness/common/env.py is deliberately NOT used (it replaces the functions verified here).
"""
from __future__ import annotations

import linecache
import math
import os
import random
import struct
import sys
import termios as _termios
import threading
import types

sys.path.insert(0, os.path.dirname(os.path.abspath(__file__)))
from common import framework as fw  # noqa: E402
from common.framework import Case, Failure, Property  # noqa: E402

fw.setup_import_path()

import term_image  # noqa: E402
from term_image import AutoCellRatio, _ctlseqs as C, utils  # noqa: E402
from term_image.image import ITerm2Image, KittyImage, TextImage  # noqa: E402
from term_image.image import kitty as kitty_mod  # noqa: E402

# ------------------------------------------------------------------------------------------
# virtual terminal


class VT:
    """state of the virtual tty; `term` = identity (fixed per case), `win` = what resize changes"""

    def __init__(self):
        self.now_us = 0
        self.inq = bytearray()
        self.pending = []  # (time_us, seq, bytes)
        self.seq = 0
        self.attrs = _default_attrs()
        self.term = {}
        self.win = (80, 30, 0, 0, 0, 0, 0, 0)
        self.env = {}

    def reset(self, term, win):
        self.now_us = 0
        self.inq.clear()
        self.pending.clear()
        self.attrs = _default_attrs()
        self.term = term
        self.win = tuple(win)
        env = {}
        if term["envProg"] is not None:
            env["TERM_PROGRAM"] = term["envProg"]
        if term["envVer"] is not None:
            env["TERM_PROGRAM_VERSION"] = term["envVer"]
        env["SHELL"] = "/data/data/com.termux/files/usr/bin/bash" if term["termux"] else "/bin/bash"
        self.env = env

    def deliver(self):
        self.pending.sort(key=lambda p: (p[0], p[1]))
        while self.pending and self.pending[0][0] <= self.now_us:
            self.inq += self.pending.pop(0)[2]

    def respond(self, data: bytes):
        t, w = self.term, self.win
        cols, rows, xpx, ypx, cw, ch, aw, ah = w
        out = []
        if C.XTVERSION_b in data and t["xtv"] is not None:
            n, v = t["xtv"]
            form = "%s(%s)" if t.get("xtvParen", True) else "%s %s"
            out.append((1000, (C.DCS + ">|" + form % (n, v) + C.ST).encode()))
        if C.KITTY_SUPPORT_QUERY_b in data and t["kittyGfx"]:
            out.append((1000, (C.APC + "Gi=31;OK" + C.ST).encode()))
        if C.CELL_SIZE_PX_b in data and t["ansCell"]:
            out.append((1000, (C.CSI + "6;%d;%dt" % (ch, cw)).encode()))
        if C.TEXT_AREA_SIZE_PX_b in data and t["ansArea"]:
            out.append((1000, (C.CSI + "4;%d;%dt" % (ah, aw)).encode()))
        for q, col, code in ((C.TEXT_FG_QUERY_b, t["fg"], 10), (C.TEXT_BG_QUERY_b, t["bg"], 11)):
            if q in data and col is not None:
                spec = "rgb:" + "/".join("%04x" % (x * 257) for x in col)
                end = C.ST if t.get("oscST", True) else "\x07"
                out.append((1000, (C.OSC + "%d;%s" % (code, spec) + end).encode()))
        if C.DA1_b in data and t.get("da1", True):
            out.append((2000, (C.CSI + "?62;c").encode()))
        for d, b in out:
            self.seq += 1
            self.pending.append((self.now_us + d, self.seq, b))


def _default_attrs():
    return [0x100, 0x5, 0xBF, _termios.ECHO | _termios.ICANON | _termios.ISIG, 15, 15, [b"\x00"] * 32]


vt = VT()


class _FakeOS:
    def __getattr__(self, n):
        return getattr(os, n)

    @property
    def environ(self):
        return vt.env

    def write(self, fd, data):
        vt.respond(bytes(data))
        fire_resize(3)  # the replies in flight are those of the old geometry
        return len(data)

    def read(self, fd, n):
        vt.deliver()
        d = bytes(vt.inq[:n])
        del vt.inq[:n]
        fire_resize(4)  # while the reply is being read
        return d

    def get_terminal_size(self, fd=None):
        r = os.terminal_size(vt.win[:2])
        fire_resize(1)  # right after the size was read
        return r


class _FakeTermios:
    error = _termios.error

    def __getattr__(self, n):
        return getattr(_termios, n)

    def tcgetattr(self, fd):
        a = list(vt.attrs)
        a[6] = list(a[6])
        return a

    def tcsetattr(self, fd, when, attrs):
        a = list(attrs)
        a[6] = list(a[6])
        vt.attrs = a
        if when == _termios.TCSAFLUSH:
            vt.deliver()
            vt.inq.clear()

    def tcdrain(self, fd):
        pass


class _FakeFcntl:
    def ioctl(self, fd, req, buf):
        try:
            if vt.term["ioctlFail"]:
                raise OSError(25, "Inappropriate ioctl for device")
            cols, rows, xpx, ypx = vt.win[:4]
            buf[0], buf[1], buf[2], buf[3] = rows, cols, xpx, ypx
            return 0
        finally:
            fire_resize(2)  # right after the ioctl
            pz = PAUSE[0]
            if pz is not None and threading.current_thread() is pz["thread"]:
                pz["reached"].set()
                pz["go"].wait(20)


PAUSE = [None]  # {thread, reached, go}: park that thread's lookup right after its ioctl


ARMED = [None]  # (point, window): a resize that arrives DURING the running lookup, at that hook point


def fire_resize(point):
    a = ARMED[0]
    if a is not None and (point is None or a[0] == point):
        ARMED[0] = None
        vt.win = tuple(a[1])


def mix_win(p, w, w2):
    """what a lookup started at window w measures when the resize to w2 fires at point p (Model.mixWin)"""
    if p == 1:
        return tuple(w[:2]) + tuple(w2[2:])
    if p == 2:
        return tuple(w[:4]) + tuple(w2[4:])
    return tuple(w)


def _fake_select(r, w, x, timeout=None):
    vt.deliver()
    if vt.inq:
        return (r, [], [])
    t_us = None if timeout is None else max(1, math.ceil(timeout * 1e6))
    if vt.pending and (t_us is None or vt.pending[0][0] <= vt.now_us + t_us):
        vt.now_us = max(vt.now_us, vt.pending[0][0])
        vt.deliver()
        return (r, [], [])
    if t_us is None:
        raise RuntimeError("virtual select would block forever")
    vt.now_us += t_us
    return ([], [], [])


utils.os = _FakeOS()
utils.termios = _FakeTermios()
utils.fcntl = _FakeFcntl()
utils.select = _fake_select
utils.monotonic = lambda: vt.now_us / 1e6
utils._tty_fd = 99

# ------------------------------------------------------------------------------------------
# instrumentation from the outside: who called query_terminal / get_cell_size, probe bodies

EVENTS: list[str] = []


def _classify(req: bytes) -> str:
    if C.KITTY_SUPPORT_QUERY_b in req:
        return "qk"
    if C.XTVERSION_b in req:
        return "qn"
    if C.TEXT_FG_QUERY_b in req:
        return "qo"
    if C.CELL_SIZE_PX_b in req:
        return "qc"
    return "q?"


def _wrap_query(real):
    def query_terminal(request, more, timeout=None):
        EVENTS.append(_classify(request))
        return real(request, more, timeout)

    return query_terminal


_real_query = utils.query_terminal
utils.query_terminal = _wrap_query(_real_query)
kitty_mod.query_terminal = _wrap_query(_real_query)

_real_gcs = utils.get_cell_size


def _gcs_wrapper():
    EVENTS.append("cr")
    return _real_gcs()


utils.get_cell_size = _gcs_wrapper
term_image.get_cell_size = _gcs_wrapper
import term_image.image.common as _common  # noqa: E402

_common.get_cell_size = _gcs_wrapper  # the graphics-image consumers look the name up here

_IMG = [None]


def graphics_image():
    """a KittyImage instance (built once, without a support check) whose rendered size is forced per use"""
    if _IMG[0] is None:
        from PIL import Image

        saved = KittyImage.__dict__.get("_supported", None)
        KittyImage._supported = True
        try:
            _IMG[0] = KittyImage(Image.new("RGB", (4, 4)))
        finally:
            KittyImage._supported = saved
    return _IMG[0]


def use_val(kind, n, c):
    """what the consumer gives for cell size c (Model.useVal)"""
    w, h = c
    return {"cp": "n%d" % (n * w), "lp": "n%d" % (n * h), "pc": "n%d" % (n // w), "pl": "n%d" % (n // h),
            "rs": "size %d %d" % (n * w, n * h)}[kind]

_probe_total = [0]


def _probe_body(a):
    EVENTS.append("bp")
    v = _probe_total[0]
    _probe_total[0] += 1
    return v


_tsc_raise = [False]


def _tsc_body():
    EVENTS.append("bt")
    if _tsc_raise[0]:
        raise RuntimeError("probe body failed")
    return tuple(vt.win[:4])


probe = utils.cached(_probe_body)
tsc = utils.terminal_size_cached(_tsc_body)


# the objects the package was imported with (a name bound to them at import time keeps pointing here)
ORIG_CC, ORIG_CC_LOCK, ORIG_TTY_LOCK = utils._cell_size_cache, utils._cell_size_lock, utils._tty_lock


def start_process():
    """`multiprocessing.Process.start()` as the library wraps it in a process with an active terminal
    (`BaseProcess.start = wraps(BaseProcess.start)(_process_start_wrapper)`), with a no-op real start:
    the first call rebinds `utils._cell_size_cache/_cell_size_lock/_tty_lock` to shared objects."""
    w = utils._process_start_wrapper
    had, old = hasattr(w, "__wrapped__"), getattr(w, "__wrapped__", None)
    w.__wrapped__ = lambda self, *a, **k: None
    try:
        w(types.SimpleNamespace())
    finally:
        if had:
            w.__wrapped__ = old
        else:
            del w.__wrapped__


def reset_all():
    utils._cell_size_cache, utils._cell_size_lock, utils._tty_lock = ORIG_CC, ORIG_CC_LOCK, ORIG_TTY_LOCK
    _tsc_raise[0] = False
    ARMED[0] = None
    utils._queries_enabled = True
    utils._swap_win_size = False
    utils._query_timeout = 0.1
    with utils._cell_size_lock:
        utils._cell_size_cache[:] = (0,) * 4
    utils.get_fg_bg_colors._invalidate_cache()
    utils.get_terminal_name_version._invalidate_cache()
    inv = getattr(TextImage._is_on_kitty, "_invalidate_cache", None)
    if inv:
        inv()
    term_image._cell_ratio = 0.5
    AutoCellRatio.is_supported = None
    KittyImage._supported = None
    ITerm2Image._supported = None
    probe._invalidate_cache()
    tsc._invalidate_terminal_size_cache()
    _probe_total[0] = 0
    del EVENTS[:]


# ------------------------------------------------------------------------------------------
# canonical formatting (exactly the driver's)


def hx(b: bytes) -> str:
    return b.hex() if b else "-"


def f64hex(x: float) -> str:
    return struct.pack(">d", float(x)).hex()


def fmt_color(c):
    if c is None:
        return "none"
    if isinstance(c, str):
        return "s:" + c[1:]
    return "t:%d,%d,%d" % tuple(c)


def fmt_ostr(s):
    return "none" if s is None else "s" + hx(s.encode())


def opt(v, f=str):
    return "none" if v is None else "some " + f(v)


def term_line(t) -> str:
    xtv = "none" if t["xtv"] is None else "some %s %s" % (hx(t["xtv"][0].encode()), hx(t["xtv"][1].encode()))
    col = lambda c: "none" if c is None else "some %d %d %d" % tuple(c)  # noqa: E731
    return " ".join([
        *(str(int(t[k])) for k in ("ioctlFail", "ansCell", "ansArea", "termux", "kittyGfx")),
        xtv, opt(t["envProg"], lambda s: hx(s.encode())), opt(t["envVer"], lambda s: hx(s.encode())),
        col(t["fg"]), col(t["bg"]),
    ])


def op_token(op) -> str:
    k = op[0]
    if k == "rs":
        return "rs " + " ".join(map(str, op[1]))
    if k == "gcsr":
        return "gcsr %d " % op[1] + " ".join(map(str, op[2]))
    if k == "sr":
        return "sr " + (op[1] if op[1] in ("fixed", "dynamic") else "lit %d" % op[2])
    if k == "acr":
        return "acr " + ("none" if op[1] is None else "some %d" % int(op[1]))
    if k in ("gco", "pr"):
        return f"{k} {op[1]}"
    if k == "use":
        return f"use {op[1]} {op[2]}"
    return k


def history_line(d) -> str:
    return "run %s %s %d %s" % (term_line(d["term"]), " ".join(map(str, d["win"])), len(d["ops"]),
                               " ".join(op_token(o) for o in d["ops"]))


def do_op(op):
    """run one op on the real code, return the canonical value string"""
    k = op[0]
    try:
        if k == "rs":
            vt.win = tuple(op[1])
            return "-"
        if k == "swon":
            term_image.enable_win_size_swap()
            return "-"
        if k == "swoff":
            term_image.disable_win_size_swap()
            return "-"
        if k == "qon":
            term_image.enable_queries()
            return "-"
        if k == "qoff":
            term_image.disable_queries()
            return "-"
        if k == "sr":
            if op[1] == "fixed":
                term_image.set_cell_ratio(AutoCellRatio.FIXED)
            elif op[1] == "dynamic":
                term_image.set_cell_ratio(AutoCellRatio.DYNAMIC)
            else:
                term_image.set_cell_ratio(struct.unpack(">d", struct.pack(">Q", op[2]))[0])
            return "-"
        if k == "acr":
            AutoCellRatio.is_supported = op[1]
            return "-"
        if k == "gcs":
            r = utils.get_cell_size()
            return "none" if r is None else "size %d %d" % tuple(r)
        if k == "use":
            kind, n = op[1], op[2]
            if kind == "cp":
                return "n%d" % KittyImage._pixels_cols(cols=n)
            if kind == "lp":
                return "n%d" % KittyImage._pixels_lines(lines=n)
            if kind == "pc":
                return "n%d" % KittyImage._pixels_cols(pixels=n)
            if kind == "pl":
                return "n%d" % KittyImage._pixels_lines(pixels=n)
            img = graphics_image()
            img._size = (n, n)
            return "size %d %d" % tuple(img._get_render_size())
        if k == "gcsr":
            ARMED[0] = (op[1], tuple(op[2]))
            try:
                r = utils.get_cell_size()
            finally:
                fire_resize(None)  # the point was not reached (hit, no query): the resize arrives right after
            return "none" if r is None else "size %d %d" % tuple(r)
        if k == "gcr":
            return "r " + f64hex(term_image.get_cell_ratio())
        if k == "gco":
            r = {"0": lambda: utils.get_fg_bg_colors(), "F": lambda: utils.get_fg_bg_colors(hex=False),
                 "T": lambda: utils.get_fg_bg_colors(hex=True)}[op[1]]()
            return "col %s %s" % (fmt_color(r[0]), fmt_color(r[1]))
        if k == "gnv":
            r = utils.get_terminal_name_version()
            return "nv %s %s" % (fmt_ostr(r[0]), fmt_ostr(r[1]))
        if k == "iok":
            return "T" if TextImage._is_on_kitty() else "F"
        if k == "ksup":
            return "T" if KittyImage.is_supported() else "F"
        if k == "isup":
            return "T" if ITerm2Image.is_supported() else "F"
        if k == "tsc":
            return "st %d %d %d %d" % tsc()
        if k == "tsci":
            tsc._invalidate_terminal_size_cache()
            return "-"
        if k == "tscr":
            _tsc_raise[0] = True
            try:
                return "st %d %d %d %d" % tsc()
            finally:
                _tsc_raise[0] = False
        if k == "sp":
            start_process()
            return "-"
        if k == "pr":
            return "n%d" % probe(op[1])
        if k == "pri":
            probe._invalidate_cache()
            return "-"
    except Exception as e:  # canonical: class name only
        return "err:" + type(e).__name__
    return "harness-bad-op"


def run_history(d):
    """the real code over the history; returns per-op records"""
    reset_all()
    vt.reset(d["term"], d["win"])
    recs = []
    for op in d["ops"]:
        del EVENTS[:]
        before = dict(win=vt.win, swap=utils._swap_win_size, queries=utils._queries_enabled,
                      ratio=term_image._cell_ratio, acr=AutoCellRatio.is_supported)
        val = do_op(op)
        recs.append(dict(op=op, val=val, ev=list(EVENTS), before=before, ratio_after=term_image._cell_ratio,
                         acr_after=AutoCellRatio.is_supported))
    return recs


def fmt_recs(recs) -> str:
    return "ok " + "|".join(r["val"] + ("~" + ",".join(r["ev"]) if r["ev"] else "") for r in recs)


# ------------------------------------------------------------------------------------------
# fresh computations (the oracle's reference): the same real functions on a state in which
# nothing has been computed yet, for a given window and settings

GETTERS = ("gcs", "gnv", "iok", "ksup", "isup", "gco0", "gcoT")


def fresh_table(term, win, swap, queries):
    reset_all()
    vt.reset(term, win)
    out = {}
    for g in GETTERS:
        reset_all()
        utils._swap_win_size = swap
        utils._queries_enabled = queries
        op = ("gco", g[3]) if g.startswith("gco") else (g,)
        out[g] = do_op(op)
    reset_all()
    return out


def ratio_of_cell(val: str) -> str:
    """the DYNAMIC ratio a fresh computation gives: truediv of the fresh cell size or (1, 2)"""
    if val.startswith("size "):
        w, h = map(int, val.split()[1:])
        return "r " + f64hex(w / h)
    return "r " + f64hex(1 / 2)


def supp(v: str) -> bool:
    return v == "T"


def check_history(d, recs, fresh=None):
    """The property stated directly on what the real code returned.  Returns list[Failure]."""
    term = d["term"]
    memo = {}

    def fr(win, swap, queries):
        key = (tuple(win), bool(swap), bool(queries))
        if key not in memo:
            memo[key] = fresh_table(term, win, swap, queries)
        return memo[key]

    fails = []
    last_read = None  # window at the last get_cell_size call since the last effective toggle
    proviso = True
    cause = "start"
    tsc_last, tsc_ok = None, True
    body_runs = {}  # (feature, key) -> body runs since its last invalidation
    fixed_snapshot = None  # (ratio value string, kind)
    acr_det = None  # how AutoCellRatio.is_supported was determined: (win, swap, queries) or "user"
    for i, r in enumerate(recs):
        op, val, ev, b = r["op"], r["val"], r["ev"], r["before"]
        k = op[0]
        win, swap, q = b["win"], b["swap"], b["queries"]
        eff = (k == "swon" and not swap) or (k == "swoff" and swap) or (k == "qon" and not q)
        if val.startswith("err:") and not (k == "sr" or (k == "isup" and val == "err:AttributeError")
                                           or (k == "tscr" and val == "err:RuntimeError")):
            fails.append(Failure(f"raises/{k}/{val[4:]}", f"op {i} {op} raised {val[4:]}"))
        # -- body-run accounting (cached_once) ------------------------------------------------
        for e in ev:
            if e in ("qo", "qn", "bp"):
                key = (e, op[1] if (e == "qo" and k == "gco") or (e == "bp") else "")
                body_runs[key] = body_runs.get(key, 0) + 1
                if body_runs[key] > 1:
                    name = {"qo": "get_fg_bg_colors", "qn": "get_terminal_name_version", "bp": "cached-probe"}[e]
                    fails.append(Failure(f"cached_once/{name}", f"op {i} {op}: the memoized body of {name} ran again "
                                                                 f"for the same argument tuple without an invalidation"))
        # -- the proviso: consecutive reads ------------------------------------------------------
        if "cr" in ev:
            # an overtaken lookup measured a mix of the two geometries, filed under the size it read first
            rwin = mix_win(op[1], win, op[2]) if k == "gcsr" else win
            if last_read is not None and last_read[:2] == rwin[:2] and last_read != rwin:
                proviso = False  # a pixel-size change that nothing is required to notice: stop judging freshness
            last_read = rwin
        # -- freshness of the per-terminal-size values ----------------------------------------
        if proviso and k == "gcs":
            want = {fr(win, swap, q)["gcs"]} | ({fr(win, swap, True)["gcs"]} if not q else set())
            if val not in want:
                fails.append(Failure(f"stale/get_cell_size/after-{cause}",
                                     f"op {i}: get_cell_size() = {val}, a fresh computation gives {sorted(want)} "
                                     f"(window {win}, swap={swap}, queries={q})"))
        if proviso and k == "use":
            def cell(v):
                return tuple(map(int, v.split()[1:])) if v.startswith("size ") else (1, 2)
            want = {use_val(op[1], op[2], cell(fr(win, swap, q)["gcs"]))} | \
                ({use_val(op[1], op[2], cell(fr(win, swap, True)["gcs"]))} if not q else set())
            name = {"cp": "_pixels_cols", "pc": "_pixels_cols", "lp": "_pixels_lines", "pl": "_pixels_lines",
                    "rs": "_get_render_size"}[op[1]]
            if val not in want:
                fails.append(Failure(f"stale/GraphicsImage.{name}/after-{cause}",
                                     f"op {i}: GraphicsImage.{name}({op[1]}, {op[2]}) = {val}, with a fresh cell size it is "
                                     f"{sorted(want)} (window {win}, swap={swap}, queries={q})"))
        if proviso and k == "gcr" and b["ratio"] is None:
            want = {ratio_of_cell(fr(win, swap, q)["gcs"])} | ({ratio_of_cell(fr(win, swap, True)["gcs"])} if not q else set())
            if val not in want:
                fails.append(Failure(f"stale/get_cell_ratio-dynamic/after-{cause}",
                                     f"op {i}: DYNAMIC get_cell_ratio() = {val}, fresh {sorted(want)} (window {win})"))
        if k == "gcr" and b["ratio"] is not None:
            if val != "r " + f64hex(b["ratio"]):
                fails.append(Failure("fixed_snapshot/get_cell_ratio",
                                     f"op {i}: get_cell_ratio() = {val} but the ratio set is {f64hex(b['ratio'])}"))
            if fixed_snapshot is not None and val != fixed_snapshot:
                fails.append(Failure("fixed_snapshot/changed",
                                     f"op {i}: FIXED ratio {val} differs from the snapshot {fixed_snapshot}"))
        if k == "sr":
            fixed_snapshot = None
            if op[1] == "fixed" and val == "-" and r["ratio_after"] is None:
                fails.append(Failure("fixed_snapshot/not-taken",
                                     f"op {i}: set_cell_ratio(FIXED) succeeded but stored no ratio (still DYNAMIC)"))
            elif op[1] == "fixed" and val == "-":
                snap = "r " + f64hex(r["ratio_after"])
                fixed_snapshot = snap
                want = {ratio_of_cell(fr(win, swap, q)["gcs"])} | ({ratio_of_cell(fr(win, swap, True)["gcs"])} if not q else set())
                if proviso and snap not in want:
                    fails.append(Failure(f"stale/set_cell_ratio-fixed/after-{cause}",
                                         f"op {i}: FIXED snapshot {snap}, fresh {sorted(want)} (window {win})"))
            if op[1] in ("fixed", "dynamic"):
                if b["acr"] is None and r["acr_after"] is not None:
                    acr_det = (win, swap, q)
                if val == "err:TermImageError" and q and acr_det not in (None, "user") and not acr_det[2]:
                    # determined unsupported while queries were disabled; would it have been supported
                    # then with queries enabled, and is it supported now?
                    then_on = fr(acr_det[0], acr_det[1], True)["gcs"]
                    now_on = fr(win, swap, True)["gcs"]
                    if then_on != "none" and now_on != "none":
                        fails.append(Failure("enable_discards/AutoCellRatio.is_supported",
                                             f"op {i}: set_cell_ratio({op[1].upper()}) still raises after enable_queries(): "
                                             "AutoCellRatio.is_supported=False was determined while queries were disabled "
                                             "and is never re-determined"))
                elif op[1] == "dynamic" and val == "-" and b["ratio"] is not None:
                    pass
        if k == "acr":
            acr_det = "user" if op[1] is not None else None
        # -- terminal_size_cached probe -------------------------------------------------------
        if k == "tsc":
            if tsc_last is not None and tsc_last[:2] == win[:2] and tsc_last != win:
                tsc_ok = False
            if tsc_ok and val != "st %d %d %d %d" % tuple(win[:4]):
                fails.append(Failure("stale/terminal_size_cached", f"op {i}: probe returned {val} for window {win}"))
            ran = "bt" in ev
            must = tsc_last is None or tsc_last[:2] != win[:2]
            if ran != must:
                fails.append(Failure("cached_once/terminal_size_cached",
                                     f"op {i}: body {'ran' if ran else 'did not run'} (last size {tsc_last and tsc_last[:2]}, now {win[:2]})"))
            tsc_last = win
        if k == "tscr":  # a call whose body raises if it runs: nothing may be memoized by it
            if tsc_last is not None and tsc_last[:2] == win[:2] and tsc_last != win:
                tsc_ok = False
            ran = "bt" in ev
            must = tsc_last is None or tsc_last[:2] != win[:2]
            if ran != must:
                fails.append(Failure("cached_once/terminal_size_cached",
                                     f"op {i}: (raising) body {'ran' if ran else 'did not run'} (last size {tsc_last and tsc_last[:2]}, now {win[:2]})"))
            if ran and val != "err:RuntimeError":
                fails.append(Failure("stale/terminal_size_cached-raising",
                                     f"op {i}: the body raised but the call returned {val}"))
            if not ran:
                if tsc_ok and val != "st %d %d %d %d" % tuple(win[:4]):
                    fails.append(Failure("stale/terminal_size_cached", f"op {i}: probe returned {val} for window {win}"))
                tsc_last = win
        if k == "tsci":
            tsc_last = None
            tsc_ok = True
        # -- query-derived facts: nothing obtained while disabled survives enable_queries() ----
        table = {"gnv": ("gnv", "get_terminal_name_version"), "iok": ("iok", "TextImage._is_on_kitty"),
                 "ksup": ("ksup", "KittyImage.is_supported"), "isup": ("isup", "ITerm2Image.is_supported")}
        if k in table or k == "gco":
            g, name = table[k] if k in table else ("gcoT" if op[1] == "T" else "gco0", "get_fg_bg_colors")
            norm = (lambda v: "F" if v.startswith("err:") else v) if k == "isup" else (lambda v: v)
            on = norm(fr(win, swap, True)[g])
            off = norm(fr(win, swap, False)[g])
            if q and norm(val) != on:
                fails.append(Failure(f"enable_discards/{name}",
                                     f"op {i}: {name}() = {val} with queries enabled; a fresh computation gives {on} "
                                     f"(terminal {term['xtv']}, last change: {cause})"))
            elif not q and norm(val) not in (on, off):
                fails.append(Failure(f"stale/{name}/queries-disabled", f"op {i}: {name}() = {val}, fresh {on} / {off}"))
        # -- bookkeeping ------------------------------------------------------------------------
        if eff:
            # `toggles_invalidate` needs no proviso: whatever happened before (including a pixel-size
            # change nobody was required to notice), the first read after an effective toggle must be a
            # fresh computation — a pixel-size change that coincides with a toggle has to be noticed.
            last_read = None
            proviso = True
            cause = {"swon": "enable_win_size_swap", "swoff": "disable_win_size_swap", "qon": "enable_queries"}[k]
            if k == "qon":
                for key in list(body_runs):
                    if key[0] in ("qo", "qn"):
                        del body_runs[key]
        elif k == "rs":
            cause = "resize"
        elif k == "gcsr":
            cause = "resize-during-lookup"
        elif k == "qoff":
            cause = "disable_queries" if q else cause
        if k == "pri":
            for key in list(body_runs):
                if key[0] == "bp":
                    del body_runs[key]
    return fails


# ------------------------------------------------------------------------------------------
# concurrent first calls of a `cached` function, real threads under a forced schedule


class Sched:
    """Runs real threads one at a time.  A thread parks at its yield points (before acquiring the
    decorator's lock, inside the memoized body, after returning); the controller resumes exactly
    the thread the schedule names, or skips it when it cannot move (finished / lock held)."""

    def __init__(self, n):
        self.n = n
        self.turn = threading.Condition()
        self.running = None  # tid allowed to run
        self.parked = {}  # tid -> point
        self.lock_owner = None
        self.lock_depth = 0
        self.tls = threading.local()

    # called by worker threads
    def park(self, point):
        tid = self.tls.tid
        with self.turn:
            self.parked[tid] = point
            self.running = None
            self.turn.notify_all()
            while self.running != tid:
                if not self.turn.wait(timeout=20):
                    raise RuntimeError("scheduler stalled")
            del self.parked[tid]

    def finish(self, tid):
        with self.turn:
            self.parked[tid] = "done"
            self.running = None
            self.turn.notify_all()

    # called by the controller
    def resume(self, tid):
        with self.turn:
            self.running = tid
            self.turn.notify_all()
            while self.running is not None:
                if not self.turn.wait(timeout=20):
                    raise RuntimeError("worker stalled")


class SchedLock:
    """stands in for `threading.RLock()` inside `cached` (utils.RLock is looked up at decoration time)"""

    current: "Sched | None" = None

    def __init__(self):
        self.owner = None
        self.depth = 0
        self.mutex = threading.Lock()

    def __enter__(self):
        s = SchedLock.current
        tid = s.tls.tid
        s.park("start")
        # the controller only resumes a thread at "start" when the lock is free (or its own)
        assert self.owner in (None, tid), "lock handed to a second thread"
        self.owner = tid
        self.depth += 1
        return self

    def __exit__(self, *a):
        self.depth -= 1
        if self.depth == 0:
            self.owner = None
        return False


def run_conc(args, schedule):
    n = len(args)
    s = Sched(n)
    SchedLock.current = s
    real_rlock = utils.RLock
    utils.RLock = SchedLock
    total = [0]
    runs = {}

    def body(a):
        s.park("miss")
        v = total[0]
        total[0] += 1
        runs[a] = runs.get(a, 0) + 1
        return v

    try:
        wrapped = utils.cached(body)
    finally:
        utils.RLock = real_rlock
    lock = [c.cell_contents for c in wrapped.__closure__ if isinstance(c.cell_contents, SchedLock)][0]
    cache = [c.cell_contents for c in wrapped.__closure__ if isinstance(c.cell_contents, dict)][0]
    results = {}
    errors = []

    def worker(tid):
        s.tls.tid = tid
        try:
            with s.turn:
                while s.running != tid:
                    if not s.turn.wait(timeout=20):
                        raise RuntimeError("never started")
            results[tid] = wrapped(args[tid])
        except Exception as e:  # pragma: no cover
            errors.append(repr(e))
        finally:
            s.finish(tid)

    threads = [threading.Thread(target=worker, args=(t,), daemon=True) for t in range(n)]
    for t in threads:
        t.start()
    # bring every thread to its first yield point ("start")
    for t in range(n):
        s.resume(t)
    for tid in schedule:
        if tid >= n:
            continue
        point = s.parked.get(tid)
        if point == "done":
            continue
        if point == "start" and lock.owner not in (None, tid):
            continue  # blocked on the lock: a stutter
        s.resume(tid)
    out = []
    for t in range(n):
        point = s.parked.get(t)
        pc = "done%d" % results[t] if point == "done" and t in results else point
        key = ((args[t],), ())
        out.append("%s/%d/%s" % (pc, runs.get(args[t], 0), cache.get(key, "none")))
    # let the remaining threads finish so nothing is left parked
    for _ in range(3 * n + 3):
        for t in range(n):
            point = s.parked.get(t)
            if point != "done" and not (point == "start" and lock.owner not in (None, t)):
                s.resume(t)
    for t in threads:
        t.join(timeout=5)
    if errors:
        return "err " + ";".join(errors), runs, results
    return "ok " + " ".join(out), runs, results


# ------------------------------------------------------------------------------------------
# generator

XTVS = [("kitty", "0.30.1"), ("kitty", "0.19.3"), ("kitty", "0.20.0"), ("KiTTY", "0.21"), ("kitty", "x.y"),
        ("kitty", "0.20"), ("Konsole", "22.04.0"), ("konsole", "22.03.9"), ("konsole", "abc"), ("konsole", "22.4"),
        ("iTerm2", "3.4.16"), ("WezTerm", "20230712-072601-f4abf8fd"), ("xterm", "380"), ("foot", "1.16.2")]
ENVPROG = [None, None, "iTerm.app", "WezTerm", "kitty", "konsole", "", "Apple_Terminal", "iTerm2"]
ENVVER = [None, "3.4.16", "22.04.1", "", "x", "0.26.5"]
POS_FLOATS = [0.5, 1.0, 0.43, 2.0, 1e-300, 5e-324, float("inf"), float("nan")]
BAD_FLOATS = [0.0, -0.0, -1.5, float("-inf")]


def bits_of(x: float) -> int:
    return struct.unpack(">Q", struct.pack(">d", x))[0]


def gen_term(rng, flavour=None):
    t = dict(
        ioctlFail=rng.random() < 0.15, ansCell=rng.random() < 0.5, ansArea=rng.random() < 0.5,
        termux=rng.random() < 0.15, kittyGfx=rng.random() < 0.6,
        xtv=rng.choice(XTVS) if rng.random() < 0.75 else None,
        envProg=rng.choice(ENVPROG), envVer=rng.choice(ENVVER),
        fg=tuple(rng.choice([0, 255, rng.randrange(256)]) for _ in range(3)) if rng.random() < 0.7 else None,
        bg=tuple(rng.choice([0, 255, rng.randrange(256)]) for _ in range(3)) if rng.random() < 0.7 else None,
        da1=rng.random() < 0.85, xtvParen=rng.random() < 0.7, oscST=rng.random() < 0.7,
    )
    if flavour == "kitty":
        t.update(xtv=rng.choice(XTVS[:1] + [("kitty", "0.26.5")]), kittyGfx=True, ansCell=True)
    if flavour == "konsole":
        t.update(xtv=("Konsole", "22.04.0"), kittyGfx=True)
    if flavour == "iterm2":
        t.update(xtv=("iTerm2", "3.4.16"))
    if t["xtv"] is not None:
        t["xtv"] = tuple(t["xtv"])
    return t


def gen_win(rng, px_mode, cells=None):
    cols, rows = cells or (rng.choice([1, 2, 7, 80, 81, 120, 200, 511]), rng.choice([1, 2, 24, 30, 31, 50, 127]))
    cwt, cht = rng.choice([(8, 16), (9, 18), (10, 20), (7, 15), (1, 1), (12, 25)])
    if px_mode == "ioctl":
        xpx, ypx = cols * cwt + rng.choice([0, 0, 1, cwt - 1]), rows * cht + rng.choice([0, 0, 1, cht - 1])
    elif px_mode == "tiny":
        xpx, ypx = rng.choice([cols - 1, cols, 1]), rng.choice([rows, rows - 1, 5])
    elif px_mode == "half":
        xpx, ypx = rng.choice([(0, rows * cht), (cols * cwt, 0)])
    else:
        xpx, ypx = 0, 0
    xpx, ypx = min(max(xpx, 0), 65535), min(max(ypx, 0), 65535)
    if rng.random() < 0.85:
        cw, ch, aw, ah = cwt, cht, cols * cwt + rng.choice([0, 3]), rows * cht + rng.choice([0, 5])
    else:
        cw, ch, aw, ah = rng.choice([0, cwt]), rng.choice([0, cht, 100000]), rng.choice([0, cols - 1, 70000]), rng.choice([0, rows * cht])
    return (cols, rows, xpx, ypx, cw, ch, aw, ah)


GETS = [("gcs",), ("gcs",), ("gcr",), ("gco", "0"), ("gco", "F"), ("gco", "T"), ("gnv",), ("iok",), ("ksup",),
        ("isup",), ("tsc",), ("pr", 0), ("pr", 1), ("pr", 2)]
TOGGLES = [("swon",), ("swoff",), ("qon",), ("qoff",)]
USES = [("use", "cp", 3), ("use", "lp", 2), ("use", "pc", 100), ("use", "pl", 100), ("use", "rs", 3), ("use", "rs", 1)]
GETS += USES[:3]


def gen_history(rng):
    shape = rng.choice(["random", "random", "toggle-stale", "enable-discards", "aba", "ratio", "font-change",
                        "support", "decorators", "toggle-coincident", "toggle-coincident", "resize-in-lookup"])
    flavour = rng.choice([None, None, "kitty", "konsole", "iterm2"])
    term = gen_term(rng, flavour)
    px_mode = rng.choice(["ioctl", "ioctl", "none", "none", "tiny", "half"])
    if shape in ("toggle-coincident", "resize-in-lookup"):
        # a *successful* cell size must get cached first: pixels from the ioctl, or from a query reply
        px_mode = rng.choice(["ioctl", "none"])
        if px_mode == "none":
            term.update(ansCell=rng.random() < 0.6, ansArea=True)
        else:
            term.update(ioctlFail=False)
    win_by_cells = {}

    def win_for(cells=None, fresh_px=False):
        w = gen_win(rng, px_mode, cells)
        key = w[:2]
        if fresh_px or key not in win_by_cells:
            win_by_cells[key] = w
        return win_by_cells[key]

    win = win_for()
    ops = []

    def some_ratio():
        r = rng.random()
        if r < 0.35:
            return ("sr", "fixed")
        if r < 0.7:
            return ("sr", "dynamic")
        x = rng.choice(POS_FLOATS + BAD_FLOATS) if rng.random() < 0.5 else rng.uniform(0.05, 3)
        return ("sr", "lit", bits_of(x))

    if shape == "toggle-stale":
        ops += [rng.choice([("gcs",), ("gcr",), ("sr", "dynamic")]), ("gcs",)]
        ops += [rng.choice(TOGGLES)]
        if rng.random() < 0.5:
            ops += [("rs", win_for(win[:2], fresh_px=True))]
        ops += [rng.choice([("gcs",)] + USES), ("gcr",), rng.choice(TOGGLES), rng.choice([("gcs",)] + USES)]
    elif shape == "toggle-coincident":
        # read; [toggle that will be undone]; pixel size changes at unchanged cols/rows with NO read in
        # between; an effective toggle; read again (cell size, DYNAMIC ratio, FIXED snapshot)
        if rng.random() < 0.3:
            ops += [rng.choice([("sr", "dynamic"), ("sr", "fixed")])]
        ops += [rng.choice([("gcs",), ("gcr",), ("gcs",)]), ("gcs",)]
        tog = rng.choice(["q", "q", "q", "swon", "swoff"])
        if tog == "q":
            ops += [("qoff",)]
            if rng.random() < 0.3:
                ops += [("gcs",)]  # a hit on the cached value while disabled, before the change
        elif tog == "swoff":
            ops += [("swon",), ("gcs",)]
        for _ in range(rng.randrange(1, 3)):
            ops += [("rs", win_for(win[:2], fresh_px=True))]
            if rng.random() < 0.3:
                ops += [rng.choice([("gnv",), ("gco", "0"), ("pr", 0), ("iok",)])]  # reads of other facts are fine
        ops += [{"q": ("qon",), "swon": ("swon",), "swoff": ("swoff",)}[tog]]
        ops += [rng.choice([("gcs",), ("gcr",), ("sr", "dynamic"), ("sr", "fixed")] + USES), ("gcs",), ("gcr",)]
        if rng.random() < 0.4:  # the first read is a consumer (a graphics image size computation)
            ops[0] = rng.choice(USES)
    elif shape == "resize-in-lookup":
        # a resize (cells and pixels) arrives DURING a lookup, at one of the hook points of the tty layer;
        # afterwards the terminal is quiet and the cell size / DYNAMIC ratio are read again
        if rng.random() < 0.5:
            ops += [rng.choice([("gcs",), ("sr", "dynamic"), ("gcr",)])]
        if rng.random() < 0.3:
            ops += [rng.choice([("qoff",), ("swon",)])]
        for _ in range(rng.randrange(1, 3)):
            ops += [("gcsr", rng.choice([1, 1, 2, 2, 3, 4]), win_for(fresh_px=rng.random() < 0.2))]
            ops += [("gcs",), rng.choice([("gcr",), ("sr", "dynamic"), ("sr", "fixed"), ("gcs",)]), ("gcr",)]
    elif shape == "enable-discards":
        ops += [("qoff",)] + [rng.choice(GETS + [some_ratio()]) for _ in range(rng.randrange(1, 6))]
        ops += [("qon",)] + [rng.choice(GETS + [some_ratio()]) for _ in range(rng.randrange(1, 8))]
    elif shape == "aba":
        a = win
        b = win_for()
        ops += [("gcs",), ("rs", b)] + ([("gcs",)] if rng.random() < 0.5 else [])
        ops += [("rs", win_for(a[:2], fresh_px=rng.random() < 0.7)), ("gcs",), ("gcr",), ("tsc",)]
    elif shape == "ratio":
        ops += [some_ratio(), ("gcr",), ("rs", win_for()), ("gcr",), rng.choice(TOGGLES), ("gcr",), some_ratio(),
                ("gcr",), ("rs", win_for()), ("gcr",)]
        if rng.random() < 0.3:
            ops.insert(0, ("acr", rng.choice([None, True, False])))
    elif shape == "font-change":
        ops += [("gcs",), ("tsc",), ("rs", win_for(win[:2], fresh_px=True)), ("gcs",), ("tsc",), rng.choice(TOGGLES),
                ("gcs",), ("tsci",), ("tsc",)]
    elif shape == "support":
        pre = [("qoff",)] if rng.random() < 0.5 else []
        ops += pre + [rng.choice([("ksup",), ("isup",), ("iok",), ("gnv",)]) for _ in range(rng.randrange(1, 5))]
        ops += [rng.choice([("qon",), ("qoff",)])] + [rng.choice([("ksup",), ("isup",), ("iok",), ("gnv",)])
                                                      for _ in range(rng.randrange(1, 5))]
    elif shape == "decorators":
        for _ in range(rng.randrange(4, 16)):
            ops.append(rng.choice([("pr", 0), ("pr", 1), ("pr", 2), ("pri",), ("tsc",), ("tsc",), ("tsci",),
                                   ("tscr",), ("tscr",),
                                   ("rs", win_for()), ("rs", win_for(fresh_px=rng.random() < 0.2))]))
            # the body raises on the first computation at a new size / after an invalidation, then a
            # plain call at the same size
            if rng.random() < 0.25:
                ops += [rng.choice([("rs", win_for()), ("tsci",)]), ("tscr",), ("tsc",)]
    else:
        for _ in range(rng.randrange(3, 26)):
            r = rng.random()
            if r < 0.55:
                ops.append(rng.choice(GETS))
            elif r < 0.7:
                ops.append(rng.choice(TOGGLES))
            elif r < 0.82:
                ops.append(("rs", win_for(fresh_px=rng.random() < 0.12)))
            elif r < 0.93:
                ops.append(some_ratio())
            elif r < 0.96:
                ops.append(("acr", rng.choice([None, True, False])))
            elif r < 0.975:
                ops.append(rng.choice([("tsci",), ("pri",), ("tscr",)]))
            elif r < 0.99:
                ops.append(("gcsr", rng.choice([1, 2, 3, 4]), win_for(fresh_px=rng.random() < 0.12)))
            else:
                ops.append(("sp",))
    # a subprocess started early (the cache moves into a shared Array): everything after must still hold
    if shape not in ("decorators", "support") and rng.random() < 0.25:
        ops.insert(rng.randrange(0, min(3, len(ops)) + 1), ("sp",))
        shape += "+sp"
    d = dict(term=term, win=list(win), ops=[list(o) if o[0] != "rs" else ["rs", list(o[1])] for o in ops])
    return d, shape + "/" + px_mode


def norm_data(d):
    """JSON round trip turns tuples into lists; normalise to what the runner expects"""
    t = dict(d["term"])
    if t.get("xtv") is not None:
        t["xtv"] = tuple(t["xtv"])
    for c in ("fg", "bg"):
        if t.get(c) is not None:
            t[c] = tuple(t[c])
    ops = []
    for o in d["ops"]:
        o = list(o)
        if o[0] == "rs":
            o[1] = tuple(o[1])
        if o[0] == "gcsr":
            o[2] = tuple(o[2])
        ops.append(tuple(o))
    return dict(term=t, win=tuple(d["win"]), ops=ops)


# ------------------------------------------------------------------------------------------


def _consts(code):
    out = []
    for c in code.co_consts:
        out.append(c)
        if hasattr(c, "co_consts"):
            out += _consts(c)
    return out


MEMO_DECORATORS = ("cached", "terminal_size_cached", "lru_cache", "cache", "cached_property")


def memoized_functions():
    """closed world: every use of a memoizing decorator in the package (AST scan of all its modules), as
    `module:qualname:decorator`; also `name = decorator(f)` forms"""
    import ast
    import pathlib

    root = pathlib.Path(term_image.__file__).parent
    found = []
    for path in sorted(root.rglob("*.py")):
        mod = ".".join(("term_image",) + path.relative_to(root).with_suffix("").parts).removesuffix(".__init__")
        tree = ast.parse(path.read_text())

        def dname(d):
            d = d.func if isinstance(d, ast.Call) else d
            return d.attr if isinstance(d, ast.Attribute) else d.id if isinstance(d, ast.Name) else ""

        def walk(node, prefix):
            for ch in ast.iter_child_nodes(node):
                if isinstance(ch, (ast.FunctionDef, ast.AsyncFunctionDef, ast.ClassDef)):
                    q = prefix + ch.name
                    for d in ch.decorator_list:
                        if dname(d) in MEMO_DECORATORS:
                            found.append(f"{mod}:{q}:{dname(d)}")
                    walk(ch, q + ".")
                else:
                    if isinstance(ch, ast.Assign) and isinstance(ch.value, ast.Call) and dname(ch.value) in MEMO_DECORATORS \
                            and not (mod == "term_image.utils" and prefix.startswith(MEMO_DECORATORS)):
                        tg = ch.targets[0]
                        found.append(f"{mod}:{prefix}{ast.unparse(tg)}:{dname(ch.value)}")
                    walk(ch, prefix)

        walk(tree, "")
    return sorted(found)


def store_key_is_first_read():
    """AST of get_cell_size: `_cell_size_cache[:] = <key> + cell_size` — is <key> the name bound (once) to the
    `get_terminal_size()` read at the start of the lookup, rather than a new read?"""
    import ast
    import inspect
    import textwrap

    tree = ast.parse(textwrap.dedent(inspect.getsource(_real_gcs.__wrapped__ if hasattr(_real_gcs, "__wrapped__") else _real_gcs)))
    fn = [n for n in ast.walk(tree) if isinstance(n, ast.FunctionDef) and n.name == "get_cell_size"][0]
    stores = [n for n in ast.walk(fn) if isinstance(n, ast.Assign) and any(
        isinstance(t, ast.Subscript) and "_cell_size_cache" in ast.unparse(t.value) for t in n.targets)]
    if len(stores) != 1 or not isinstance(stores[0].value, ast.BinOp):
        raise RuntimeError("store of _cell_size_cache not found in get_cell_size")
    key = stores[0].value.left
    if not isinstance(key, ast.Name):
        return False
    binds = [n for n in ast.walk(fn) if isinstance(n, ast.Assign) and any(
        isinstance(t, ast.Name) and t.id == key.id for t in n.targets)]
    reads = [n for n in ast.walk(fn) if isinstance(n, ast.Call) and ast.unparse(n.func).endswith("get_terminal_size")]
    return (len(binds) == 1 and isinstance(binds[0].value, ast.Call)
            and ast.unparse(binds[0].value.func).endswith("get_terminal_size") and len(reads) == 1)


def size_read_under_lock():
    """AST of get_cell_size: is every `get_terminal_size()` call lexically inside the `with _cell_size_lock` block?"""
    import ast
    import inspect
    import textwrap

    tree = ast.parse(textwrap.dedent(inspect.getsource(_real_gcs.__wrapped__ if hasattr(_real_gcs, "__wrapped__") else _real_gcs)))
    fn = [n for n in ast.walk(tree) if isinstance(n, ast.FunctionDef) and n.name == "get_cell_size"][0]
    inside = set()
    for w in ast.walk(fn):
        if isinstance(w, ast.With) and any("_cell_size_lock" in ast.unparse(i.context_expr) for i in w.items):
            inside |= {id(n) for n in ast.walk(w)}
    reads = [n for n in ast.walk(fn) if isinstance(n, ast.Call) and ast.unparse(n.func).endswith("get_terminal_size")]
    return bool(reads) and all(id(n) in inside for n in reads)


WAIT_PRE = {"ioctl": (90, 30, 720, 660, 8, 22, 720, 660), "query": (90, 30, 0, 0, 8, 22, 720, 660)}
WAIT_WINS = {"ioctl": ((80, 24, 800, 480, 10, 20, 800, 480), (100, 40, 1200, 1000, 12, 25, 1200, 1000),
                       (120, 50, 1080, 900, 9, 18, 1080, 900)),
             "query": ((80, 24, 0, 0, 10, 20, 800, 480), (100, 40, 0, 0, 12, 25, 1200, 1000),
                       (120, 50, 0, 0, 9, 18, 1080, 900))}


def waiter_scenario(path):
    """T1 is inside a lookup at size A (parked right after its ioctl, holding `_cell_size_lock`); the terminal
    becomes B; T2 calls get_cell_size() and has to wait for the lock; the terminal becomes C; T1 is released, T2
    proceeds.  Returns the values (T1, T2, then get_cell_size() back at B, at C, at A) and the failure."""
    A, B, C = WAIT_WINS[path]
    term = dict(RACE_TERM)
    reset_all()
    vt.reset(term, WAIT_PRE[path])
    first = do_op(("gcs",))  # an earlier successful lookup at another size: the cache is not empty
    vt.win = A
    SigLock.waiting = threading.Event()
    utils._cell_size_lock = SigLock()
    res, ev, at_return = {}, {n: threading.Event() for n in ("T1", "T2")}, {}
    try:
        def run(name):
            def body():
                r = _real_gcs()
                at_return[name] = vt.win  # the terminal as it is when the call returns
                res[name] = "none" if r is None else "size %d %d" % tuple(r)
                ev[name].set()
            return threading.Thread(target=body, daemon=True)

        t1 = run("T1")
        PAUSE[0] = dict(thread=t1, reached=threading.Event(), go=threading.Event())
        t1.start()
        if not PAUSE[0]["reached"].wait(20):
            raise RuntimeError("T1 never reached its ioctl")
        vt.win = B
        t2 = run("T2")
        t2.start()
        for _ in range(4000):
            if ev["T2"].is_set() or SigLock.waiting.is_set():
                break
            ev["T2"].wait(0.005)
        else:
            raise RuntimeError("T2 neither finished nor blocked")
        t2_waited = not ev["T2"].is_set()
        vt.win = C  # a resize while T2 waits for the lock (or after it returned without waiting)
        PAUSE[0]["go"].set()
        for n in ("T1", "T2"):
            if not ev[n].wait(20):
                raise RuntimeError(f"{n} never finished")
        PAUSE[0] = None
        checks = []
        for w in (B, C, A):  # first straight back to the size T2 was called at
            vt.win = w
            checks.append(do_op(("gcs",)))
    finally:
        PAUSE[0] = None
        reset_all()
    vals = [first, res["T1"], res["T2"]] + checks
    fail = None
    want2 = fresh_table(term, at_return["T2"], False, True)["gcs"]
    if res["T2"] != want2:
        fail = Failure("lock_wait_race/stale-while-busy",
                       f"[{path}] get_cell_size() called while another thread's lookup held `_cell_size_lock` "
                       f"({'waited' if t2_waited else 'did NOT wait'}) returned {res['T2']} with the terminal at "
                       f"{at_return['T2'][:4]}; a fresh computation gives {want2} (an earlier lookup at {WAIT_PRE[path][:2]} "
                       f"had left {first} in the cache)", extra=dict(values=vals))
    for w, got in zip((B, C, A), checks):
        want = fresh_table(term, w, False, True)["gcs"]
        if got != want and fail is None:
            fail = Failure("lock_wait_race/get_cell_size",
                           f"[{path}] a lookup that had to wait for `_cell_size_lock` (terminal {B[:2]} when it was called, "
                           f"{C[:2]} when it got the lock): later, at terminal {w[:4]}, get_cell_size() = {got} but a fresh "
                           f"computation gives {want}", extra=dict(values=vals))
    return vals, fail


FLAG_NAMES = ("_swap_win_size", "_queries_enabled")


def toggle_steps(fn, depth=0):
    """the order of the atomic steps of a toggle, read off its AST: 0 write the flag, 1 take
    `_cell_size_lock`, 2 clear `_cell_size_cache`, 3 release"""
    import ast
    import inspect
    import textwrap

    tree = ast.parse(textwrap.dedent(inspect.getsource(fn))).body[0]
    steps = []

    def is_flag(t):
        return isinstance(t, ast.Attribute) and t.attr in FLAG_NAMES

    def is_cache(t):
        return isinstance(t, ast.Subscript) and "_cell_size_cache" in ast.unparse(t.value)

    def walk(stmts):
        for st in stmts:
            if isinstance(st, ast.If):
                walk(st.body)
                walk(st.orelse)
            elif isinstance(st, ast.Assign) and any(is_flag(t) for t in st.targets):
                steps.append(0)
            elif isinstance(st, ast.Assign) and any(is_cache(t) for t in st.targets):
                steps.append(2)
            elif isinstance(st, ast.With):
                locked = any("_cell_size_lock" in ast.unparse(i.context_expr) for i in st.items)
                if locked:
                    steps.append(1)
                walk(st.body)
                if locked:
                    steps.append(3)
            elif isinstance(st, ast.Expr) and isinstance(st.value, ast.Call) and isinstance(st.value.func, ast.Name) \
                    and depth < 2:
                g = getattr(term_image, st.value.func.id, None)
                if inspect.isfunction(g) and g.__module__ == "term_image":
                    steps.extend(toggle_steps(g, depth + 1))

    walk(tree.body)
    return steps


TOGGLE_FNS = {"swon": "enable_win_size_swap", "swoff": "disable_win_size_swap", "qon": "enable_queries"}

# ------------------------------------------------------------------------------------------
# a toggle racing a concurrent get_cell_size(): the reader is injected at every line event of the toggle

RACE_TERM = dict(ioctlFail=False, ansCell=True, ansArea=False, termux=False, kittyGfx=False, xtv=None, envProg=None,
                 envVer=None, fg=None, bg=None, da1=True)
RACE_WIN = {"swon": (80, 24, 800, 480, 10, 20, 800, 480), "swoff": (80, 24, 800, 480, 10, 20, 800, 480),
            "qon": (80, 24, 0, 0, 10, 20, 800, 480)}
_race_memo = {}


def race_prepare(name):
    reset_all()
    vt.reset(RACE_TERM, RACE_WIN[name])
    if name == "swoff":
        term_image.enable_win_size_swap()
    if name == "qon":
        term_image.disable_queries()
    utils.get_cell_size()  # the cache now holds the value for the old setting


def race_explore(name):
    """[(at, lineno, k, blocked, final flag, cache class, reader value class, final get == fresh)]"""
    if name in _race_memo:
        return _race_memo[name]
    toggle = getattr(term_image, TOGGLE_FNS[name])
    flag_attr = "_queries_enabled" if name == "qon" else "_swap_win_size"
    target = name != "swoff"
    win = RACE_WIN[name]
    fr_new = fresh_table(RACE_TERM, win, name == "swon", True)["gcs"]
    fr_old = fresh_table(RACE_TERM, win, name == "swoff", name != "qon")["gcs"]
    points = []
    at = 0
    while at < 40:
        race_prepare(name)
        st = dict(seen=0, worker=None, info=None)
        result, sig, done = [], threading.Event(), threading.Event()

        def work():
            lk = utils._cell_size_lock
            if lk.acquire(False):
                lk.release()
                st["blocked"] = False
            else:
                st["blocked"] = True
            sig.set()
            try:
                r = _real_gcs()
                result.append("none" if r is None else "size %d %d" % tuple(r))
            except Exception as e:  # pragma: no cover
                result.append("err:" + type(e).__name__)
            done.set()

        def local_trace(frame, event, arg):
            if event in ("line", "return"):
                if st["seen"] == at:
                    flag_new = getattr(utils, flag_attr) == target
                    cleared = list(utils._cell_size_cache) == [0, 0, 0, 0]
                    st["worker"] = threading.Thread(target=work, daemon=True)
                    st["worker"].start()
                    if not sig.wait(10):
                        raise RuntimeError("reader never started")
                    if not st["blocked"] and not done.wait(10):
                        raise RuntimeError("reader never finished")
                    b = st["blocked"]
                    k = 0 if not flag_new else (1 if not b and not cleared else 2 if b and not cleared else 3 if b else 4)
                    st["info"] = (frame.f_lineno - toggle.__code__.co_firstlineno, k, b)
                st["seen"] += 1
            return local_trace

        def global_trace(frame, event, arg):
            return local_trace if event == "call" and frame.f_code is toggle.__code__ else None

        sys.settrace(global_trace)
        try:
            toggle()
        finally:
            sys.settrace(None)
        if st["worker"] is None:
            break
        if not done.wait(10):
            raise RuntimeError("concurrent get_cell_size() never finished")
        cc = list(utils._cell_size_cache)
        flag = getattr(utils, flag_attr)
        now = fresh_now = fr_new if flag == target else fr_old
        cache = "empty" if cc == [0, 0, 0, 0] else ("fresh" if ("none" if 0 in cc[2:] else "size %d %d" % tuple(cc[2:])) == now else "stale")
        rv = "new" if result[0] == fr_new else "old" if result[0] == fr_old else result[0]
        final = do_op(("gcs",))
        points.append(dict(at=at, line=st["info"][0], k=st["info"][1], blocked=st["info"][2], flag=int(flag == target),
                           cache=cache, rv=rv, final=final, fresh=fresh_now))
        at += 1
    reset_all()
    _race_memo[name] = points
    return points


def race_failures(name):
    out = []
    for pt in race_explore(name):
        if pt["final"] != pt["fresh"]:
            out.append(Failure(f"toggle_race/{TOGGLE_FNS[name]}",
                               f"{TOGGLE_FNS[name]}() with a get_cell_size() of another thread at line event #{pt['at']} "
                               f"(function line +{pt['line']}; that call returned the {pt['rv']} value): afterwards "
                               f"get_cell_size() = {pt['final']} but a fresh computation for the current settings gives "
                               f"{pt['fresh']} (cache {pt['cache']})", extra=pt))
            break
    return out


class SigLock:
    """a re-entrant lock that tells when a thread has to wait for it (stands in for `utils._tty_lock` /
    `_cell_size_lock` *and* `utils._rlock_type` during the hand-over scenario)"""

    waiting = None  # threading.Event shared by the scenario

    def __init__(self):
        self._l = threading.RLock()

    depth = 0  # holds by the owning thread

    def acquire(self, blocking=True, timeout=-1):
        if self._l.acquire(False):
            self.depth += 1
            return True
        if not blocking:
            return False
        SigLock.waiting.set()
        r = self._l.acquire(True, timeout)
        if r:
            self.depth += 1
        return r

    def release(self):
        self.depth -= 1
        self._l.release()

    __enter__ = acquire

    def __exit__(self, *a):
        self.release()


# ------------------------------------------------------------------------------------------
# enable_queries() racing an in-flight first call of a `cached` function that started while disabled

INVAL_FNS = {"nv": ("get_terminal_name_version", ("gnv",), "gnv"), "co": ("get_fg_bg_colors", ("gco", "0"), "gco0")}
INVAL_TERM = dict(ioctlFail=False, ansCell=True, ansArea=False, termux=False, kittyGfx=False, xtv=("kitty", "0.30.1"),
                  envProg=None, envVer=None, fg=(1, 2, 3), bg=(4, 5, 6), da1=True)
INVAL_WIN = (80, 24, 800, 480, 10, 20, 800, 480)
_inval_memo = {}


def cached_inval_steps():
    """0 write the flag, 1 take the decorator's lock, 2 `cache.clear()`, 3 release — in the order
    `enable_queries()` + the `invalidate` closure of `utils.cached` do them (AST)"""
    import ast
    import inspect
    import textwrap

    dec = ast.parse(textwrap.dedent(inspect.getsource(utils.cached.__wrapped__ if hasattr(utils.cached, "__wrapped__") else utils.cached)))
    inv = [n for n in ast.walk(dec) if isinstance(n, ast.FunctionDef) and n.name == "invalidate"][0]
    isteps = []

    def walk(stmts):
        for st in stmts:
            if isinstance(st, ast.With):
                locked = any(ast.unparse(i.context_expr) == "lock" for i in st.items)
                if locked:
                    isteps.append(1)
                walk(st.body)
                if locked:
                    isteps.append(3)
            elif isinstance(st, ast.Expr) and "cache.clear" in ast.unparse(st):
                isteps.append(2)

    walk(inv.body)
    eq = ast.parse(textwrap.dedent(inspect.getsource(term_image.enable_queries))).body[0]
    order = []
    for n in ast.walk(eq):
        if isinstance(n, ast.Assign) and any(isinstance(t, ast.Attribute) and t.attr == "_queries_enabled" for t in n.targets):
            order.append((n.lineno, "flag"))
        if isinstance(n, ast.Expr) and "_invalidate_cache" in ast.unparse(n):
            order.append((n.lineno, "inval"))
    order.sort()
    out, done = [], False
    for _, what in order:
        if what == "flag":
            out.append(0)
        elif not done:
            out += isteps
            done = True
    return out


def inval_explore(fname):
    if fname in _inval_memo:
        return _inval_memo[fname]
    attr, op, g = INVAL_FNS[fname]
    wrapper = getattr(utils, attr)
    lock_cell = [c for c in wrapper.__closure__ if isinstance(c.cell_contents, (utils._rlock_type, SigLock))][0]
    cache = [c.cell_contents for c in wrapper.__closure__ if isinstance(c.cell_contents, dict)][0]
    real_lock = lock_cell.cell_contents
    fr_on = fresh_table(INVAL_TERM, INVAL_WIN, False, True)[g]
    points = []
    at = 0
    try:
        while at < 150:
            reset_all()
            vt.reset(INVAL_TERM, INVAL_WIN)
            term_image.disable_queries()
            sig = SigLock()
            lock_cell.cell_contents = sig
            SigLock.waiting = threading.Event()
            st = dict(seen=0, started=False, info=None)
            done = threading.Event()

            def enable():
                term_image.enable_queries()
                done.set()

            def local_trace(frame, event, arg):
                if event in ("line", "return"):
                    if frame.f_code.co_name == "query_terminal" and (
                            event == "return" or "_queries_enabled" not in linecache.getline(
                                frame.f_code.co_filename, frame.f_lineno)):
                        st["read"] = True  # the body has consulted `_queries_enabled`
                    if st["seen"] == at:
                        held, stored, asked = sig.depth > 0, bool(cache), st.get("read", False)
                        j = (5 if stored else 0) if not held else (4 if stored else 3 if asked else 2)
                        st["info"] = (frame.f_code.co_name, frame.f_lineno, j)
                        st["started"] = True
                        threading.Thread(target=enable, daemon=True).start()
                        for _ in range(4000):
                            if done.is_set() or SigLock.waiting.is_set():
                                break
                            done.wait(0.005)
                        else:
                            raise RuntimeError("enable_queries neither finished nor blocked")
                    st["seen"] += 1
                return local_trace

            def global_trace(frame, event, arg):
                return local_trace if event == "call" and frame.f_code.co_filename == utils.__file__ else None

            del EVENTS[:]
            sys.settrace(global_trace)
            try:
                val = do_op(op)
            finally:
                sys.settrace(None)
            if not st["started"]:
                break
            if not done.wait(20):
                raise RuntimeError("enable_queries() never finished")
            entry = list(cache.values())
            lock_cell.cell_contents = real_lock
            # what is memoized now, in the canonical format of the getter
            final = do_op(op)
            cls = "empty" if not entry else ("fresh" if final == fr_on else "stale")
            points.append(dict(at=at, fn=st["info"][0], line=st["info"][1], j=st["info"][2], flag=int(utils._queries_enabled),
                               cache=cls, rv="new" if val == fr_on else "old", final=final, fresh=fr_on))
            at += 1
    finally:
        lock_cell.cell_contents = real_lock
        reset_all()
    _inval_memo[fname] = points
    return points


def inval_failures(fname):
    for pt in inval_explore(fname):
        if pt["final"] != pt["fresh"]:
            return [Failure(f"invalidate_race/{INVAL_FNS[fname][0]}",
                            f"enable_queries() at line event #{pt['at']} ({pt['fn']}:{pt['line']}) of an in-flight first call of "
                            f"{INVAL_FNS[fname][0]}() that started while queries were disabled: afterwards it returns "
                            f"{pt['final']} (memoized), a fresh computation gives {pt['fresh']}", extra=pt)]
    return []


def handover_scenario(toggle):
    """Three threads at the FIRST Process.start(): L is inside a cell-size lookup (parked right after its
    ioctl), P starts a process, T toggles (`toggle`) together with a pixel-size change; P and T run as far as
    they can, then L finishes.  Afterwards get_cell_size() must equal a fresh computation.  Deterministic:
    the controller waits for 'done' or 'has to wait for a lock', never for a time-out."""
    reset_all()
    term = dict(RACE_TERM)
    w1 = (100, 40, 1000, 800, 10, 20, 1000, 800)
    w2 = (100, 40, 1200, 1000, 12, 25, 1200, 1000)  # same cells, other pixels: coincides with the toggle
    vt.reset(term, (80, 24, 800, 480, 10, 20, 800, 480))
    saved_type = utils._rlock_type
    SigLock.waiting = threading.Event()
    utils._rlock_type = SigLock
    utils._tty_lock, utils._cell_size_lock = SigLock(), SigLock()
    try:
        do_op(("gcs",))
        vt.win = w1  # a resize in cells: the lookup of L misses
        res = {}

        def run(name, f):
            def body():
                try:
                    res[name] = f()
                except Exception as e:  # pragma: no cover
                    res[name] = "err:" + type(e).__name__
                ev[name].set()
            return threading.Thread(target=body, daemon=True)

        ev = {n: threading.Event() for n in "LPT"}
        L = run("L", lambda: do_op(("gcs",)))
        PAUSE[0] = dict(thread=L, reached=threading.Event(), go=threading.Event())
        L.start()
        if not PAUSE[0]["reached"].wait(20):
            raise RuntimeError("L never reached its ioctl")

        def until_done_or_waiting(name):
            for _ in range(4000):
                if ev[name].is_set() or SigLock.waiting.is_set():
                    return
                ev[name].wait(0.005)
            raise RuntimeError(f"{name} neither finished nor blocked")

        P = run("P", start_process)
        P.start()
        until_done_or_waiting("P")
        p_blocked = not ev["P"].is_set()
        SigLock.waiting.clear()

        def tog():
            vt.win = w2
            getattr(term_image, TOGGLE_FNS[toggle])()

        if toggle == "qon":
            utils._queries_enabled = False
        T = run("T", tog)
        T.start()
        until_done_or_waiting("T")
        t_blocked = not ev["T"].is_set()
        PAUSE[0]["go"].set()
        for n in "LPT":
            if not ev[n].wait(20):
                raise RuntimeError(f"thread {n} never finished")
        PAUSE[0] = None
        final = do_op(("gcs",))
        swap, q = utils._swap_win_size, utils._queries_enabled
    finally:
        PAUSE[0] = None
        utils._rlock_type = saved_type
        reset_all()
    want = fresh_table(term, w2, swap, q)["gcs"]
    if final != want:
        return Failure(f"handover_race/{TOGGLE_FNS[toggle]}",
                       f"first Process.start() while a lookup is in flight (P {'waited' if p_blocked else 'did not wait'} for "
                       f"the lookup, {TOGGLE_FNS[toggle]}() {'waited' if t_blocked else 'did not wait'}): afterwards "
                       f"get_cell_size() = {final}, a fresh computation gives {want} (window {w2}, swap={swap})")
    return None


def handover_under_cell_lock():
    """AST of _process_start_wrapper: is `_cell_size_cache` rebound inside a `with _cell_size_lock:` block?"""
    import ast
    import inspect
    import textwrap

    fn = ast.parse(textwrap.dedent(inspect.getsource(utils._process_start_wrapper))).body[0]
    ok = []

    def walk(node, locked):
        for ch in ast.iter_child_nodes(node):
            l2 = locked or (isinstance(ch, ast.With) and any(
                ast.unparse(i.context_expr).endswith("_cell_size_lock") for i in ch.items))
            if isinstance(ch, ast.Assign) and any("_cell_size_cache" in ast.unparse(t) for t in ch.targets) \
                    and isinstance(ch.value, ast.Call):
                ok.append(locked)
            walk(ch, l2)

    walk(fn, False)
    return bool(ok) and all(ok)


class C15(Property):
    id = "C15"
    title = "Cached terminal facts never outlive the condition they were computed under"
    lean_props = ["TIV.C15.Props"]
    driver = "drv_c15"
    partial = ("the OS scheduler and the real threading.RLock (the lock is replaced by a scheduler-controlled one for "
               "the forced schedules; real RLock only in the free-running thread tier), termios/select/os.read "
               "(virtual tty), reply parsing (`re`), CPython float division (re-implemented exactly as `divBits`)")
    assumptions = [
        "terminal identity (name/version, colours, which queries are answered) is constant over a history",
        "terminal sizes have at least one column and one row",
        "version parts handed to int() are plain decimal digit strings or non-numeric",
        "threading.RLock is a correct re-entrant lock",
    ]
    quick_cases = 7000
    thorough_cases = 120000
    rule = ("a case is one operation history (or one forced thread schedule) generated from the PRNG; it is non-trivial "
            "when at least one memoized value is read after a state change (resize/toggle/invalidate); distinct by the "
            "hash of the request line")

    def __init__(self):
        self.side = {}

    # -- translator ---------------------------------------------------------------------
    def gen_constants(self):
        import inspect

        ti = sys.modules["term_image"]
        cc0 = list(utils._cell_size_cache)
        # what the toggles write into the cache
        import inspect as _insp

        def fn_consts(fn, depth=0):  # the function's constants and those of the package helpers it calls
            out = _consts(fn.__code__)
            for name in fn.__code__.co_names:
                g = getattr(ti, name, None)
                if depth < 2 and _insp.isfunction(g) and g.__module__ == "term_image" and g is not fn:
                    out += fn_consts(g, depth + 1)
            return out

        src_consts = fn_consts(ti.enable_queries) + fn_consts(ti.enable_win_size_swap) + \
            fn_consts(ti.disable_win_size_swap)
        cleared = [c for c in src_consts if isinstance(c, tuple) and len(c) == 1 and c[0] == 0 or c == (0, 0, 0, 0)]
        mult = [c for c in src_consts if c == 4]
        if not cleared or not (mult or (0, 0, 0, 0) in cleared):
            raise RuntimeError("cannot find what the toggles write into _cell_size_cache")
        fb_get = [c for c in _consts(ti.get_cell_ratio.__code__) if isinstance(c, tuple) and len(c) == 2]
        fb_set = [c for c in _consts(ti.set_cell_ratio.__code__) if isinstance(c, tuple) and len(c) == 2 and all(isinstance(x, int) for x in c)]
        if len(set(fb_get + fb_set)) != 1:
            raise RuntimeError(f"fallback cell sizes differ or not found: {fb_get} {fb_set}")
        fb = fb_get[0]
        kmin = [c for c in _consts(KittyImage.is_supported.__func__.__code__) if isinstance(c, tuple) and len(c) == 3 and all(isinstance(x, int) for x in c)]
        imin = [c for c in _consts(ITerm2Image.is_supported.__func__.__code__) if isinstance(c, tuple) and len(c) == 3 and all(isinstance(x, int) for x in c)]
        names = [c for c in _consts(ITerm2Image.is_supported.__func__.__code__) if isinstance(c, frozenset)]
        if len(kmin) != 1 or len(imin) != 1 or len(names) != 1:
            raise RuntimeError(f"version thresholds / names not found: {kmin} {imin} {names}")
        inval = [n for n in ("get_fg_bg_colors", "get_terminal_name_version", "_is_on_kitty")
                 if n in ti.enable_queries.__code__.co_names]
        iok_cached = hasattr(TextImage._is_on_kitty, "_invalidate_cache")
        # defaults as a fresh interpreter has them (this process has reset them through reset_all)
        src = inspect.getsource(ti)
        ratio0 = [l for l in src.splitlines() if l.startswith("_cell_ratio")]
        ratio_bits = bits_of(float(ratio0[0].split("=")[1])) if ratio0 else -1
        acr0 = [l for l in src.splitlines() if l.startswith("AutoCellRatio.is_supported =")]
        usrc = inspect.getsource(utils)
        q0 = [l for l in usrc.splitlines() if l.startswith("_queries_enabled =")][0].split("=")[1].strip()
        s0 = [l for l in usrc.splitlines() if l.startswith("_swap_win_size =")][0].split("=")[1].strip()
        c0 = [l for l in usrc.splitlines() if l.startswith("_cell_size_cache =")][0].split("=")[1].strip()
        sup0 = term_image.image.common.BaseImage.__dict__.get("_supported", "missing")

        def lb(x):
            return "true" if x else "false"

        def lopt(x):
            return "none" if x is None else f"some {lb(x)}"

        body = (
            "/-! GENERATED by harness/c15.py from the imported package — do not edit -/\n"
            "namespace TIV.C15.Generated\n"
            f"def initCellCache : List Nat := {list(eval(c0))}\n"
            f"def clearedCellCache : List Nat := {[0] * 4 if mult or (0, 0, 0, 0) in cleared else cc0}\n"
            f"def initRatioBits : Nat := {ratio_bits}\n"
            f"def initQueries : Bool := {lb(eval(q0))}\n"
            f"def initSwap : Bool := {lb(eval(s0))}\n"
            f"def fallbackCell : Nat × Nat := ({fb[0]}, {fb[1]})\n"
            f"def kittyMinVer : List Nat := {list(kmin[0])}\n"
            f"def konsoleMinVer : List Nat := {list(imin[0])}\n"
            f"def itermNames : List (List Nat) := [{', '.join(str([ord(ch) for ch in n]) for n in sorted(names[0]))}]"
            f"  -- {' '.join(sorted(names[0]))}\n"
            f"def isOnKittyCached : Bool := {lb(iok_cached)}\n"
            f"def enableQueriesInvalidates : List String := [{', '.join(chr(34) + n + chr(34) for n in inval)}]\n"
            f"def initAcr : Option Bool := {lopt(eval(acr0[0].split('=')[1]) if acr0 else 'missing')}\n"
            f"def initSupported : Option Bool := {lopt(sup0)}\n"
            f"def storeKeyIsFirstRead : Bool := {lb(store_key_is_first_read())}\n"
            f"def sizeReadUnderLock : Bool := {lb(size_read_under_lock())}\n"
            f"def cachedInvalSteps : List Nat := {cached_inval_steps()}\n"
            f"def handoverUnderCellLock : Bool := {lb(handover_under_cell_lock())}\n"
            f"def memoized : List String := [{', '.join(chr(34) + m + chr(34) for m in memoized_functions())}]\n"
            f"def swapOnSteps : List Nat := {toggle_steps(ti.enable_win_size_swap)}\n"
            f"def swapOffSteps : List Nat := {toggle_steps(ti.disable_win_size_swap)}\n"
            f"def qOnSteps : List Nat := {toggle_steps(ti.enable_queries)}\n"
            f"def togglesUseUtilsGlobals : Bool := {lb(not any(hasattr(ti, n) for n in ('_cell_size_cache', '_cell_size_lock', '_tty_lock')))}\n"
            "end TIV.C15.Generated\n"
        )
        return {"TIV/C15/Generated.lean": body}

    # -- generator -------------------------------------------------------------------------
    def generate(self, rng, tier):
        for name in ("swon", "swoff", "qon"):
            steps = toggle_steps(getattr(term_image, TOGGLE_FNS[name]))
            n = int(name != "swoff")
            for k in range(5):
                line = "race %d some %d %d %s %d" % (n, 1 - n, len(steps), " ".join(map(str, steps)), k)
                yield Case(" ".join(line.split()), dict(toggle=name, k=k), "race", True)
        for tg in ("swon", "qon"):
            yield Case(f"handover {tg}", dict(toggle=tg), "handover", True)
        for path in ("ioctl", "query"):
            A, B, C = WAIT_WINS[path]
            line = "waiter %s %s %s %s %s" % (term_line(RACE_TERM), " ".join(map(str, WAIT_PRE[path])), " ".join(map(str, A)),
                                              " ".join(map(str, B)), " ".join(map(str, C)))
            yield Case(line, dict(path=path), "waiter", True)
        isteps = cached_inval_steps()
        for fname in ("nv", "co"):
            for j in sorted({p["j"] for p in inval_explore(fname)}):
                # the first call of a cached function is in flight (j reader steps done) when enable_queries() runs
                line = "racer 1 none %d %s %d" % (len(isteps), " ".join(map(str, isteps)), j)
                yield Case(" ".join(line.split()) + f" {fname}", dict(fn=fname, j=j), "race", True)
        while True:
            r = rng.random()
            if r < 0.08:
                n = rng.randrange(1, 6)
                args = [rng.choice([0, 0, 1, 2]) for _ in range(n)]
                sched = [rng.randrange(n) for _ in range(rng.randrange(0, 5 * n + 2))]
                if rng.random() < 0.3:  # round-robin: every thread contends for the first call
                    sched = list(range(n)) * rng.randrange(1, 4)
                line = "conc %d %s %d %s" % (n, " ".join(map(str, args)), len(sched), " ".join(map(str, sched)))
                yield Case(" ".join(line.split()), dict(args=args, sched=sched), "conc", len(set(args)) < n)
            elif r < 0.12:
                a, b = rng.choice([(rng.randrange(1, 70000), rng.randrange(1, 70000)), (rng.randrange(1, 40), rng.randrange(1, 40)),
                                   (rng.randrange(1, 2**40), rng.randrange(1, 2**40)), (1, 3), (2**53 + 1, 1), (1, 2**60)])
                yield Case(f"divbits {a} {b}", dict(a=a, b=b), "divbits", True)
            else:
                d, kind = gen_history(rng)
                ops = [o[0] for o in d["ops"]]
                changed = False
                nt = False
                for o in ops:
                    if o in ("rs", "swon", "swoff", "qon", "qoff", "tsci", "pri", "sr", "acr", "sp", "tscr", "gcsr"):
                        changed = True
                    elif changed:
                        nt = True
                yield Case(history_line(norm_data(d)), d, kind, nt)

    # -- implementation --------------------------------------------------------------------
    def impl(self, case):
        op = case.line.split(" ", 1)[0]
        if op == "run":
            d = norm_data(case.data)
            recs = run_history(d)
            self.side[case.line] = recs
            return fmt_recs(recs)
        if op == "conc":
            res, runs, results = run_conc(case.data["args"], case.data["sched"])
            self.side[case.line] = (runs, results)
            return res
        if op == "divbits":
            return "ok " + f64hex(case.data["a"] / case.data["b"])
        if op == "waiter":
            vals, f = waiter_scenario(case.data["path"])
            self.side[case.line] = f
            return "ok " + "|".join(vals)
        if op == "racer":
            pts = [p for p in inval_explore(case.data["fn"]) if p["j"] == case.data["j"]]
            if not pts:
                return "err no-such-point"
            return "ok %d %s %s" % (pts[0]["flag"], pts[0]["cache"], pts[0]["rv"])
        if op == "handover":
            f = handover_scenario(case.data["toggle"])
            self.side[case.line] = f
            return "ok stale" if f else "ok fresh"
        if op == "race":
            pts = [p for p in race_explore(case.data["toggle"]) if p["k"] == case.data["k"]]
            if not pts:
                return "err no-such-point"
            pt = pts[0]
            return "ok %d %s %s 4" % (pt["flag"] if case.data["toggle"] != "swoff" else 1 - pt["flag"], pt["cache"], pt["rv"])
        return "harness-bad-op"

    # -- oracle ------------------------------------------------------------------------------
    def oracle(self, case, impl_result):
        op = case.line.split(" ", 1)[0]
        if op == "run":
            d = norm_data(case.data)
            recs = self.side.pop(case.line, None) or run_history(d)
            fails = check_history(d, recs)
            if fails:
                f = fails[0]
                f.extra = [x.key + ": " + x.what for x in fails[:8]]
                self.more = getattr(self, "more", [])
                for g in fails[1:]:
                    if g.key != f.key:
                        g.case = case
                        self.more.append(g)
                return f
        if op == "waiter":
            return self.side.pop(case.line) if case.line in self.side else waiter_scenario(case.data["path"])[1]
        if op == "racer" and case.data["j"] == 0:
            f = inval_failures(case.data["fn"])
            if f:
                return f[0]
        if op == "handover":
            return self.side.pop(case.line, None) if case.line in self.side else handover_scenario(case.data["toggle"])
        if op == "race" and case.data["k"] == 0:
            f = race_failures(case.data["toggle"])
            if f:
                return f[0]
        if op == "conc":
            runs, results = self.side.pop(case.line, (None, None))
            if runs is None:
                _, runs, results = run_conc(case.data["args"], case.data["sched"])
            args = case.data["args"]
            for a, n in runs.items():
                if n > 1:
                    return Failure("cached_once/concurrent-first-calls", f"the memoized body ran {n} times for argument {a}")
            by = {}
            for t, v in results.items():
                by.setdefault(args[t], set()).add(v)
            for a, vs in by.items():
                if len(vs) > 1:
                    return Failure("cached_once/concurrent-values", f"calls with argument {a} returned {sorted(vs)}")
        return None

    def extra_checks(self, rng, tier, ev):
        out = list(getattr(self, "more", []))
        self.more = []
        out += free_threads(rng, 6 if tier == "quick" else 60)
        return out

    def search(self, rng, tier, reasons):
        """small exhaustive neighbourhood: every history of ≤ 4 ops over a small alphabet on three terminals"""
        import itertools

        out, seen = [], set()
        alphabet = [("qoff",), ("qon",), ("swon",), ("gcs",), ("gnv",), ("iok",), ("ksup",), ("isup",), ("gco", "0"),
                    ("sr", "dynamic"), ("gcr",), ("rs", (80, 30, 0, 0, 9, 18, 720, 540))]
        for path in ("ioctl", "query"):
            f = waiter_scenario(path)[1]
            if f:
                A, B, C = WAIT_WINS[path]
                f.case = Case("waiter %s %s %s %s %s" % (term_line(RACE_TERM), " ".join(map(str, WAIT_PRE[path])),
                                                         " ".join(map(str, A)), " ".join(map(str, B)), " ".join(map(str, C))),
                              dict(path=path))
                out.append(f)
        if out:
            return out
        isteps = cached_inval_steps()
        for fname in ("nv", "co"):
            for f in inval_failures(fname):
                f.case = Case("racer 1 none %d %s 0 %s" % (len(isteps), " ".join(map(str, isteps)), fname), dict(fn=fname, j=0))
                out.append(f)
        if out:
            return out
        for name in ("swon", "swoff", "qon"):
            for f in race_failures(name):
                steps = toggle_steps(getattr(term_image, TOGGLE_FNS[name]))
                n = int(name != "swoff")
                f.case = Case("race %d some %d %d %s 0" % (n, 1 - n, len(steps), " ".join(map(str, steps))), dict(toggle=name, k=0))
                out.append(f)
        if out:
            return out
        # targeted: the consumers of the cached facts (graphics image size conversions) after every toggle
        cterm = gen_term(random.Random(7), "kitty")
        cterm.update(ioctlFail=False, ansCell=True, ansArea=True, termux=False, da1=True)
        for w0 in ((80, 30, 800, 660, 10, 22, 800, 660), (80, 30, 0, 0, 10, 22, 800, 660)):
            for togs in ([("swon",)], [("swon",), ("use", "cp", 3), ("swoff",)], [("qoff",), ("use", "lp", 2), ("qon",)],
                         [("qoff",), ("rs", (80, 30, 720, 540, 9, 18, 720, 540)), ("qon",)]):
                for u in USES:
                    ops = [u] + togs + [u, ("gcs",)]
                    d = dict(term=cterm, win=w0, ops=ops)
                    for f in check_history(d, run_history(d)):
                        if f.key not in seen:
                            seen.add(f.key)
                            f.case = Case(history_line(d), dict(term=cterm, win=list(w0), ops=[list(o) for o in ops]))
                            out.append(f)
        if out:
            return out
        # targeted: a resize in cells and pixels arriving during a lookup, at every hook point, both paths
        rterm = gen_term(random.Random(7), "kitty")
        rterm.update(ioctlFail=False, ansCell=True, ansArea=True, termux=False, da1=True)
        for w0, w1 in (((80, 30, 800, 600, 10, 20, 800, 600), (100, 40, 1200, 1000, 12, 25, 1200, 1000)),
                       ((80, 30, 0, 0, 10, 20, 800, 600), (100, 40, 0, 0, 12, 25, 1200, 1000))):
            for pt in (1, 2, 3, 4):
                for pre in ([], [("gcs",), ("rs", (90, 35, 0, 0, 9, 18, 810, 630))]):
                    ops = pre + [("gcsr", pt, w1), ("gcs",), ("sr", "dynamic"), ("gcr",)]
                    d = dict(term=rterm, win=w0, ops=ops)
                    for f in check_history(d, run_history(d)):
                        if f.key not in seen:
                            seen.add(f.key)
                            f.case = Case(history_line(d), dict(term=rterm, win=list(w0), ops=[list(o) for o in ops]))
                            out.append(f)
        if out:
            return out
        # targeted: a pixel-size change at unchanged cols/rows that coincides with an effective toggle
        tterm = gen_term(random.Random(7), "kitty")
        tterm.update(ioctlFail=False, ansCell=True, ansArea=True, termux=False, da1=True)
        for w0, w1 in (((80, 30, 800, 600, 10, 20, 800, 600), (80, 30, 720, 540, 9, 18, 720, 540)),
                       ((80, 30, 0, 0, 10, 20, 800, 600), (80, 30, 0, 0, 9, 18, 720, 540))):
            for pre, tog in (([("qoff",)], ("qon",)), ([], ("swon",)), ([("swon",), ("gcs",)], ("swoff",))):
                for reads in ([("gcs",)], [("sr", "dynamic"), ("gcr",)], [("sr", "fixed"), ("gcr",)]):
                    ops = [("gcs",)] + pre + [("rs", w1), tog] + reads
                    d = dict(term=tterm, win=w0, ops=ops)
                    for f in check_history(d, run_history(d)):
                        if f.key not in seen:
                            seen.add(f.key)
                            f.case = Case(history_line(d), dict(term=tterm, win=list(w0),
                                                                ops=[[o[0], list(o[1])] if o[0] == "rs" else list(o) for o in ops]))
                            out.append(f)
        if out:
            return out
        for flavour in ("kitty", "iterm2", "konsole"):
            term = gen_term(random.Random(7), flavour)
            term.update(ioctlFail=False, ansCell=True, ansArea=True, termux=False, da1=True)
            for n in (2, 3, 4):
                for ops in itertools.product(alphabet, repeat=n):
                    d = dict(term=term, win=(80, 30, 0, 0, 10, 20, 800, 600), ops=list(ops))
                    recs = run_history(d)
                    for f in check_history(d, recs):
                        if f.key not in seen:
                            seen.add(f.key)
                            f.case = Case(history_line(d), dict(term=term, win=list(d["win"]), ops=[list(o) for o in ops]))
                            out.append(f)
                if n == 3 and out:
                    break
        return out


def free_threads(rng, rounds):
    """real threading.RLock, free-running threads released together: the body runs once per argument"""
    fails = []
    for _ in range(rounds):
        count = {}
        gate = threading.Barrier(8)
        mu = threading.Lock()

        def body(a):
            with mu:
                count[a] = count.get(a, 0) + 1
            for _ in range(200):
                pass
            return (a, count[a])

        f = utils.cached(body)
        res = []

        def w(a):
            gate.wait(timeout=10)
            res.append((a, f(a)))

        ts = [threading.Thread(target=w, args=(i % 2,), daemon=True) for i in range(8)]
        for t in ts:
            t.start()
        for t in ts:
            t.join(timeout=10)
        if any(n > 1 for n in count.values()):
            fails.append(Failure("cached_once/free-threads", f"body ran {count} times under real threads"))
            break
    return fails


if __name__ == "__main__":
    fw.main(C15)
