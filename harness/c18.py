#!/venv/bin/python
"""C18 — the urwid screen never leaves a ghost image behind (DESIGN.md §5 C18).

Correspondence ops (driver drv_c18):
  z     allocator histories: real `UrwidImage` widgets created / garbage-collected in random orders
  hist  screen histories: random layouts rendered by real urwid, drawn by the real `UrwidImageScreen`
        into a buffer; per step the ordered delete/sync output, `_ti_image_cviews`, disguise states,
        and the kitty placements that result (model: deletes + re-emitted rows on TIV.Term;
        code: the real bytes interpreted by the placement twin)
  term  the placement twin vs the Lean terminal on the real bytes of redraws
Oracle (independent of the model): c18_world.py's twin + `expected_placements(canvas)`.
"""
from __future__ import annotations

import gc
import json
import os
import random
import sys

sys.path.insert(0, os.path.dirname(os.path.abspath(__file__)))
from common import framework as fw  # noqa: E402
from common.framework import Case, Failure, Property  # noqa: E402
from common.ctlgen import gen_ctl  # noqa: E402
import c18_world as Wd  # noqa: E402  (imports common.env first)
import c18_gen as G  # noqa: E402

from PIL import Image  # noqa: E402
from term_image import _ctlseqs as ctlseqs  # noqa: E402
from term_image.exceptions import UrwidImageError  # noqa: E402
from term_image.image import KittyImage  # noqa: E402
from term_image.widget import UrwidImage, UrwidImageCanvas  # noqa: E402

Z_START = UrwidImage.__dict__["_ti_next_z_index"]  # read before any widget exists
_IMG = Image.new("RGB", (4, 4), "red")
LIM = 2**31


def fmt_set(rows):
    rows = sorted(set(tuple(r) for r in rows))
    return " ".join([str(len(rows))] + [",".join(map(str, r)) for r in rows])


# ------------------------------------------------------------------------------------------
# allocator histories on the real class


def _drawn_z_of(w):
    return Wd.drawn_z(w.render((4, 2)))


def z_run(next0, free0, ops):
    """ops: ["N", format spec, class index] (class: `Wd.WIDGET_CLASSES` — UrwidImage itself or an
    application-defined subclass) | ["D", i] (i indexes the live widgets of all classes, newest first).
    → (per-op outputs, hints, final)"""
    Wd.env.reset_env()
    Wd.env.set_env(name="kitty", cell_size=(4, 8))
    KittyImage._supported = True
    Wd.reset_class_state(next0, free0)
    live: list = []  # newest first
    outs, hints = [], []
    try:
        for op in ops:
            if op[0] == "N":
                had_free = bool(UrwidImage._ti_free_z_indexes)
                try:
                    wcls = Wd.WIDGET_CLASSES[op[2] if len(op) > 2 else 0]
                    w = wcls(KittyImage(_IMG), op[1] if len(op) > 1 else "")
                except UrwidImageError:
                    outs.append("UrwidImageError")
                    hints.append("-")
                    continue
                live.insert(0, w)
                outs.append(f"z={w._ti_z_index}")
                hints.append(str(w._ti_z_index) if had_free else "-")
            else:
                i = op[1]
                if i < len(live):
                    w = live.pop(i)
                    del w
                    gc.collect()
                outs.append("ok")
                hints.append(None)
        final = (f"next={UrwidImage._ti_next_z_index} free={','.join(map(str, sorted(UrwidImage._ti_free_z_indexes)))} "
                 f"live={','.join(str(w._ti_z_index) for w in reversed(live))}")
        zs = [w._ti_z_index for w in live]
        # what the live widgets are actually drawn with (a sample of them: rendering costs)
        drawn = [(w._ti_z_index, _drawn_z_of(w)) for w in live[:6]]
    finally:
        live.clear()
        gc.collect()
        Wd.reset_class_state()
    return outs, hints, final, zs, drawn


def z_line(next0, free0, ops, hints):
    parts = [f"z {next0} {len(free0)}"] + [str(f) for f in free0] + [str(len(ops))]
    for op, h in zip(ops, hints):
        parts.append(f"N {h}" if op[0] == "N" else f"D {op[1]}")
    return " ".join(parts)


# ------------------------------------------------------------------------------------------
# screen histories


def out_seq(writes):
    """the ordered output reduced to what the code under test wrote: sync, deletes, base-class calls"""
    seq: list[str] = []
    depth_draw = 0
    slot = None
    wrote = False
    for w in writes:
        if isinstance(w, Wd.Marker):
            if w == "<base":
                depth_draw += 1
                slot = len(seq)
                seq.append("base-")
                wrote = False
            elif w == "base>":
                depth_draw -= 1
                seq[slot] = "base+" if wrote else "base-"
            elif w == "<bclear":
                seq.append("clear")
            elif w == "<bstart":
                seq.append("start")
            elif w == "<bstop":
                seq.append("stop<")
            elif w == "bstop>":
                seq.append("stop>")
            continue
        if depth_draw:
            wrote = True
        try:
            toks = Wd.tokenize(w)
        except Wd.TokErr:
            seq.append("tokerr")
            continue
        for t in toks:
            if t in ("sb", "se", "ka") or t.startswith("kz"):
                seq.append(t)
    # consecutive z deletes come out of a set iteration: canonical order
    out, run = [], []
    for t in seq + [None]:
        if t is not None and t.startswith("kz"):
            run.append(int(t[2:]))
            continue
        out += [f"kz{z}" for z in sorted(run)]
        run = []
        if t is not None:
            out.append(t)
    return " ".join(out)


def rows_written(writes, H):
    """the screen rows the base class re-emitted, read off its output (cursor addressing + content)"""
    inside = False
    toks = []
    for w in writes:
        if isinstance(w, Wd.Marker):
            inside = w == "<base" or (inside and w != "base>")
            continue
        if inside:
            toks += Wd.tokenize(w)
    rows, r = set(), 0
    homes = 0
    for t in toks:
        if t[0] == "P":
            r = int(t[1:].split(",")[0])
            homes += 1
        elif homes >= 2 and (t[0] in "gKIX" or t in ("kd", "el", "n")):
            rows.add(r)
    return sorted(x for x in rows if x < H)


def kitty_pl(placements):
    return fmt_set((r, c, cols, rows, z) for k, r, c, cols, rows, z in placements if k == 1)


def state_str(rec, nw):
    cv = fmt_set(rec["cviews"])
    return (f"c={cv} d={rec['cdis']} w={','.join(map(str, rec['wdis'][:nw]))} "
            f"p={kitty_pl(rec['placements'] or [])}")


def hist_case(sc):
    """run the script on the real code → (request line, implementation result, oracle failure or None)"""
    recs, tab, ws = Wd.run_script(sc)
    W, H = sc["W"], sc["H"]
    nw = len(sc["widgets"])
    head = [f"hist {W} {H} {int(sc.get('kitty_supported', True) or sc.get('forced', False))} {int(sc.get('iterm2_supported', True))} "
            f"{int(sc['term'] == 'konsole')} {nw}", str(len(tab))]
    for row in tab:
        head.append(" ".join(map(str, row)))
    steps, outs = [], []
    for st, rec in zip(sc["steps"], recs):
        op = rec["op"]
        seq = out_seq(rec["writes"])
        if op in ("sigwinch", "resize_done", "leftover"):
            # urwid's own bookkeeping (a flag, `screen_buf = None`): nothing of the modelled code runs; what
            # it does to the base class' next `draw_screen` reaches the model through `wrote` and `R`
            if rec["out"] or rec["exc"]:
                outs.append(f"unexpected:{op}:{rec['exc']}:{len(rec['out'])}")
            continue
        if op == "draw":
            base_called = any(isinstance(w, Wd.Marker) and w == "<base" for w in rec["writes"])
            raised = rec["exc"] is not None
            wrote = "base+" in seq
            d = rec["desc"]
            if d[0] == "C":
                body = ["C", str(len(d[1]))]
                for n_rows, cvs in d[1]:
                    body += [str(n_rows), str(len(cvs))] + [" ".join(map(str, cv)) for cv in cvs]
            else:
                body = ["L", str(d[1]), str(d[2]), str(d[3])]
            R = rows_written(rec["writes"], H) if base_called and rec.get("toks") is not None else []
            steps.append(" ".join(["draw", str(rec["top_id"]), str(int(raised)), str(int(wrote))] + body
                                  + [str(len(R))] + [str(r) for r in R]))
            exc = ""
            if raised:
                exc = " raised" if base_called and rec["exc"] == "ValueError" else f" raised:{rec['exc']}"
            outs.append(f"{seq}{exc} k=1 {state_str(rec, nw)}")
        elif op == "clear_images":
            wl = st["widgets"]
            steps.append(" ".join(["ci", str(len(wl))] + [
                f"{i} {ws[i]._ti_z_index if hasattr(ws[i], '_ti_z_index') else '-'}" for i in wl]))
            outs.append(f"{seq} {state_str(rec, nw)}")
        else:
            steps.append(op)
            outs.append(f"{seq}{' raised:' + rec['exc'] if rec['exc'] else ''} {state_str(rec, nw)}")
    line = " ".join(head + [str(len(steps))] + steps)
    return line, "ok " + " | ".join(outs), judge(sc, recs), recs


# ------------------------------------------------------------------------------------------
# the oracle: C18 stated on what the real screen wrote, independent of the Lean model

BEGIN, END = ctlseqs.BEGIN_SYNCED_UPDATE, ctlseqs.END_SYNCED_UPDATE


def judge(sc, recs):
    term = sc["term"]
    W, H = sc["W"], sc["H"]
    sup = sc.get("kitty_supported", True) or sc.get("forced", False)  # forced_support or is_supported()
    user_cleared = False  # `clear_images(…)` by the user since the last redraw of a new canvas
    zfail = None  # first drawn-z finding: reported at the end unless a ghost shows up later in the history
    for j, (st, rec) in enumerate(zip(sc["steps"], recs)):
        op, out = rec["op"], rec["out"]
        where = f"step {j} ({op})"
        if rec.get("tokerr"):
            return Failure(f"malformed-output/{term}", f"{where}: {rec['tokerr']}")
        if op == "draw":
            if not (out.startswith(BEGIN) and out.endswith(END) and out.count(BEGIN) == 1 and out.count(END) == 1):
                return Failure(f"bracket/{term}", f"{where}: output is not one BEGIN … END synchronized update "
                                                  f"(exception: {rec['exc']})")
            if rec["exc"] and not (st.get("badsize") and rec["exc"] == "ValueError"):
                kindc = "composite" if rec["desc"][0] == "C" else "non-composite"
                return Failure(f"draw-raises/{rec['exc']}/{kindc}",
                               f"{where}: draw_screen raised {rec['exc']} on a valid {kindc} canvas")
            # deletes come before anything the base class writes
            seq = out_seq(rec["writes"]).split()
            if "base+" in seq or "base-" in seq:
                k = max(i for i, t in enumerate(seq) if t.startswith("base"))
                if any(t == "ka" or t.startswith("kz") for t in seq[k + 1:]):
                    return Failure(f"order/{term}", f"{where}: a delete command is written after the rows")
            base_toks = []
            inside = False
            for w in rec["writes"]:
                if isinstance(w, Wd.Marker):
                    inside = w == "<base"
                elif inside:
                    base_toks += Wd.tokenize(w)
            if any(t == "ka" or t.startswith("kz") for t in base_toks):
                return Failure(f"order/{term}", f"{where}: a delete command is written among the rows")
            if rec["exc"]:
                continue
            pending = rec.get("resize_pending", False)
            # every kitty widget is drawn with the z-index it holds (the one its deletes use), and the
            # z-indexes actually drawn are pairwise distinct among widgets
            by_z: dict = {}
            for cid, (wid, z, zs) in sorted(rec.get("zdrawn", {}).items()):
                if zs and zs != [z] and zfail is None:
                    zfail = Failure(f"drawn-z-differs/{term}",
                                   f"{where}: widget {wid} (format spec {sc['widgets'][wid].get('fmt', '')!r}) holds z-index "
                                   f"{z} but its canvas is drawn with z-index(es) {zs}")
                for dz in zs:
                    by_z.setdefault(dz, set()).add(wid)
            dup = {dz: sorted(w) for dz, w in by_z.items() if len(w) > 1}
            if dup and zfail is None:
                zfail = Failure(f"drawn-z-shared/{term}", f"{where}: widgets drawn with one z-index: {dup}")
            exp = Wd.expected_placements(rec["canvas"], W, H, term)
            # every image no longer at its previous position is gone before the first row is written
            pre = rec["before"]
            pre_toks = []
            for w in rec["writes"]:
                if isinstance(w, Wd.Marker):
                    if w == "<base":
                        break
                    continue
                pre_toks += Wd.tokenize(w)
            pre.feed(pre_toks)
            left = [p for p in pre.placements() if p not in exp]
            if left and not rec["same"]:
                return Failure(f"not-deleted-before-draw/{term}",
                               f"{where}: {len(left)} placement(s) that are not in the new canvas survive the deletes, "
                               f"e.g. {left[0]}" + (f" [after: {zfail.what}]" if zfail else ""))
            if rec["same"] and user_cleared:
                continue  # urwid redraws nothing for an unchanged canvas: the user's explicit clear stands
            if pending:
                continue  # the base class discards a frame drawn while a resize is pending: judged at the next one
            user_cleared = False
            got = rec["placements"]
            if got != exp:
                from collections import Counter
                extra = list((Counter(got) - Counter(exp)).elements())  # (multiplicity counts on kitty)
                missing = list((Counter(exp) - Counter(got)).elements())
                kind = "ghost" if extra else "missing"
                return Failure(f"{kind}/{term}",
                               f"{where}: placements on the terminal differ from the images of the canvas just drawn: "
                               f"{len(extra)} stale, {len(missing)} missing; e.g. {(extra or missing)[0]} "
                               f"(proto,row,col,cols,rows,z)" + (f" [after: {zfail.what}]" if zfail else ""))
        elif op in ("clear", "start", "stop"):
            if rec["exc"]:
                return Failure(f"{op}-raises/{rec['exc']}", f"{where}: raised {rec['exc']}")
            if sup:
                if ctlseqs.KITTY_DELETE_ALL not in out:
                    return Failure(f"no-clear-on-{op}/{term}", f"{where}: no delete-all command is written")
                if rec["placements"]:
                    return Failure(f"no-clear-on-{op}/{term}", f"{where}: placements survive: {rec['placements'][:2]}")
        elif op == "clear_images":
            user_cleared = True
    return zfail


# ------------------------------------------------------------------------------------------


KNOWN_SCRIPTS = {
    # D9: closing a left-aligned overlay over a kitty image = three stale views of one widget
    "overlay-close-3-views": {
        "term": "kitty", "W": 30, "H": 12, "cell": [4, 8],
        "widgets": [{"style": "kitty", "iw": 40, "ih": 40, "upscale": True}],
        "steps": [{"op": "draw", "layout": ["pile", [[1, ["img", 0]]]]},
                  {"op": "draw", "layout": ["overlay", ["ftext", "OV"], ["pile", [[1, ["img", 0]]]], "left", 12, "middle", 3]},
                  {"op": "draw", "layout": ["pile", [[1, ["img", 0]]]]}]},
    # D4: the top widget stops being a container
    "top-becomes-image": {
        "term": "kitty", "W": 30, "H": 12, "cell": [4, 8],
        "widgets": [{"style": "kitty", "iw": 40, "ih": 40, "upscale": True}],
        "steps": [{"op": "draw", "layout": ["pile", [[1, ["img", 0]], [1, ["fill", "x"]]]]},
                  {"op": "draw", "layout": ["fill", "y"]},
                  {"op": "draw", "layout": ["pile", [[1, ["img", 0]], [1, ["fill", "x"]]]]},
                  {"op": "draw", "layout": ["img", 0]}]},
    # the image as the top widget itself, then replaced by text
    "lone-image-then-text": {
        "term": "kitty", "W": 30, "H": 12, "cell": [4, 8],
        "widgets": [{"style": "kitty", "iw": 40, "ih": 40, "upscale": True}],
        "steps": [{"op": "draw", "layout": ["img", 0]},
                  {"op": "draw", "layout": ["ftext", "hello"]},
                  {"op": "draw", "layout": ["img", 0]},
                  {"op": "draw", "layout": ["fill", "x"]}]},
    # an image below a trailing shard tail moves purely horizontally (two columns swap)
    "columns-swap-below-tail": {
        "term": "kitty", "W": 30, "H": 8, "cell": [4, 8],
        "widgets": [{"style": "kitty", "iw": 40, "ih": 20, "upscale": True}],
        "steps": [{"op": "draw", "layout": ["fcols", [
            [10, ["hpile", [[1, ["fill", "a"]], [None, ["fill", "."]]]]],
            [10, ["hpile", [[2, ["fill", "b"]], [5, ["img", 0]], [None, ["fill", "."]]]]],
            [10, ["fill", "c"]]]]},
            {"op": "draw", "layout": ["fcols", [
                [10, ["hpile", [[1, ["fill", "a"]], [None, ["fill", "."]]]]],
                [10, ["fill", "c"]],
                [10, ["hpile", [[2, ["fill", "b"]], [5, ["img", 0]], [None, ["fill", "."]]]]]]]},
            {"op": "draw", "layout": ["fcols", [
                [10, ["hpile", [[1, ["fill", "a"]], [None, ["fill", "."]]]]],
                [10, ["hpile", [[2, ["fill", "b"]], [5, ["img", 0]], [None, ["fill", "."]]]]],
                [10, ["fill", "c"]]]]}]},
    # the z-index field of the format spec is documented as ignored
    "format-spec-z": {
        "term": "kitty", "W": 30, "H": 12, "cell": [4, 8],
        "widgets": [{"style": "kitty", "iw": 40, "ih": 20, "upscale": True},
                    {"style": "kitty", "iw": 40, "ih": 20, "upscale": True, "fmt": "+z1"}],
        "steps": [{"op": "draw", "layout": ["hpile", [[5, ["img", 0]], [1, ["fill", "-"]], [5, ["img", 1]], [None, ["fill", "."]]]]},
                  {"op": "draw", "layout": ["hpile", [[5, ["img", 0]], [1, ["fill", "-"]], [None, ["fill", "."]]]]},
                  {"op": "draw", "layout": ["hpile", [[5, ["img", 0]], [1, ["fill", "-"]], [5, ["img", 1]], [None, ["fill", "."]]]]}]},
    # widgets of UrwidImage and of an application-defined subclass share one allocator; one of them moves
    "subclass-interleaved": {
        "term": "kitty", "W": 30, "H": 12, "cell": [4, 8],
        "widgets": [{"style": "kitty", "iw": 40, "ih": 20, "upscale": True, "cls": 1},
                    {"style": "kitty", "iw": 40, "ih": 20, "upscale": True, "cls": 0},
                    {"style": "kitty", "iw": 40, "ih": 20, "upscale": True, "cls": 2}],
        "steps": [{"op": "draw", "layout": ["hpile", [[4, ["img", 0]], [4, ["img", 1]], [None, ["fill", "."]]]]},
                  {"op": "draw", "layout": ["hpile", [[4, ["img", 0]], [2, ["fill", "-"]], [4, ["img", 1]], [None, ["fill", "."]]]]},
                  {"op": "draw", "layout": ["hpile", [[4, ["img", 0]], [2, ["fill", "-"]], [4, ["img", 2]], [None, ["fill", "."]]]]}]},
    # urwid's "redraw screen" (clear + the same canvas object), then the image moves away
    "clear-redraw-same-then-move": {
        "term": "kitty", "W": 30, "H": 12, "cell": [4, 8],
        "widgets": [{"style": "kitty", "iw": 40, "ih": 20, "upscale": True}],
        "steps": [{"op": "draw", "layout": ["hpile", [[4, ["img", 0]], [None, ["fill", "."]]]]},
                  {"op": "clear"}, {"op": "draw", "same": True},
                  {"op": "draw", "layout": ["hpile", [[6, ["fill", "x"]], [4, ["img", 0]], [None, ["fill", "."]]]]},
                  {"op": "stop"}, {"op": "start"}, {"op": "draw", "same": True},
                  {"op": "draw", "layout": ["hpile", [[4, ["img", 0]], [None, ["fill", "."]]]]}]},
    # a terminal that is neither kitty nor konsole but speaks the kitty protocol (forced support): a row
    # holding an image line is re-sent without the image moving (the neighbour's cells change; redraw screen)
    "forced-support-resend": {
        "term": "other", "forced": True, "kitty_supported": False, "iterm2_supported": False,
        "W": 30, "H": 8, "cell": [4, 8],
        "widgets": [{"style": "kitty", "iw": 40, "ih": 20, "upscale": True}],
        "steps": [{"op": "draw", "layout": ["fcols", [[10, ["hpile", [[5, ["img", 0]], [None, ["fill", "."]]]]], [None, ["fill", "c"]]]]},
                  {"op": "draw", "layout": ["fcols", [[10, ["hpile", [[5, ["img", 0]], [None, ["fill", "."]]]]], [None, ["fill", "d"]]]]},
                  {"op": "clear"}, {"op": "draw", "same": True}]},
    # a fresh process (support not probed yet, no image widget yet) on a terminal holding an earlier
    # program's images: start/clear/stop must clear them
    "fresh-support-start-clear": {
        "term": "kitty", "fresh_support": True, "W": 30, "H": 12, "cell": [4, 8],
        "leftover": [[1, 2, 3, 10, 1, 7], [1, 3, 3, 10, 1, 7], [1, 9, 0, 4, 1, 0]],
        "widgets": [{"style": "kitty", "iw": 40, "ih": 20, "upscale": True}],
        "steps": [{"op": "start"}, {"op": "clear"},
                  {"op": "draw", "layout": ["hpile", [[4, ["img", 0]], [None, ["fill", "."]]]]},
                  {"op": "stop"}]},
    "fresh-support-clear-konsole": {
        "term": "konsole", "fresh_support": True, "W": 30, "H": 12, "cell": [4, 8],
        "leftover": [[1, 0, 0, 30, 1, -3]],
        "widgets": [{"style": "kitty", "iw": 40, "ih": 20, "upscale": True}],
        "steps": [{"op": "clear"}, {"op": "stop"}, {"op": "start"},
                  {"op": "draw", "layout": ["hpile", [[4, ["img", 0]], [None, ["fill", "."]]]]}]},
    # clear_images(now=True) / (now=False), then a redraw in which only the status line changes
    "clear-now-then-status-change": {
        "term": "kitty", "W": 30, "H": 10, "cell": [4, 8],
        "widgets": [{"style": "kitty", "iw": 40, "ih": 20, "upscale": True}],
        "steps": [{"op": "draw", "layout": ["hpile", [[None, ["hpile", [[4, ["img", 0]], [None, ["fill", "."]]]]], [1, ["fill", "0"]]]]},
                  {"op": "clear_images", "widgets": [], "now": True},
                  {"op": "draw", "layout": ["hpile", [[None, ["hpile", [[4, ["img", 0]], [None, ["fill", "."]]]]], [1, ["fill", "1"]]]]},
                  {"op": "draw", "layout": ["hpile", [[None, ["hpile", [[4, ["img", 0]], [None, ["fill", "."]]]]], [1, ["fill", "2"]]]]}]},
    "clear-widget-now-then-status-change": {
        "term": "konsole", "W": 30, "H": 10, "cell": [4, 8],
        "widgets": [{"style": "kitty", "iw": 40, "ih": 20, "upscale": True}],
        "steps": [{"op": "draw", "layout": ["hpile", [[None, ["hpile", [[4, ["img", 0]], [None, ["fill", "."]]]]], [1, ["fill", "0"]]]]},
                  {"op": "clear_images", "widgets": [0], "now": True},
                  {"op": "draw", "layout": ["hpile", [[None, ["hpile", [[4, ["img", 0]], [None, ["fill", "."]]]]], [1, ["fill", "1"]]]]}]},
    # SIGWINCH pending while an image moves; the frame is discarded; the size turns out unchanged
    "resize-pending-image-moves": {
        "term": "kitty", "W": 30, "H": 12, "cell": [4, 8],
        "widgets": [{"style": "kitty", "iw": 40, "ih": 20, "upscale": True}],
        "steps": [{"op": "draw", "layout": ["hpile", [[4, ["img", 0]], [None, ["fill", "."]]]]},
                  {"op": "sigwinch"},
                  {"op": "draw", "layout": ["hpile", [[6, ["fill", "x"]], [4, ["img", 0]], [None, ["fill", "."]]]]},
                  {"op": "resize_done"},
                  {"op": "draw", "same": True},
                  {"op": "sigwinch"},
                  {"op": "draw", "layout": ["hpile", [[4, ["img", 0]], [None, ["fill", "."]]]]},
                  {"op": "resize_done"},
                  {"op": "draw", "layout": ["hpile", [[1, ["fill", "y"]], [4, ["img", 0]], [None, ["fill", "."]]]]}]},
    # start() with and without the alternate buffer, on a terminal holding another program's images
    "start-without-alternate-buffer": {
        "term": "kitty", "W": 30, "H": 12, "cell": [4, 8],
        "leftover": [[1, 2, 3, 10, 1, 7], [1, 9, 0, 4, 1, 0]],
        "widgets": [{"style": "kitty", "iw": 40, "ih": 20, "upscale": True}],
        "steps": [{"op": "start", "alt": False}, {"op": "stop"},
                  {"op": "leftover", "pl": [[1, 0, 0, 30, 1, -3]]}, {"op": "start", "alt": True},
                  {"op": "draw", "layout": ["hpile", [[4, ["img", 0]], [None, ["fill", "."]]]]},
                  {"op": "stop"}, {"op": "leftover", "pl": [[1, 5, 5, 5, 1, 2]]}, {"op": "start", "alt": False},
                  {"op": "stop"}, {"op": "start"},
                  {"op": "draw", "layout": ["hpile", [[1, ["fill", "x"]], [4, ["img", 0]], [None, ["fill", "."]]]]}]},
    # several widgets created with one and the same non-empty format spec
    "same-format-spec": {
        "term": "kitty", "W": 30, "H": 12, "cell": [4, 8],
        "widgets": [{"style": "kitty", "iw": 40, "ih": 20, "upscale": True, "fmt": "+L"},
                    {"style": "kitty", "iw": 40, "ih": 20, "upscale": True, "fmt": "+L"},
                    {"style": "kitty", "iw": 20, "ih": 20, "upscale": True, "fmt": "+L"}],
        "steps": [{"op": "draw", "layout": ["hpile", [[3, ["img", 0]], [3, ["img", 1]], [3, ["img", 2]], [None, ["fill", "."]]]]},
                  {"op": "draw", "layout": ["hpile", [[3, ["img", 0]], [1, ["fill", "-"]], [3, ["img", 1]], [None, ["fill", "."]]]]}]},
    "konsole-iterm2-scroll": {
        "term": "konsole", "W": 30, "H": 12, "cell": [4, 8],
        "widgets": [{"style": "iterm2", "iw": 40, "ih": 40, "upscale": True}, {"style": "kitty", "iw": 40, "ih": 20}],
        "steps": [{"op": "draw", "layout": ["listbox", [["img", 0], ["text", "t"], ["img", 1]], 0]},
                  {"op": "draw", "layout": ["listbox", [["img", 0], ["text", "t"], ["img", 1]], 2]},
                  {"op": "stop"}, {"op": "start"},
                  {"op": "draw", "layout": ["listbox", [["text", "t"], ["img", 1]], 1]}]},
}


from common.py2lean_specs import with_translation  # noqa: E402


@with_translation
class C18(Property):
    id = "C18"
    lean_props = ["TIV.C18.Props", "TIV.Common.LexProofs"]
    driver = "drv_c18"
    partial = ("urwid's canvas composition and row diff (the shards and the set of re-emitted rows are inputs of the "
               "model; `placements_exact_partial` takes the row-diff rule as a hypothesis), kitty/konsole graphics "
               "semantics (TIV.Common.Term), CPython `set.pop()`/`__del__` timing; iterm2 placements on konsole are "
               "judged by the oracle/twin only")
    assumptions = [
        "urwid re-emits every row whose content differs from the previous draw (checked per step: k=1)",
        "LINES render method, kitty/iterm2 widgets only on terminals that support them",
        "urwid's last-row insert trick is bypassed in the harness screen (docs/C18.md, side observation)",
    ]
    quick_cases = 1000
    thorough_cases = 5000

    def __init__(self):
        self._cache: dict[str, tuple] = {}

    # -- translator ---------------------------------------------------------------------
    def gen_constants(self):
        KittyImage._supported = True
        Wd.reset_class_state(Z_START, ())
        probe = []
        keep = []
        for _ in range(6):
            z = UrwidImage._ti_get_z_index()
            probe.append(z)
        raising = []
        for k in (15, 16, 31, 32, 63):
            for d in (-1, 0, 1):
                v = 2**k + d
                Wd.reset_class_state(v, ())
                try:
                    UrwidImage._ti_get_z_index()
                except UrwidImageError:
                    raising.append(v)
        Wd.reset_class_state()
        if len(raising) != 1:
            raise ValueError(f"allocator limit not identified: {raising}")
        w = UrwidImage(KittyImage(_IMG))
        cyc = []
        for _ in range(3):
            w._ti_change_disguise()
            cyc.append(w._ti_disguise_state)
        ccyc = []
        UrwidImageCanvas._ti_disguise_state = 0
        for _ in range(3):
            UrwidImageCanvas._ti_change_disguise()
            ccyc.append(UrwidImageCanvas._ti_disguise_state)
        UrwidImageCanvas._ti_disguise_state = 0
        del w, keep
        gc.collect()
        # which terminal identities get `blend=False` (a delete-at-cursor before every image line)
        blend = []
        for name in ("kitty", "konsole", "wezterm", "iterm2", "other", ""):
            Wd.env.set_env(name=name)
            bw = UrwidImage(KittyImage(_IMG))
            blend.append((name, bool(bw._ti_style_args.get("blend", True))))
            del bw
        Wd.env.reset_env()
        gc.collect()
        Wd.reset_class_state()
        if cyc != ccyc:
            raise ValueError(f"widget and canvas disguise cycles differ: {cyc} {ccyc}")
        body = (
            "/-! GENERATED by harness/c18.py from the imported package — do not edit -/\n"
            "namespace TIV.C18.Generated\n"
            f"def zStart : Int := {Z_START}\n"
            f"def zLimit : Int := {raising[0]}\n"
            f"def disguiseCycle : List Nat := [{', '.join(map(str, cyc))}]\n"
            f"def zProbe : List Int := [{', '.join(map(str, probe))}]\n"
            "def blendTable : List (String × Bool) := ["
            + ", ".join(f'("{n}", {str(b).lower()})' for n, b in blend) + "]\n"
            "end TIV.C18.Generated\n"
        )
        files = dict(gen_ctl())
        files["TIV/C18/Generated.lean"] = body
        return files

    # -- generator --------------------------------------------------------------------
    def gen_z(self, rng):
        r = rng.random()
        if r < 0.55:
            next0, free0 = 1, []
        elif r < 0.8:  # near the end of the range (both signs, and exactly at the limit)
            next0 = rng.choice([LIM - 2, LIM - 1, -(LIM - 1), -(LIM - 2), LIM, LIM - 3])
            rank = lambda z: 2 * z - 2 if z > 0 else -2 * z - 1  # noqa: E731  position in 1, -1, 2, -2, …
            issued = [z for z in (1, -1, 5, -(LIM - 1), LIM - 1, 77, LIM - 2, -(LIM - 3)) if rank(z) < rank(next0)]
            free0 = sorted(set(rng.choice(issued) for _ in range(rng.randrange(0, 3))))
        else:
            n = rng.randrange(1, 40)
            next0 = (n // 2 + 1) * (1 if n % 2 == 0 else -1)
            pool = [(k // 2 + 1) * (1 if k % 2 == 0 else -1) for k in range(n)]
            free0 = sorted(rng.sample(pool, rng.randrange(0, min(6, n) + 1)))
        ops = []
        nlive = 0
        # widgets of UrwidImage only, or interleaved with one or two application-defined subclasses: the
        # allocator (counter and free set) is one for all of them
        classes = rng.choice([[0], [0, 1], [0, 1, 2], [1, 2], [0, 0, 1]])
        for _ in range(rng.randrange(1, 25)):
            if nlive and rng.random() < 0.45:
                ops.append(["D", rng.randrange(nlive + (1 if rng.random() < 0.1 else 0))])
                nlive -= 1 if ops[-1][1] < nlive else 0
            else:
                ops.append(["N", G.gen_style_spec(rng) if rng.random() < 0.3 else "",
                            rng.choice(classes)])
                nlive += 1  # (an allocation that raises leaves a phantom: `D` beyond the end is a no-op)
        return {"next0": next0, "free0": free0, "ops": ops}

    def z_case(self, d):
        outs, hints, final, zs, drawn = z_run(d["next0"], d["free0"], d["ops"])
        line = z_line(d["next0"], d["free0"], d["ops"], hints)
        kind = "z-exhaust" if "UrwidImageError" in outs else ("z-reuse" if any(h not in ("-", None) for h in hints) else "z-fresh")
        if len({op[2] for op in d["ops"] if op[0] == "N" and len(op) > 2}) > 1:
            kind += "-subclasses"
        fail = None
        if len(set(zs)) != len(zs) or any(not (-LIM < z < LIM) for z in zs):
            fail = Failure("z-index/duplicate-or-out-of-range",
                           f"live z-indexes (widgets of all classes, newest first) {zs}")
        bad = [(z, dz) for z, dz in drawn if dz != [z]]
        if fail is None and bad:
            fail = Failure("z-index/drawn-differs", f"widget holding z-index {bad[0][0]} is drawn with {bad[0][1]}")
        self._cache[line] = ("ok " + "|".join(outs) + " " + final, fail)
        return Case(line, {"z": d}, kind, len(d["ops"]) > 1)

    def hist_to_cases(self, sc, rng, kind=None, term_prob=0.25):
        line, impl, fail, recs = hist_case(sc)
        self._cache[line] = (impl, fail)
        nd = sum(1 for s in sc["steps"] if s["op"] == "draw")
        k = kind or ("hist-" + sc["term"] + ("-forced" if sc.get("forced") else "")
                     + ("-fresh" if sc.get("fresh_support") else "") + ("-" + recs_kind(recs)))
        yield Case(line, {"script": sc}, k, nd >= 2)
        # the twin against the Lean terminal, on the real bytes
        if sc.get("leftover"):
            return  # (the twin starts with placements the Lean `term` op does not know about)
        toks = []
        for rec in recs:
            if rec.get("toks") is None:
                return
            toks += rec["toks"]
            if rng.random() < term_prob and toks:
                tl = f"term {sc['W']} {sc['H']} {sc['term']} {len(toks)} " + " ".join(toks)
                yield Case(tl, {"term": {"W": sc["W"], "H": sc["H"], "kind": sc["term"], "toks": toks[:]}},
                           "term-" + sc["term"], True)

    def generate(self, rng: random.Random, tier: str):
        for name, sc in KNOWN_SCRIPTS.items():
            yield from self.hist_to_cases(json.loads(json.dumps(sc)), rng, "known-" + name, 1.0)
        while True:
            r = rng.random()
            if r < 0.3:
                yield self.z_case(self.gen_z(rng))
            else:
                yield from self.hist_to_cases(G.gen_script(rng, tier), rng)

    # -- implementation ---------------------------------------------------------------
    def _eval(self, case: Case):
        if case.line in self._cache:
            return self._cache[case.line]
        d = case.data
        if "z" in d:
            self.z_case(d["z"])
        elif "script" in d:
            line, impl, fail, _ = hist_case(d["script"])
            self._cache[case.line] = (impl, fail)  # (the line is rebuilt from the real run; the replayed one is kept)
        else:
            t = d["term"]
            pt = Wd.PTerm(t["W"], t["H"], t["kind"])
            pt.feed(t["toks"])
            self._cache[case.line] = (f"ok {pt.r} {pt.c} {int(pt.pw)} {pt.top} {fmt_set(pt.pl)}", None)
        return self._cache[case.line]

    def impl(self, case: Case) -> str:
        return self._eval(case)[0]

    def oracle(self, case: Case, impl_result: str):
        return self._eval(case)[1]

    def extra_checks(self, rng, tier, ev):
        """The library's own bytes in a screen — the lines of every image canvas met in this run — read by the
        proved Lean lexer (`lex.run`) and by the two Python tokenizers this harness uses (the shared strict one,
        and c18_world's for screen output, which adds urwid's cursor addressing etc.): identical readings.
        A disagreement is a defect of the harness → exception → INFRA, exit 2."""
        from common import lexcheck
        outs = list(Wd.IMAGE_LINES)
        lean = dict(zip(outs, lexcheck.lean_lex_many(self.driver, outs)))
        bad = lexcheck.cross_check(self.driver, outs, lean)
        for o in outs:
            if collapse_wire(lean[o]) != Wd.tokenize(o):
                bad.append(f"c18 tokenizer: {collapse_wire(lean[o])[:12]} vs {Wd.tokenize(o)[:12]}")
        ev["coverage"]["lexer_cross_check"] = {"image_canvas_lines": len(outs), "disagreements": len(bad), "first": bad[:3]}
        if bad:
            raise RuntimeError(f"lexer cross-check: disagreement on {len(bad)} image canvas lines: {bad[0]}")
        return []

    def search(self, rng, tier, reasons):
        out = []
        zhist = [{"next0": 1, "free0": [], "ops": [["N", "", a], ["N", "", b], ["N", "", c], ["D", 1], ["N", "", a]]}
                 for a, b, c in ((1, 0, 0), (0, 1, 0), (1, 2, 1), (0, 0, 1))]
        for d in zhist + [self.gen_z(rng) for _ in range(300)]:
            c = self.z_case(d)
            fail = self._cache[c.line][1]
            if fail:
                fail.case = c
                out.append(fail)
                break
        for name, sc in KNOWN_SCRIPTS.items():
            line, impl, fail, _ = hist_case(json.loads(json.dumps(sc)))
            if fail:
                fail.case = Case(line, {"script": sc}, "search-" + name)
                out.append(fail)
        for _ in range(400 if tier == "quick" else 4000):
            sc = G.gen_script(rng, tier)
            line, impl, fail, _ = hist_case(sc)
            if fail:
                fail.case = Case(line, {"script": sc}, "search")
                out.append(fail)
                if len(out) > 4:
                    break
        return out


def collapse_wire(wire: str):
    """the shared wire tokens of one line → c18_world's wire (runs of glyphs, attributes as `skip`)"""
    if wire == "err lex":
        return None
    out, run = [], 0
    for t in wire.split()[1:]:
        if t[0] == "g":
            run += 1
            continue
        if run:
            out.append(f"g{run}")
            run = 0
        out.append("skip" if t == "m" or t[0] in "fb" else t)
    if run:
        out.append(f"g{run}")
    return out


def recs_kind(recs):
    lone = any(r["op"] == "draw" and r["desc"][0] == "L" for r in recs)
    dels = any("kz" in r["out"] or "d=Z" in r["out"] for r in recs)
    alls = any(r["op"] == "draw" and ctlseqs.KITTY_DELETE_ALL in r["out"] for r in recs)
    return ("lone" if lone else "comp") + ("-delZ" if dels else "") + ("-delA" if alls else "")


if __name__ == "__main__":
    fw.main(C18)
