#!/venv/bin/python
"""C14 real-runtime tier: real threads + real `multiprocessing` children, every synchronized call
stamps (enter, exit) on CLOCK_MONOTONIC in shared memory; afterwards no two calls may overlap.

usage (stdio must be a tty):  c14_mp.py <fork|spawn|forkserver> <default|ctx> <lazy 0|1> <scale> <out.json>

* `default`: `multiprocessing.set_start_method(m)` + `multiprocessing.Process`;
  `ctx`: `multiprocessing.get_context(m).Process` (what Pool / ProcessPoolExecutor use);
* lazy=1: term_image is imported inside the functions that use it (the `__main__` of a spawned
  child then does not import it before `Process.run()` is called);
* the parent's threads keep calling synchronized functions while the main thread starts the
  children (calls racing with the lock hand-over), children run two threads each, the first
  child starts a grandchild (transitive), some calls are nested (re-entrancy).
"""
import json
import os
import sys
import threading
import time
import warnings

warnings.simplefilter("ignore")
sys.path.insert(0, os.environ.get("VERIF_REPO", "/repo") + "/src")
import multiprocessing as mp  # noqa: E402

LAZY = len(sys.argv) > 3 and sys.argv[3] == "1"
if not LAZY:
    import term_image.utils as _U  # noqa: F401

SLEEP = 0.004
_synced = None


def get_synced():
    """the synchronized probe: an outer call that sometimes makes a nested one"""
    global _synced
    if _synced is None:
        import term_image.utils as U

        @U.lock_tty
        def inner():
            time.sleep(SLEEP / 2)
            return 1

        @U.lock_tty
        def outer(nest):
            e = time.monotonic()
            time.sleep(SLEEP)
            n = inner() if nest else 0
            x = time.monotonic()
            return e, x, n

        _synced = outer
    return _synced


def loop(arr, slot, n):
    f = get_synced()
    for k in range(n):
        e, x, nn = f(k % 3 == 0)
        i = 3 * (slot * n + k)
        arr[i], arr[i + 1], arr[i + 2] = e, x, nn
        time.sleep(0.0005)


def child(arr, slot, n, how, method, grand):
    # (lazy mode: this is the child's first import of term_image — after Process.run() was called;
    # it must precede the start of the grandchild: a process that has not loaded term_image.utils
    # has nothing to hand over)
    get_synced()
    ths = [threading.Thread(target=loop, args=(arr, slot + j, n)) for j in range(2)]
    for t in ths:
        t.start()
    g = None
    if grand:
        if method == "mixed":
            P = mp.get_context("spawn").Process
        else:
            P = mp.get_context(method).Process if how == "ctx" else mp.Process
        g = P(target=child, args=(arr, slot + 2, n, how, method, False))
        g.start()
    for t in ths:
        t.join()
    if g:
        g.join(60)


def main():
    method, how, scale, out = sys.argv[1], sys.argv[2], int(sys.argv[4]), sys.argv[5]
    import term_image.utils as U

    n = 8 * scale
    nchild = 2
    nslots = 3 + 2 * nchild + 2  # parent threads, 2 per child, grandchild's 2
    if method == "mixed":
        # first child: default context (fork on Linux) with a spawned grandchild;
        # second child: forkserver context — all must end up on one lock
        ctx = mp.get_context("spawn")
        P = None
    elif how == "ctx":
        ctx = mp.get_context(method)
        P = ctx.Process
    else:
        mp.set_start_method(method, force=True)
        ctx = mp.get_context()
        P = mp.Process
    arr = ctx.Array("d", 3 * n * nslots, lock=False)
    # parent threads start calling before any process is started
    pth = [threading.Thread(target=loop, args=(arr, j, n)) for j in range(3)]
    for t in pth:
        t.start()
    time.sleep(SLEEP * 2)
    Ps = [mp.Process, mp.get_context("forkserver").Process] if method == "mixed" else [P, P]
    procs = [Ps[c](target=child, args=(arr, 3 + 2 * c + (2 if c > 0 else 0), n, how, method, c == 0)) for c in range(nchild)]
    # slots: child0 -> 3,4 ; grandchild -> 5,6 ; child1 -> 7,8
    for p in procs:
        p.start()
        time.sleep(SLEEP)
    for t in pth:
        t.join()
    for p in procs:
        p.join(90)
    iv = []
    nested = 0
    for i in range(n * nslots):
        e, x, nn = arr[3 * i], arr[3 * i + 1], arr[3 * i + 2]
        if x > 0:
            iv.append((e, x, i // n))
            nested += int(nn)
    iv.sort()
    overlaps, first, end, who = 0, None, -1.0, None
    for e, x, s in iv:
        if e < end:
            overlaps += 1
            if first is None:
                first = f"slot {s} entered {1000 * (end - e):.2f} ms before slot {who} left"
        if x > end:
            end, who = x, s
    json.dump({"method": method, "how": how, "lazy": LAZY, "intervals": len(iv), "expected": n * nslots,
               "overlaps": overlaps, "first": first, "nested": nested, "processes": 1 + nchild + 1,
               "lock_type": type(U._tty_lock).__module__ + "." + type(U._tty_lock).__name__,
               "exitcodes": [p.exitcode for p in procs]}, open(out, "w"))


if __name__ == "__main__":
    main()
