#!/venv/bin/python
"""C14 real-runtime tier: real threads + real `multiprocessing` children, every synchronized call
stamps (enter, exit) on CLOCK_MONOTONIC in shared memory; afterwards no two calls may overlap.

usage (stdio must be a tty):  c14_mp.py <fork|spawn|forkserver> <default|ctx> <lazy 0|1> <scale> <out.json>
                                        [target|run|runsuper|after|failfirst|daemon|pool] [pre 0|1]
  methods also: spawn+fork / forkserver+fork (children by the first, the grandchild by the second)

* style `target`: children are `Process(target=…)`; `run`: a Process SUBCLASS overriding run() without
  calling super().run() (the classic way of subclassing); `runsuper`: run() calls super().run() first;
* pre=1: before term_image is imported, `BaseProcess.start` / `run` / `_bootstrap` are instrumented
  with transparent `functools.wraps` wrappers (what a tracing / crash-reporting helper would do);

* `default`: `multiprocessing.set_start_method(m)` + `multiprocessing.Process`;
  `ctx`: `multiprocessing.get_context(m).Process` (what Pool / ProcessPoolExecutor use);
* lazy=1: term_image is imported inside the functions that use it (the `__main__` of a spawned
  child then does not import it before `Process.run()` is called);
* the parent's threads keep calling synchronized functions while the main thread starts the
  children (calls racing with the lock hand-over), children run two threads each, the first
  child starts a grandchild (transitive), some calls are nested (re-entrancy).
"""
import json
import os
import sys
import threading
import time
import warnings

warnings.simplefilter("ignore")
sys.path.insert(0, os.environ.get("VERIF_REPO", "/repo") + "/src")
import multiprocessing as mp  # noqa: E402

LAZY = len(sys.argv) > 3 and sys.argv[3] == "1"
STYLE = sys.argv[6] if len(sys.argv) > 6 else "target"
PRE = len(sys.argv) > 7 and sys.argv[7] == "1"

if PRE:
    import functools
    from multiprocessing.process import BaseProcess as _BP

    def _instrument(name):
        orig = getattr(_BP, name)

        @functools.wraps(orig)
        def wrapper(self, *a, **k):
            return orig(self, *a, **k)

        setattr(_BP, name, wrapper)

    for _n in ("start", "run", "_bootstrap"):
        _instrument(_n)


class NotPicklable(Exception):
    pass


class Unpicklable:
    def __call__(self):
        pass

    def __reduce__(self):
        time.sleep(SLEEP)   # pickling takes a moment, then fails
        raise NotPicklable("cannot pickle this target")


def _make_sub(base, name):
    def __init__(self, *a):
        base.__init__(self)
        self._a = a

    def run(self):
        if STYLE == "runsuper":
            base.run(self)
        child(*self._a)

    cls = type(name, (base,), {"__init__": __init__, "run": run, "__module__": __name__, "__qualname__": name})
    globals()[name] = cls
    return cls


SUBS = {"default": _make_sub(mp.Process, "Sub_default")}
for _m in ("fork", "spawn", "forkserver"):
    SUBS[_m] = _make_sub(mp.get_context(_m).Process, "Sub_" + _m)


def make_process(P, args):
    """a child running `child(*args)`: by target, or by an overridden run()"""
    if STYLE in ("target", "after", "failfirst"):
        return P(target=child, args=args)
    if STYLE == "daemon":
        return P(target=child, args=args, daemon=True)
    for key, cls in SUBS.items():
        if cls.__mro__[1] is P:
            return cls(*args)
    raise RuntimeError(f"no subclass for {P}")


if not LAZY:
    import term_image.utils as _U  # noqa: F401

SLEEP = 0.004
ERRORS = []
_synced = None


def get_synced():
    """the synchronized probe: an outer call that sometimes makes a nested one"""
    global _synced
    if _synced is None:
        import term_image.utils as U

        @U.lock_tty
        def inner():
            time.sleep(SLEEP / 2)
            return 1

        @U.lock_tty
        def outer(nest, arr, i):
            # the stamps are written from inside the call, so that they survive an exception raised
            # by the lock's own release afterwards
            arr[i] = time.monotonic()
            try:
                time.sleep(SLEEP)
                arr[i + 2] = inner() if nest else 0
            finally:
                arr[i + 1] = time.monotonic()

        _synced = outer
    return _synced


def loop(arr, slot, n):
    f = get_synced()
    for k in range(n):
        try:
            f(k % 3 == 0 and STYLE != "after", arr, 3 * (slot * n + k))
        except Exception as e:  # noqa: BLE001  (e.g. the lock's own bookkeeping failing)
            ERRORS.append(f"{type(e).__name__}: {e}")
            if STYLE == "after":
                return   # a confused lock: this party stops (its stamps so far stay)
        time.sleep(0.0005)


POOL_ARR = None


def _pool_init(arr):
    global POOL_ARR
    POOL_ARR = arr


def _pool_loop(slot, n):
    loop(POOL_ARR, slot, n)
    time.sleep(0.05)   # keep the worker busy so that the other task goes to the other worker


def child_after(arr, slot, n):
    """style `after`: the child is one contender (no threads of its own)"""
    loop(arr, slot, n)


def child(arr, slot, n, how, method, grand):
    # (lazy mode: this is the child's first import of term_image — after Process.run() was called;
    # it must precede the start of the grandchild: a process that has not loaded term_image.utils
    # has nothing to hand over)
    get_synced()
    # one loop in a thread, the other one in the process's main thread (the thread that exists in a
    # forked child right away)
    ths = [threading.Thread(target=loop, args=(arr, slot, n))]
    for t in ths:
        t.start()
    g = None
    if grand and STYLE in ("daemon", "pool"):
        grand = False   # daemonic processes are not allowed to have children
    if grand:
        if method == "mixed":
            P = mp.get_context("spawn").Process
        elif "+" in method:
            P = mp.get_context(method.split("+")[1]).Process   # e.g. spawn child -> FORK grandchild
        else:
            P = mp.get_context(method).Process if how == "ctx" else mp.Process
        g = make_process(P, (arr, slot + 2, n, how, method, False))
        g.start()
    loop(arr, slot + 1, n)
    for t in ths:
        t.join(12)
    if g:
        g.join(10)
        if g.is_alive():
            g.terminate()


def main():
    method, how, scale, out = sys.argv[1], sys.argv[2], int(sys.argv[4]), sys.argv[5]
    import signal
    import term_image.utils as U

    n = 8 * scale
    # style `after`: ONE child is started while nothing else runs, and only then the parent's threads
    # and the child contend (no call races with the start; the child is given as target=)
    after = STYLE == "after"
    pool = STYLE == "pool"
    nchild = 1 if after else 2
    nslots = 3 + 2 * 2 + 2  # parent threads, 2 per child, grandchild's 2
    # (style `after`: slot 0-1 main thread, 1-2 … see below; every party writes into its own range)
    if method == "mixed":
        # first child: default context (fork on Linux) with a spawned grandchild;
        # second child: forkserver context — all must end up on one lock
        ctx = mp.get_context("spawn")
        P = None
    elif "+" in method:
        # children by the first method, the first child's grandchild by the second one
        ctx = mp.get_context(method.split("+")[0])
        P = ctx.Process
    elif how == "ctx":
        ctx = mp.get_context(method)
        P = ctx.Process
    else:
        mp.set_start_method(method, force=True)
        ctx = mp.get_context()
        P = mp.Process
    arr = ctx.Array("d", 3 * n * nslots, lock=False)
    procs = []
    stuck = []

    def finish(*_):
        """evaluate the stamps written so far and leave (also the watchdog's way out of a deadlock)"""
        iv = []
        nested = 0
        for i in range(n * nslots):
            e, x, nn = arr[3 * i], arr[3 * i + 1], arr[3 * i + 2]
            if x > 0:
                iv.append((e, x, i // n))
                nested += int(nn)
        iv.sort()
        overlaps, first, end, who = 0, None, -1.0, None
        for e, x, s in iv:
            if e < end:
                overlaps += 1
                if first is None:
                    first = f"slot {s} entered {1000 * (end - e):.2f} ms before slot {who} left"
            if x > end:
                end, who = x, s
        expected = n * (6 if after else 5 if pool else 3 + 2 * nchild + (0 if STYLE == "daemon" else 2))
        json.dump({"method": method, "how": how, "lazy": LAZY, "style": STYLE, "pre": PRE, "intervals": len(iv),
                   "expected": expected, "overlaps": overlaps, "first": first, "nested": nested,
                   "processes": 1 + nchild + (0 if after else 1),
                   "lock_type": type(U._tty_lock).__module__ + "." + type(U._tty_lock).__name__,
                   "exitcodes": [p.exitcode for p in procs], "errors": ERRORS[:5],
                   "stuck": stuck + (["watchdog"] if _ else [])}, open(out, "w"))
        for p in procs:
            if p.is_alive():
                p.terminate()
        os._exit(0)

    signal.signal(signal.SIGALRM, finish)
    signal.alarm(25 * scale)
    pth = [threading.Thread(target=loop, args=(arr, j, n), daemon=True) for j in range(3)]
    if not after:
        # parent threads start calling before any process is started
        for t in pth:
            t.start()
        time.sleep(SLEEP * 2)
    Ps = [mp.Process, mp.get_context("forkserver").Process] if method == "mixed" else [P, P]
    if STYLE == "failfirst":
        # the very first start (the one that migrates the lock) fails while the parent's threads are
        # calling synchronized functions: its target cannot be pickled (spawn / forkserver)
        for _ in range(3):
            try:
                Ps[0](target=Unpicklable()).start()
                ERRORS.append("the start of an unpicklable target did not fail")
            except NotPicklable:
                pass
            time.sleep(SLEEP)
    the_pool = None
    if pool:
        # two Pool workers (daemonic processes started by the pool) each run one loop
        the_pool = ctx.Pool(2, initializer=_pool_init, initargs=(arr,))
        results = [the_pool.apply_async(_pool_loop, (3 + j, n)) for j in range(2)]
    elif after:
        # an empty child first (the very first start: the lock is migrated), then the contender
        first = Ps[0](target=time.sleep, args=(0,))
        first.start()
        first.join(10)
        procs.append(Ps[0](target=child_after, args=(arr, 3, 2 * n)))
    else:
        procs += [make_process(Ps[c], (arr, 3 + 2 * c + (2 if c > 0 else 0), n, how, method, c == 0)) for c in range(nchild)]
    # slots: child0 -> 3,4 ; grandchild -> 5,6 ; child1 -> 7,8
    for p in procs:
        p.start()
        time.sleep(SLEEP)
    if after:
        # phase 1: the main thread against the child; phase 2: two threads of the parent
        loop(arr, 0, 2 * n)
        pth = [threading.Thread(target=loop, args=(arr, j, n), daemon=True) for j in (2, 3)]
        for t in pth:
            t.start()
    for t in pth:
        t.join(15)
    stuck += [t.name for t in pth if t.is_alive()]
    for p in procs:
        p.join(15)
        if p.is_alive():
            stuck.append(p.name)
    if the_pool is not None:
        for r in results:
            try:
                r.get(20)
            except Exception as e:  # noqa: BLE001
                stuck.append(f"pool task: {type(e).__name__}: {e}")
        the_pool.terminate()
    finish()


if __name__ == "__main__":
    main()
