#!/venv/bin/python
"""C07 — an interrupted draw() still restores the terminal and the image.

Every effectful action of a draw (write, flush, sleep, render, tcsetattr) before the operation's
own clean-up is made to fail in turn — with KeyboardInterrupt and with an ordinary exception, the
interrupted write delivering several prefixes of its data — on the real code (recording tty
stream, fake termios, virtual sleep; machinery shared with harness/c06.py), and the trace is
compared with the model's `run` under the same fault plan.
"""
from __future__ import annotations

import os
import random
import sys

sys.path.insert(0, os.path.dirname(os.path.abspath(__file__)))
import c06  # noqa: E402
from c06 import fw, Case, Failure, Property, tk, ctl  # noqa: E402

DRIVER = "drv_c07"
ESC = "\x1b"


def mini_terminal(s: str):
    """independent byte-level reading of a stream (complete or cut): final parser state, cursor
    visibility, whether text attributes are default. A string (APC/OSC/DCS…) swallows everything up
    to ST; ESC restarts a cut CSI; C0 inside esc/csi executes."""
    st, params = "ground", ""
    vis, sgr_default = True, True
    apc, pending = None, False  # content of the APC string being read; a kitty chunked transmission is open
    for ch in s:
        if st == "ground":
            if ch == ESC:
                st = "esc"
        elif st == "esc":
            if ch == ESC:
                pass
            elif ord(ch) < 0x20:
                pass
            elif ch == "[":
                st, params = "csi", ""
            elif ch in "_]P^X":
                st = "str"
                apc = "" if ch == "_" else None
            else:
                st = "ground"
        elif st == "csi":
            if ch == ESC:
                st = "esc"
            elif 0x40 <= ord(ch) <= 0x7E:
                if params == "?25" and ch == "h":
                    vis = True
                elif params == "?25" and ch == "l":
                    vis = False
                elif ch == "m":
                    sgr_default = params in ("", "0")
                st = "ground"
            elif ord(ch) >= 0x20:
                params += ch
        elif st == "str":
            if ch == ESC:
                st = "strEsc"
            elif apc is not None:
                apc += ch
        elif st == "strEsc":
            if ch == "\\":
                st = "ground"
                if apc is not None and apc.startswith("G"):
                    # a kitty graphics command as the terminal received it (possibly with a truncated payload):
                    # `m=1` = more chunks follow, `m=0` = last chunk
                    keys = dict(kv.split("=", 1) for kv in apc[1:].split(";", 1)[0].split(",") if "=" in kv)
                    if keys.get("m") in ("0", "1"):
                        pending = keys["m"] == "1"
                apc = None
            elif ch == ESC:
                st = "strEsc"
            else:
                st = "str"
                if apc is not None:
                    apc += ESC + ch
    mini_terminal.pending = pending
    return st, vis, sgr_default


def cleanup_actions(d) -> int:
    """number of effectful actions of the operation's own clean-up (outside the property)"""
    if d["api"] == "new":
        return 2 + int(d["tty"] and d["hide"]) + int(d["tty"] and not d["echo"])
    return 2 + int(d["tty"])


class C07(Property):
    id = "C07"
    title = "An interrupted draw() still restores the terminal and the image"
    lean_props = ["TIV.C07.Props", "TIV.C07.Visible", "TIV.C07.Silent"]
    driver = DRIVER
    partial = ("signal delivery inside C code; what a half-delivered glyph does to a cell (no Term x parser product); the "
               "new API's SGR after a cut frame is the subclass hook's business (claimed only for the old API)")
    quick_cases = int(os.environ.get("C07_CASES", "6000"))
    thorough_cases = 30000

    def gen_constants(self):
        g = c06.gen_ctl()
        g.update(c06.gen_c06())
        return g

    def generate(self, rng: random.Random, tier: str):
        big = tier == "thorough"
        while True:
            d = c06.random_config(rng, tier)
            d.pop("clear_mode", None)  # C07's own `clear` strings below
            d["nframes"] = rng.choice([1, 2, 2, 3] + ([4] if big else []))
            d["loops"] = rng.choice([1, 1, 2])
            if d.get("indefinite"):  # an INDEFINITE stream run to completion, draw()'s default loops / cache
                d.update(nframes=rng.choice([3, 4]), loops=-1, cache=100)
            nconf = getattr(self, "_nconf", 0)
            self._nconf = nconf + 1
            if nconf % 8 == 1:
                # old-API kitty animation whose frames differ in payload size: at least one frame's transmission
                # spans several chunks (m=1 … m=0), the LAST frame fits in one; cached, >= 2 passes, so that a
                # chunked frame is written from the cache after an unchunked one was the last to be rendered
                d.update(api="old", style="kitty", method="whole", indefinite=False, term=rng.choice(["kitty", "konsole"]), mix=False,
                         animate=True, tty=True, cache=True, loops=rng.choice([2, 2, 3]), cell=[10, 20], px=80,
                         cols=8, lines=4, by_width=rng.random() < 0.5)
                d["kitty_version"] = rng.choice([[0, 25, 0], [0, 30, 1]]) if d["term"] == "kitty" else []
                d["nframes"] = rng.choice([2, 3])
                d["frame_kinds"] = (["noise", "flat"] if d["nframes"] == 2 else
                                    rng.choice([["noise", "noise", "flat"], ["flat", "noise", "flat"], ["noise", "flat", "flat"]]))
            d["check_size"] = True
            d["allow_scroll"] = False
            if d["api"] == "new":
                # the attributes in force when draw() is called: cooked, ECHO already off (a TUI), non-canonical, odd
                # VMIN/VTIME — "exactly as before the call" must hold for each
                d["tattr"] = rng.choice(c06.FakeTermios.VARIANTS)
                d["hook"] = rng.choice(["", "", ctl.SGR_DEFAULT, ctl.ST * 2])
                d["clear"] = rng.choice(["", "", ctl.KITTY_DELETE_CURSOR])
            d = c06.finish_geometry(rng, d)
            if d["_rel"] in ("w-1", "h-1"):  # size errors are C06's
                d["W"] += 2
                d["H"] += 2
            # fault-free run: how many actions there are
            try:
                r0 = (c06.run_new if d["api"] == "new" else c06.run_old)({**d, "plan": None})
            except Exception:
                continue
            if r0.outcome != "returned":
                continue
            nbody = r0.nactions - cleanup_actions(d)
            log = r0.log[:nbody]
            anim = d["animate"] and d["nframes"] > 1
            # thorough: EVERY k before the clean-up; quick: every k of short draws, else the first 6, the last 5
            # and a sample; both exception kinds; several cut offsets of each write (0, inside the first token,
            # somewhere, inside the last token)
            # the uninterrupted draw: attributes, finalisation, frame and size must be as before here too
            dd = dict(d)
            dd["plan"] = None
            yield Case("", dd, f"{d['api']}-{d['style']}-{'anim' if anim else 'still'}-nofault", True)
            if d["api"] == "new":  # … and on a buffering stream: everything must have been flushed when draw() returns
                dd = dict(d)
                dd.update(plan=None, buffered=True)
                yield Case("", dd, f"new-{d['style']}-{'anim' if anim else 'still'}-nofault-buffered", True)
                wk = [k for k in range(nbody) if log[k] == "write"]
                for k in sorted({wk[0], wk[-1]} if wk else []):  # an exception in a (buffered) write on the way
                    for exc in ("kbd", "err"):
                        dd = dict(d)
                        dd.update(plan={"k": k, "off": 0, "exc": exc}, buffered=True)
                        yield Case("", dd, f"new-{d['style']}-{'anim' if anim else 'still'}-fault-buffered", True)
            ks = list(range(nbody))
            if not big and nbody > 16:
                # … and EVERY sleep (between frames and the final one after the last frame)
                ks = sorted(set(ks[:6] + ks[-5:] + rng.sample(ks, 5) + [k for k in ks if log[k] == "sleep"][-4:]))
                if d.get("frame_kinds"):  # the frame writes of the later (cached) passes
                    later = [k for k in range(nbody // 2, nbody) if log[k] == "write"]
                    ks = sorted(set(ks[:3] + rng.sample(later, min(5, len(later)))))
            for k in ks:
                offs = [0]
                if log[k] == "write":
                    # 0 = nothing, 2 / random = inside a token, -1 = all but the last character,
                    # 10**6 = everything delivered and THEN the exception (Ctrl-C right after the write returned)
                    offs = [0, 2, rng.randrange(0, 60), -1, 10**6]
                    if d.get("frame_kinds"):
                        offs = [0, -1, 10**6, rng.randrange(100, 4000), rng.randrange(4200, 9000)]
                    if big:
                        offs += [1, rng.randrange(0, 4000)] + [rng.randrange(0, 200) for _ in range(3)]
                elif log[k] == "tcset":
                    offs = [0, 1]
                for exc in ("kbd", "err"):
                    for off in sorted(set(offs)):
                        dd = dict(d)
                        dd["plan"] = {"k": k, "off": off, "exc": exc}
                        kind = f"{d['api']}-{d['style']}-{'anim' if anim else 'still'}-{log[k]}-{exc}"
                        yield Case("", dd, kind, True)
            # old API, real images: Ctrl-C arriving INSIDE a render — raised from Pillow's convert / resize / getdata /
            # tobytes (the 1st, 2nd, 3rd such call of that render) — for every render of the draw
            if d["api"] == "old":
                renders = [k for k in range(nbody) if log[k] == "render"]
                for k in (renders if big else renders[:2] + renders[-1:]):
                    for nth in (1, 2, 3):
                        dd = dict(d)
                        dd["pil_fault"] = nth
                        dd["plan"] = {"k": k, "off": 0, "exc": "kbd"}
                        yield Case("", dd, f"old-{d['style']}-{'anim' if anim else 'still'}-pil-kbd", True)
            # a BUFFERING output stream (write() buffers, flush() delivers): Ctrl-C / an exception in the flush of a
            # later frame delivers any prefix of the frame — cut inside an APC/OSC or after colours. (No
            # `_clear_frame_` string here, so that the buffer is the frame alone and the fault is, seen from the
            # terminal, the interrupted write of that frame: the model is asked exactly that.)
            if d["api"] == "new" and anim and not d.get("frame_kinds"):
                # every flush of the animation after the first frame is complete, except the inner `finally`'s own
                first_render = log.index("render") if "render" in log else nbody
                fl = [k for k in range(first_render + 5, nbody - 2) if log[k] == "flush"]
                if d.get("clear"):
                    fl = []
                for k in (fl if big else rng.sample(fl, min(4, len(fl)))):
                    for exc in ("kbd", "err"):
                        for off in sorted({2, rng.randrange(0, 60), rng.randrange(0, 4000), -1}):
                            dd = dict(d)
                            dd["buffered"] = True
                            dd["plan"] = {"k": k, "off": off, "exc": exc}
                            yield Case("", dd, f"new-{d['style']}-anim-bufflush-{exc}", True)

    def impl(self, case: Case) -> str:
        d = case.data
        r, line, res = c06.run_case(d)
        case.line = line
        d["_stream"] = r.stream.getvalue()
        # a buffering stream: only what a flush has DELIVERED by the time draw() returns / raises has reached the terminal
        d["_delivered"] = getattr(r, "delivered", None) if d.get("buffered") else None
        d["_outcome"] = r.outcome
        d["_attrs"] = r.ft.summary() if r.ft is not None else "7,1"
        d["_attrs_restored"] = r.ft.restored() if r.ft is not None else True
        d["_attrs_final"] = repr(r.ft.attrs) if r.ft is not None else ""
        d["_attrs_initial"] = repr(r.ft.initial) if r.ft is not None else ""
        d["_finalized"], d["_seek_ok"], d["_size_ok"] = r.finalized, r.seek_ok, r.size_ok
        fired = c06.INJ.fired
        d["_fired"] = list(fired[::2]) if fired else None
        d["_box"] = list(r.box)
        try:
            d["_items"] = c06.items_of(r)
        except tk.TokenizeError:
            d["_items"] = None
        frame_heads = [s.split("\n")[0] for _, s in r.frames if s]
        d["_log"] = r.log
        anim_ = d["animate"] and d["nframes"] > 1
        d["_fired_in_frame"] = bool(fired and fired[0] == "write" and fired[1] is not None
                                    and not fired[1].startswith("\r") and any(h and h in fired[1] for h in frame_heads))
        d["_fired_partial_string"] = bool(fired and fired[1] is not None and fired[2] < len(fired[1])
                                          and (ESC + "_" in fired[1] or ESC + "]" in fired[1]))
        d["_log"] = r.log
        self._cursor_below(d, "", "", anim_, d["_fired"], queue_only=True)
        return res

    def oracle(self, case: Case, impl_result: str):
        d = case.data
        anim = d["animate"] and d["nframes"] > 1
        where = f"{d['api']}/{d['style']}/{d.get('method', '')}/{'anim' if anim else 'still'}"
        if d["_outcome"].startswith("err "):
            return Failure(f"exception/{where}", f"unexpected {d['_outcome']}")
        fired = d["_fired"]
        at = f"fault {d['plan']} at action kind {fired[0] if fired else None}"
        seen = d["_delivered"] if d.get("_delivered") is not None else d["_stream"]
        if d.get("_delivered") is not None and d["_delivered"] != d["_stream"]:
            at += f" (buffering stream: {len(d['_stream']) - len(d['_delivered'])} characters were still unflushed)"
        st, vis, sgr_default = mini_terminal(seen)
        # the new API's base class has no graphics renderable and its `_handle_interrupted_draw_` does nothing:
        # terminating a cut graphics command is the subclass's business, so text frames only there
        pending = mini_terminal.pending
        stream_claims = d["api"] == "old" or (d["style"] == "block" and not d.get("clear"))
        if not stream_claims:
            # … but whatever the frames are, a cut that is not inside a graphics write (HIDE_CURSOR, cursor moves, a
            # flush, a sleep, a write delivered completely) must leave the cursor visible
            cut_in_string = bool(fired) and fired[0] == "write" and d.get("_fired_partial_string", False)
            # … and when the subclass' `_handle_interrupted_draw_` prints ST ST, a KeyboardInterrupt while a frame is
            # being written / flushed is followed by it: nothing is left open, the cursor is shown again
            hooked = (bool(fired) and d["plan"]["exc"] == "kbd" and d.get("_fired_in_frame") and d.get("hook") == ctl.ST * 2
                      and not d.get("clear"))
            if not hooked:
                if cut_in_string or st in ("str", "strEsc"):
                    vis = True
                st, pending = "ground", False
        if (d["api"] == "new" and d["style"] == "block" and d.get("hook") == ctl.SGR_DEFAULT and fired
                and d["plan"]["exc"] == "kbd" and d.get("_fired_in_frame") and not sgr_default):
            return Failure(f"sgr/{where}/hook", f"the subclass' interrupt hook (CSI m) was not called after a frame was cut "
                           f"by Ctrl-C: a colour stays in effect; {at}")
        if st in ("str", "strEsc") or (d["api"] == "old" and st != "ground"):
            return Failure(f"parser/{where}/{fired[0] if fired else ''}",
                           f"the terminal is left inside an unterminated control sequence ({st}); {at}")
        if pending:
            return Failure(f"chunked/{where}/{fired[0] if fired else ''}",
                           f"a kitty chunked transmission (m=1) is left open: no m=0 command follows the cut; {at}")
        if not vis:
            return Failure(f"hidden/{where}/{fired[0] if fired else ''}/k{min(d['plan']['k'], 2) if d['plan'] else 'none'}",
                           f"the cursor is left hidden; {at}")
        if d["api"] == "old" and not sgr_default:
            return Failure(f"sgr/{where}", f"text attributes are not reset; {at}")
        if d["_attrs"] != "7,1" or not d.get("_attrs_restored", True):
            return Failure(f"attrs/{where}/{d.get('tattr', 'default')}",
                           f"terminal attributes are not exactly as before the call: before {d.get('_attrs_initial')}, "
                           f"after {d.get('_attrs_final')}; {at}")
        if d["api"] == "new" and d["_finalized"] != 1:
            return Failure(f"finalize/{where}", f"render data not finalized; {at}")
        if not d["_seek_ok"]:
            return Failure(f"seek/{where}", f"the image's current frame changed; {at}")
        if not d["_size_ok"]:
            return Failure(f"size/{where}", f"the image's size setting changed; {at}")
        f = self._cursor_below(d, where, at, anim, fired)
        if f:
            return f
        if fired:
            exc = d["plan"]["exc"]
            if anim:
                # inside the inner `finally` (the last two actions before the clean-up) is the animation's clean-up
                nbody = len(d["_log"]) - 0
                # set-up actions (hide cursor, tcsetattr, the wezterm pre-erase) precede the animation's own `try`:
                # a Ctrl-C there propagates in both APIs; nothing is claimed about them
                first_render = d["_log"].index("render") if "render" in d["_log"] else len(d["_log"])
                if exc == "kbd" and d["_outcome"] != "returned" and d["plan"]["k"] >= first_render:
                    # the animation's own clean-up = the inner `finally`'s cursor_down write + flush; a sleep or a
                    # render — in particular the FINAL sleep after the last frame — is never part of it
                    in_inner_finally = d["api"] == "new" and fired[0] in ("write", "flush") \
                        and d["_log"][d["plan"]["k"]:].count("write") <= 3 \
                        and d["_log"][d["plan"]["k"] + 1:].count("sleep") == 0
                    if not in_inner_finally:
                        return Failure(f"not-silent/{where}", f"animation did not end silently on Ctrl-C ({d['_outcome']}); {at}")
                if exc == "err" and d["_outcome"] != "raised:err":
                    return Failure(f"swallowed/{where}", f"an exception was swallowed ({d['_outcome']}); {at}")
            elif d["_outcome"] != "raised:" + exc:
                return Failure(f"not-raised/{where}", f"still image: {exc} not propagated ({d['_outcome']}); {at}")
        return None

    _cursor_results: dict = {}
    _cursor_pending: list = []

    def _cursor_result(self, req):
        """all pending terminal runs in ONE driver call (impl() has queued them; a replay or the search asks singly)"""
        if req not in self._cursor_results:
            todo = [r for r in dict.fromkeys(self._cursor_pending + [req]) if r not in self._cursor_results]
            for r, resp in zip(todo, fw.run_driver(DRIVER, todo)):
                self._cursor_results[r] = resp
            self._cursor_pending.clear()
        return self._cursor_results[req]

    def _cursor_below(self, d, where, at, anim, fired, queue_only=False):
        """C06's clause "the cursor is … on the line below the padded region" for an animation that was interrupted
        after its first frame: the code then moves the cursor down by the region's height from wherever the cut left it
        ("to prevent overlaid output"), so it cannot say *immediately* below — but it must not stay INSIDE the picture.
        The delivered complete tokens (a cut control sequence has no effect) are run on the Lean terminal."""
        # NOT a clause of C06 (quantified over uninterrupted draws) nor of C07 (which lists no cursor position): judging it
        # could raise an alarm on code where both properties hold, so it is a diagnostic only (VERIF_C07_CURSOR_DIAG=1);
        # a change that only moves the cursor after an interrupt therefore stays a broken tie (no-failing-input-found).
        if not os.environ.get("VERIF_C07_CURSOR_DIAG"):
            return None
        if not (fired and anim and d.get("_items") is not None):
            return None
        if fired[0] not in ("write", "flush") or (d["plan"]["exc"] != "kbd" and d["plan"]["k"] % 3):
            return None  # the cursor bookkeeping does not depend on the exception kind: err faults are sampled
        if d["api"] == "new" and (d["style"] != "block" or d.get("clear")):
            return None  # a cut graphics string swallows what follows: the subclass' business (see above)
        log, k = d["_log"], d["plan"]["k"]
        if "render" not in log:
            return None
        first_render = log.index("render")
        nbody = len(log) - cleanup_actions(d)
        if d["api"] == "new":
            # first_frame_written is set after: render, write f0, flush, write home, flush; the inner `finally`'s own
            # cursor_down write + flush are the last two actions before the clean-up
            if not (first_render + 5 <= k < nbody - 2):
                return None
        elif k < first_render:
            return None
        W, H = d["W"], d["H"]
        bw, bh = d["_box"]
        if bw > W or bh > H:
            return None
        items = [w for w in d["_items"] if not w.startswith("cut:") and not w.startswith("?")]
        req = f"term.run {W} {H} {c06.lean_kind(d)} 0 0 0 0 " + " ".join([str(len(items))] + items)
        if queue_only:
            self._cursor_pending.append(req)
            return None
        st = c06.parse_state(self._cursor_result(req))
        if st["row"] < bh:
            return Failure(f"cursor-inside/{where}/{fired[0]}",
                           f"after the interrupted animation the cursor is left on row {st['row']} INSIDE the padded region "
                           f"(rows 0–{bh - 1}): what is printed next overwrites the picture; {at}")
        return None

    def extra_checks(self, rng, tier, ev):
        """the Lean parser and the oracle's parser agree on real (cut) streams"""
        fails = []
        reqs, want = [], []
        gen = self.generate(random.Random(rng.randrange(1 << 30)), tier)
        for _ in range(150 if tier == "quick" else 1500):
            c = next(gen)
            self.impl(c)
            s = c.data["_stream"]
            cut = rng.randrange(0, len(s) + 1)
            for piece in (s, s[:cut]):
                reqs.append("parse " + " ".join([str(len(piece))] + [str(ord(ch)) for ch in piece]))
                want.append("ok " + mini_terminal(piece)[0])
        got = fw.run_driver(DRIVER, reqs)
        bad = [(r[:80], g, w) for r, g, w in zip(reqs, got, want) if g != w]
        ev["coverage"]["parser_agreement"] = {"streams": len(reqs), "disagreements": len(bad)}
        if bad:
            raise RuntimeError(f"parser model and oracle parser disagree: {bad[:2]}")
        return fails

    def search(self, rng, tier, reasons):
        fails = []
        gen = self.generate(rng, tier)
        for _ in range(1500):
            c = next(gen)
            try:
                f = self.oracle(c, self.impl(c))
            except Exception:
                continue
            if f:
                f.case = c
                fails.append(f)
                if len({x.key for x in fails}) >= 6:
                    break
        return fails


if __name__ == "__main__":
    fw.main(C07)
