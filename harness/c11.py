#!/venv/bin/python
"""C11 — image iteration matches frame-by-frame rendering and leaks nothing (DESIGN.md §5 C11)."""
from __future__ import annotations

import atexit
import base64
import gc
import http.server
import inspect
import io
import os
import random
import shutil
import socket
import sys
import tempfile
import threading
import time

sys.path.insert(0, os.path.dirname(os.path.abspath(__file__)))
from common import framework as fw  # noqa: E402
from common.framework import Case, Failure, Property  # noqa: E402
from common import env  # noqa: E402

import term_image.geometry  # noqa: E402,F401  (env.get_cell_size needs the attribute)
import PIL.Image as PI  # noqa: E402
from c11kit import rec as R  # noqa: E402

import term_image.image.common as common  # noqa: E402
import term_image.image.iterm2 as iterm2_mod  # noqa: E402
from term_image.exceptions import TermImageError  # noqa: E402
from term_image.image import (  # noqa: E402
    BlockImage, ImageIterator, ImageSource, ITerm2Image, KittyImage, Size,
)

os.environ["NO_PROXY"] = "127.0.0.1,localhost"
os.environ["no_proxy"] = "127.0.0.1,localhost"
_real_sleep = time.sleep
time.sleep = lambda *_: None  # `_display_animated` sleeps between frames: virtual time only
common.time.sleep = lambda *_: None

R.install()
rec = R.rec
CLS = {"block": BlockImage, "kitty": KittyImage, "iterm2": ITerm2Image}
OPAQUE = {"1", "L", "RGB", "HSV", "CMYK"}
COLS = [(255, 0, 0), (0, 255, 0), (0, 0, 255), (255, 255, 0), (255, 255, 255), (9, 9, 9), (0, 255, 255)]

# ---------------------------------------------------------------------------------------
# test images (synthetic, written once per process into a private directory)

TMP = tempfile.mkdtemp(prefix="c11-")
atexit.register(shutil.rmtree, TMP, True)


def _mk(name, n, size, mode, fmt):
    frames = []
    for i in range(n):
        f = PI.new("RGB", size, COLS[i % 7])
        f.putpixel((i % size[0], 0), (i * 30 % 256, 7, 9))
        if mode == "RGBA":
            f = f.convert("RGBA")
            f.putpixel((0, size[1] - 1), (0, 0, 0, 0))
            f.putpixel((size[0] - 1, size[1] - 1), (10, 20, 30, 100))
        elif mode == "L":
            f = f.convert("L")
        frames.append(f)
    kw = dict(save_all=True, append_images=frames[1:], duration=10) if n > 1 else {}
    if fmt == "WEBP":
        kw["lossless"] = True
    path = os.path.join(TMP, name)
    frames[0].save(path, fmt, **kw)
    return path


FILES = {
    "a.gif": _mk("a.gif", 3, (6, 6), "RGB", "GIF"),
    "b.gif": _mk("b.gif", 2, (3, 4), "RGB", "GIF"),
    "c.gif": _mk("c.gif", 5, (40, 30), "RGB", "GIF"),
    "a.png": _mk("a.png", 3, (6, 6), "RGBA", "PNG"),
    "a.webp": _mk("a.webp", 4, (6, 6), "RGBA", "WEBP"),
    "r.webp": _mk("r.webp", 2, (3, 4), "RGB", "WEBP"),
    "r.png": _mk("r.png", 2, (3, 4), "RGB", "PNG"),  # APNG: Pillow keeps the file open until close()
    "s_rgba.png": _mk("s_rgba.png", 1, (6, 6), "RGBA", "PNG"),
    "s_rgb.png": _mk("s_rgb.png", 1, (3, 4), "RGB", "PNG"),
    "s_l.png": _mk("s_l.png", 1, (6, 6), "L", "PNG"),
    "s_big.png": _mk("s_big.png", 1, (60, 40), "RGB", "PNG"),
}


def _truncate(name, src_name):
    data = open(FILES[src_name], "rb").read()
    path = os.path.join(TMP, name)
    open(path, "wb").write(data[: len(data) * 2 // 3])
    return path


FILES["s_p.png"] = os.path.join(TMP, "s_p.png")
PI.open(FILES["s_l.png"]).convert("P").save(FILES["s_p.png"])
# files Image.open() identifies but Pillow cannot decode (pixel data cut off): the first call that loads them —
# the mode conversion — fails
_noise = PI.frombytes("L", (48, 48), random.Random(7).randbytes(48 * 48))
_noise.save(os.path.join(TMP, "n_l.png"))
_noise.convert("P").save(os.path.join(TMP, "n_p.png"))
FILES["n_l.png"], FILES["n_p.png"] = os.path.join(TMP, "n_l.png"), os.path.join(TMP, "n_p.png")
FILES["t_l.png"] = _truncate("t_l.png", "n_l.png")
FILES["t_p.png"] = _truncate("t_p.png", "n_p.png")
del FILES["n_l.png"], FILES["n_p.png"]
TRUNC = ["t_l.png", "t_p.png"]
ANIM = ["a.gif", "b.gif", "c.gif", "a.png", "a.webp", "r.webp", "r.png"]
STILL = ["s_rgba.png", "s_rgb.png", "s_l.png", "s_big.png", "s_p.png"]
for _n in ("/repo/tests/images/lion.gif", "/repo/tests/images/anim.webp"):
    if os.path.exists(_n):
        FILES[os.path.basename(_n)] = _n
NFRAMES = {}
for _k, _p in FILES.items():
    with PI.open(_p) as _im:
        NFRAMES[_k] = getattr(_im, "n_frames", 1)
GIF_PROPS = {k: k.endswith(".gif") for k in FILES}  # is_animated / n_frames are computed properties

# sizes the iterator cases switch between (id -> how to set it); all give distinct rendered sizes
SIZES = [("w", 3), ("w", 4), ("h", 1), ("wh", (5, 2)), ("dyn", "ORIGINAL"),
         # one and the same dynamic setting (Size.FIT) under two terminal sizes: going from one to the other is a
         # terminal resize — the size *setting* does not change, the rendered size does
         ("dynfit", (20, 10)), ("dynfit", (12, 6))]
TERM0 = (80, 30)


def term_of(sid):
    return SIZES[sid][1] if SIZES[sid][0] == "dynfit" else TERM0


def set_size(image, sid):
    how, v = SIZES[sid]
    env.set_env(term_size=term_of(sid))     # the controlled terminal (outermost boundary), as `env` does it
    if how == "dynfit":
        if image._size is not Size.FIT:
            image.size = Size.FIT
    elif how == "w":
        image.set_size(width=v)
    elif how == "h":
        image.set_size(height=v)
    elif how == "wh":
        image.set_size(*v)
    else:
        image.size = Size[v]


# ---------------------------------------------------------------------------------------
# local HTTP server for from_url


class _H(http.server.BaseHTTPRequestHandler):
    def do_GET(self):
        path = self.path.split("?", 1)[0]
        name = os.path.basename(path)
        if path.startswith("/d1/"):
            name = "b.gif"       # another directory, same file name, different picture
        if name.startswith("text"):
            body, code = b"this is not an image at all\n" * 4, 200
        elif name in FILES:
            body, code = open(FILES[name], "rb").read(), 200
        else:
            body, code = b"nope", 404
        self.send_response(code)
        self.send_header("Content-Length", str(len(body)))
        self.end_headers()
        self.wfile.write(body)

    def log_message(self, *a):
        pass


_server = None


def server_port():
    global _server
    if _server is None:
        _server = http.server.HTTPServer(("127.0.0.1", 0), _H)
        threading.Thread(target=_server.serve_forever, daemon=True).start()
    return _server.server_address[1]


def closed_port():
    s = socket.socket()
    s.bind(("127.0.0.1", 0))
    p = s.getsockname()[1]
    s.close()
    return p


# ---------------------------------------------------------------------------------------
# raw files the library opens with builtins.open (iterm2 native animation / read-from-file)


class _RawFile:
    def __init__(self, f, lab):
        self._f, self._lab = f, lab

    def __getattr__(self, n):
        return getattr(self._f, n)

    def __enter__(self):
        return self

    def __exit__(self, *a):
        self.close()

    def close(self):
        if rec.on:
            rec.events.append(f"close {self._lab}")
        rec.closed.add(self._lab)
        self._f.close()


def _iterm2_open(path, mode="r", *a, **kw):
    f = open(path, mode, *a, **kw)
    if not rec.on:
        return f
    lab = f"r{rec.n}"
    rec.n += 1
    rec.gone.discard(lab)
    return _RawFile(f, lab)


iterm2_mod.open = _iterm2_open

# ---------------------------------------------------------------------------------------
# helpers


def b(x):
    return "1" if x else "0"


def alpha_of(spec_alpha):
    return {"none": None, "float": 0.5, "str": "#ffffff", "bg": "#"}[spec_alpha]


def spec_of(style, alpha, method):
    s = {"none": "#", "float": "#.5", "str": "#ffffff", "bg": "##"}[alpha]
    if style != "block" and method:
        s += "+" + method
    return s


def make_image(style, fname, src, width=3, height=None):
    """the image under test, built while recording is off; returns (image, pil source or None)"""
    cls = CLS[style]
    if src == "pil":
        pimg = PI.open(FILES[fname])
        return cls(pimg, width=width, height=height), pimg
    if src in ("mem", "memnofmt"):   # a PIL image that has no file behind it
        pimg = PI.open(io.BytesIO(open(FILES[fname], "rb").read()))
        if src == "memnofmt":
            pimg.format = None      # … and no known format: iterm2 native animation cannot re-encode it
        return cls(pimg, width=width, height=height), pimg
    if src == "new":                # a PIL image without even a `filename` attribute
        with PI.open(FILES[fname]) as im:
            pimg = im.copy()
        return cls(pimg, width=width, height=height), pimg
    return cls.from_file(FILES[fname], width=width, height=height), None


def model_src(src):
    return "file" if src == "file" else "pil"


def is_closed(img):
    """has close() been called on this PIL image? (a truncated file fails to load for another reason)"""
    try:
        img.load()
    except ValueError as e:
        return "closed" in str(e)
    except Exception:  # noqa: BLE001
        return False
    return False


def probe_rp(image, style, fname, k, alpha, frame, method, seq=False):
    """classify the data-dependent branch conditions of one render (harness-side, on a fresh copy)"""
    with PI.open(FILES[fname]) as im:
        if NFRAMES[fname] > 1:
            if seq:
                for i in range(k + 1):
                    im.seek(i)
            else:
                im.seek(k)
        mode, size = im.mode, im.size
    a = alpha_of(alpha)
    branch_a = a is None or mode in OPAQUE
    target = "RGB" if branch_a else "RGBA"
    native = method == "A" and NFRAMES[fname] > 1 and not frame
    if style == "block":
        want = image._get_render_size()
    elif method == "W" or (method == "A" and not native):  # ANIM that cannot be native is WHOLE
        want = image._get_minimal_render_size()
    else:
        want = image._get_render_size()
    return dict(animated=NFRAMES[fname] > 1, frame=frame, branchA=branch_a, alphaStr=isinstance(a, str),
                needConvert=mode != target, needResize=tuple(size) != tuple(want), mode=mode)


def rp_tokens(rp):
    return " ".join(b(rp[k]) for k in ("animated", "frame", "branchA", "alphaStr", "needConvert", "needResize"))


def variant_of(image, style, fname, src, alpha, method, frame, rp):
    if style == "block":
        return "block"
    if style == "kitty":
        return "kitty"
    animated = NFRAMES[fname] > 1
    readable = src in ("file", "pil")
    if method == "A" and animated and not frame:
        return "inative" if readable else "isave"
    eff = "L" if method == "L" else "W"
    if eff == "L":
        return f"ilines {image.rendered_height}"
    a = alpha_of(alpha)
    ow, oh = image._original_size
    rw, rh = image._get_render_size()
    gate = (image.read_from_file and readable and not animated and ow * oh <= rw * rh
            and (rp["mode"] in OPAQUE or (isinstance(a, float) and rp["mode"] not in {"P", "PA"})))
    return "iread" if gate else "iwhole"


def exc_name(e):
    for cls, name in ((R.Fault, "Fault"), (R.FaultAttr, "FaultAttr"), (R.FaultStop, "FaultStop"),
                      (R.FaultCustom, "FaultCustom"), (R.FaultKI, "FaultKI")):
        if isinstance(e, cls):
            return name
    return type(e).__name__


class Obs:
    """what the oracle needs about one run of the real code"""
    __slots__ = ("fd_delta", "fd_delta_after_drop", "live", "source_ok", "size_ok", "temp_ok", "frames_ok", "note",
                 "unclosed", "unclosed_fail", "skip")

    def __init__(self):
        self.fd_delta = self.fd_delta_after_drop = 0
        self.live = []
        self.unclosed = []
        self.unclosed_fail = []
        self.skip = False
        self.source_ok = self.size_ok = self.temp_ok = self.frames_ok = True
        self.note = ""


def fd_settle(base, tries=1):
    d = 0
    for i in range(tries):
        R.quiesce()
        d = R.fd_count() - base
        if d <= 0:
            break
        _real_sleep(0.02)
    return d


def summary():
    out = []
    for i in range(rec.n):
        lab = next((l for l in list(rec.alive) + [f"r{i}"] if l[1:] == str(i)), f"?{i}")
        if lab in rec.closed:
            st = "X"
        elif lab[0] == "r":
            st = "L"
        elif lab in rec.gone or rec.alive[lab]() is None:
            st = "g"
        else:
            st = "L"
        out.append(f"{lab}:{st}")
    return " ".join(out)


def size_token(image, sid_fixed, dyn_member):
    s = image._size
    if dyn_member is not None:
        return "dyn1" if s is dyn_member else "changed"
    return "fixed0" if s == sid_fixed else "changed"


# ---------------------------------------------------------------------------------------


class C11(Property):
    id = "C11"
    lean_props = ["TIV.C11.Props"]
    driver = "drv_c11"
    partial = ("Pillow internals (decoders, when a loaded single-frame file drops its descriptor), CPython "
               "reference counting / garbage collection and the HTTP stack are parameters of the model; the "
               "open-file count, the temp-dir state and the byte equality of frames are decided by the oracle "
               "on every case")
    assumptions = [
        "hash() is injective on the rendered sizes met (the iterator cache is keyed by hash(rendered_size)); "
        "checked by the harness for the sizes it uses",
        "an unreferenced PIL image / file object releases its descriptor when collected (CPython)",
        "injected failures are `Exception`s raised by a Pillow call before it runs; failures inside clean-up "
        "code and BaseExceptions are outside the property",
    ]
    quick_cases = 760
    thorough_cases = 3000
    rule = ("cases are generated from one PRNG state derived from VERIF_SEED; kinds: iter-* (operation histories "
            "on a real ImageIterator), res-* (one operation under a fault plan, event log of the Pillow proxy), "
            "meth/cached (decision functions); a case is non-trivial when it yields at least one frame or makes "
            "at least one Pillow call; distinct by the hash of its request line")

    def __init__(self):
        self.obs = {}
        self.direct = {}
        env.reset_env()
        env.set_env(term_size=(80, 30), cell_size=None, name="wezterm")

    # -- translator -----------------------------------------------------------------------
    def gen_constants(self):
        sig = inspect.signature(ImageIterator.__init__).parameters
        dsig = inspect.signature(common.BaseImage.draw).parameters
        it = iter(CLS["block"].from_file(FILES["a.gif"]))
        it_args = (it._repeat, it._format, it._cached)
        it.close()
        meths = sorted(ITerm2Image._render_methods)
        kmeths = sorted(KittyImage._render_methods)

        def ls(xs):
            return "[" + ", ".join('"' + x + '"' for x in xs) + "]"

        body = (
            "/-! GENERATED by harness/c11.py from the imported package — do not edit -/\n"
            "namespace TIV.C11.Generated\n"
            f"def iterDefaultRepeat : Int := {int(sig['repeat'].default)}\n"
            f"def iterDefaultCached : Nat := {int(sig['cached'].default)}\n"
            f"def iterDefaultSpec : String := \"{sig['format_spec'].default}\"\n"
            f"def drawDefaultRepeat : Int := {int(dsig['repeat'].default)}\n"
            f"def drawDefaultCached : Nat := {int(dsig['cached'].default)}\n"
            f"def dunderIterRepeat : Int := {int(it_args[0])}\n"
            f"def dunderIterSpec : String := \"{it_args[1]}\"\n"
            f"def dunderIterCached : Bool := {'true' if it_args[2] else 'false'}\n"
            f"def itermMethods : List String := {ls(meths)}\n"
            f"def kittyMethods : List String := {ls(kmeths)}\n"
            f"def imageSources : List String := {ls([m.name for m in ImageSource])}\n"
            "end TIV.C11.Generated\n"
        )
        return {"TIV/C11/Generated.lean": body}

    # -- generator ------------------------------------------------------------------------
    def generate(self, rng: random.Random, tier: str):
        yield from self.fixed_cases()
        while True:
            r = rng.random()
            if r < 0.45:
                yield self.gen_iter(rng)
            elif r < 0.93:
                c = self.gen_res(rng)
                if c is not None:
                    yield c
            elif r < 0.945:
                yield self.gen_urls(rng)
            elif r < 0.955:
                yield self.gen_ctor(rng)
            elif r < 0.97:
                m = rng.choice(["lines", "whole", "anim"])
                an, fr = rng.random() < 0.6, rng.random() < 0.5
                fname = rng.choice(["a.gif", "c.gif", "a.png"]) if an else rng.choice(["s_rgb.png", "s_big.png"])
                yield Case(f"meth {m} {b(an)} {b(fr)}", dict(m=m, fname=fname, frame=fr, w=rng.choice([4, 6, 12])),
                           "meth", True)
            else:
                nf_name = rng.choice(ANIM)
                rep = rng.choice([-1, 1, 2, 3])
                is_bool = rng.random() < 0.5
                bv = rng.random() < 0.5
                n = rng.choice([1, NFRAMES[nf_name] - 1, NFRAMES[nf_name], NFRAMES[nf_name] + 1, 100])
                yield Case(f"cached {NFRAMES[nf_name]} {rep} {b(is_bool)} {b(bv)} {n}",
                           dict(fname=nf_name, rep=rep, cached=(bv if is_bool else n)), "cached", True)

    URL_KEYS = ["http://127.0.0.1:{p}/a.gif", "http://localhost:{p}/a.gif", "http://127.0.0.1:{p}/d1/a.gif",
                "http://127.0.0.1:{p}/b.gif", "http://127.0.0.1:{p}/a.gif?v=2", "http://127.0.0.1:{p}/missing.gif"]
    URL_OWN = ["a.gif", "a.gif", "b.gif", "b.gif", "a.gif", None]

    def gen_urls(self, rng, ops=None):
        """several URL-sourced images alive at once: the same URL twice, the same file name on another host / in
        another directory, other names; opens, renders, closes interleaved"""
        if ops is None:
            ops, n_img = [], 0
            for _ in range(rng.randrange(4, 13)):
                x = rng.random()
                if x < 0.4 or n_img == 0:
                    k = rng.choice([0, 0, 1, 2, 3, 4, 5])
                    ops.append(f"o {k} {b(k != 5)}")
                    n_img += k != 5
                elif x < 0.75:
                    ops.append(f"r {rng.randrange(n_img + (rng.random() < 0.1))}")
                else:
                    ops.append(f"c {rng.randrange(n_img)}")
        return Case(f"urls {len(ops)} " + " ".join(ops), dict(ops=ops), "urls", True)

    def impl_urls(self, case):
        obs = self.obs[id(case)] = Obs()
        port = server_port()
        R.quiesce()
        tmp_before = set(os.listdir(common._TEMP_DIR))
        base = R.fd_count()
        imgs, paths, own, closed, out = [], [], [], [], []

        def expected(fname):
            key = ("urls-own", fname)
            if key not in self.direct:
                im = BlockImage.from_file(FILES[fname], width=3)
                self.direct[key] = str(im)
                im.close()
            return self.direct[key]

        def judge(what):
            if not obs.note:
                obs.note = what

        for o in case.data["ops"]:
            t = o.split()
            if t[0] == "o":
                k = int(t[1])
                try:
                    im = BlockImage.from_url(self.URL_KEYS[k].format(p=port), width=3)
                    imgs.append(im)
                    paths.append(im._source)
                    own.append(self.URL_OWN[k])
                    closed.append(False)
                    ans = "ok"
                except Exception:  # noqa: BLE001
                    ans = "err"
            elif t[0] == "r":
                i = int(t[1])
                if i >= len(imgs):
                    ans = "noimg"
                else:
                    try:
                        got = str(imgs[i])
                        ans = "ok"
                        if got != expected(own[i]):
                            judge(f"foreign-data: image {i} ({own[i]}) renders another download's data")
                    except TermImageError:
                        ans = "err TermImageError"
                    except FileNotFoundError:
                        ans = "err FileNotFoundError"
                        if not closed[i]:
                            judge(f"copy-missing: image {i} is open but its copy {os.path.basename(paths[i])} is gone")
                    except Exception as e:  # noqa: BLE001
                        ans = "err " + type(e).__name__
            else:
                i = int(t[1])
                if i >= len(imgs):
                    ans = "noimg"
                else:
                    imgs[i].close()
                    closed[i] = True
                    ans = "ok"
            flags = [os.path.exists(p_) for p_ in paths]
            for i, (fl, cl) in enumerate(zip(flags, closed)):
                if fl == cl:
                    judge((f"copy-missing: image {i} is open but its copy is gone" if cl is False else
                           f"copy-left: image {i} is closed but its copy still exists") + f" after `{o}`")
            if len(set(paths)) != len(paths):
                judge("copy-shared: two images share one temporary file " + os.path.basename(paths[-1]))
            out.append(f"{ans} " + ("".join(b(x) for x in flags) or "-"))
        # the rest goes by garbage collection
        im = None
        imgs.clear()
        R.quiesce()
        left = set(os.listdir(common._TEMP_DIR)) - tmp_before
        if left:
            judge(f"copy-left: files {sorted(left)[:3]} remain after every image was closed or collected")
            for x in left:
                os.remove(os.path.join(common._TEMP_DIR, x))
        if fd_settle(base, 25) > 0:
            judge("fd-leak: descriptors above the baseline after every URL image was dropped")
        return "ok " + "|".join(out)

    def gen_ctor(self, rng):
        """argument validation of `ImageIterator(...)` / of the image constructor: nothing may be opened or leaked"""
        if rng.random() < 0.25:
            is_pil, non_null = rng.random() < 0.6, rng.random() < 0.6
            return Case(f"bctor {b(is_pil)} {b(non_null)}", dict(is_pil=is_pil, non_null=non_null,
                                                                 style=rng.choice(list(CLS))), "bctor", True)
        is_image = rng.random() < 0.85
        animated = rng.random() < 0.8
        rep_ = rng.choice(["ok", "ok", "ok", "zero", "notint"])
        spec_is_str = rng.random() < 0.85
        spec_valid = rng.random() < 0.8
        cached = rng.choice(["ok", "ok", "ok", "notint", "nonpos"])
        return Case(f"ictor {b(is_image)} {b(animated)} {rep_} {b(spec_is_str)} {b(spec_valid)} {cached}",
                    dict(is_image=is_image, animated=animated, rep=rep_, spec_is_str=spec_is_str,
                         spec_valid=spec_valid, cached=cached, style=rng.choice(list(CLS)),
                         src=rng.choice(["file", "pil"])), "ictor", True)

    def impl_ctor(self, case):
        d = case.data
        obs = self.obs[id(case)] = Obs()
        R.quiesce()
        base = R.fd_count()
        pimg = None
        try:
            if case.line.startswith("bctor"):
                arg = (PI.new("RGB", (3, 3) if d["non_null"] else (0, 3))) if d["is_pil"] else "not an image"
                try:
                    CLS[d["style"]](arg).close()
                    return "ok"
                except (TypeError, ValueError) as e:
                    return "err " + type(e).__name__
            fname = "a.gif" if d["animated"] else "s_rgb.png"
            if d["is_image"]:
                image, pimg = make_image(d["style"], fname, d["src"])
                if pimg is not None:
                    base = R.fd_count()
            else:
                image = PI.open(FILES[fname])
                base = R.fd_count()
            rep_ = {"ok": 2, "zero": 0, "notint": 2.0}[d["rep"]]
            spec = ("1.1" if d["spec_valid"] else "1.1.1x") if d["spec_is_str"] else 5
            cached = {"ok": 3, "notint": "yes", "nonpos": 0}[d["cached"]]
            try:
                it = ImageIterator(image, rep_, spec, cached)
                repr(it)
                if iter(it) is not it:
                    obs.frames_ok = False
                    obs.note = "iter(iterator) is not the iterator"
                it.close()
                res = "ok"
            except (TypeError, ValueError) as e:
                res = "err " + type(e).__name__
            it = None
            image.close()
            image = None
            obs.fd_delta = fd_settle(base)
            if pimg is not None:
                if is_closed(pimg):
                    obs.source_ok = False
                    obs.note = "caller's PIL image closed by a failing ImageIterator()"
                pimg.close()
            return res
        finally:
            rec.on = False

    def fixed_cases(self):
        # the branches named in the property's anchors, once each, deterministically
        for style in ("block", "kitty", "iterm2"):
            for m in (["L", "W", "A"] if style == "iterm2" else ["L", "W"] if style == "kitty" else [""]):
                ops = ["n"] * 7
                yield self.iter_case(style, "a.gif", "file", "float", m, 2, True, False, 5, 0, 0, ops, "iter-fixed")
        yield self.iter_case("iterm2", "b.gif", "pil", "none", "A", 1, False, False, 5, 0, 0, ["n"] * 3, "iter-fixed")
        # PIL-sourced images whose PIL object is not where term-image's frame position says: moved by the caller, by
        # an earlier direct render, by an iterator that was closed early, or already at frame k at construction
        for style, method in (("block", ""), ("kitty", "W"), ("iterm2", "L")):
            for ops, rep_, s0, p0 in ((["p 2", "k 0", "d", "k 1", "d", "n", "d"], 2, 0, False),
                                      (["k 2", "d", "k 0", "d", "d"], 2, 0, False),
                                      (["n", "n", "c", "k 0", "d", "k 2", "d"], 2, 0, False),
                                      (["d", "k 0", "d", "n", "k 0", "d"], 1, 2, True)):
                yield self.iter_case(style, "a.gif", "pil", "float", method, rep_, True, False, 5, 0, s0, ops,
                                     "iter-pilmoved", pil0=p0)
        # a dynamically sized image (Size.FIT never changes) whose terminal is resized after frames were cached, between
        # and within loops: every yielded frame must be format(image, spec) at the CURRENT terminal size
        for style, method in (("block", ""), ("kitty", "L"), ("iterm2", "W")):
            yield self.iter_case(style, "a.gif", "file", "float", method, 3, True, True, 5, 5, 0,
                                 ["n"] * 3 + ["z 6"] + ["n"] * 2 + ["z 5"] + ["n"] * 2 + ["z 6", "n", "n", "d"],
                                 "iter-termresize")
            yield self.iter_case(style, "b.gif", "pil", "float", method, -1, True, True, 5, 6, 0,
                                 ["n", "n", "n", "z 5", "n", "n", "s 0", "n"], "iter-termresize")
        # cached iterators with non-default style arguments whose size changes after the first loop: the frames
        # re-rendered from then on must still be format(image, spec) — spec's style arguments included
        for style, method in (("kitty", "Wz7m1c9"), ("kitty", "Lz-2"), ("iterm2", "Wm1c9"), ("iterm2", "Lm1")):
            yield self.iter_case(style, "a.gif", "file", "float", method, 3, True, True, 5, 0, 0,
                                 ["n"] * 3 + ["z 1"] + ["n"] * 4 + ["z 3"] + ["n"] * 3, "iter-styleargs")
        # every class of failure `__next__` distinguishes, at a Pillow call in the middle of the second frame
        for style, method in (("block", ""), ("kitty", "W"), ("iterm2", "L")):
            base_d = dict(op="iter", style=style, fname="a.gif", src="file", alpha="float", method=method, width=3,
                          dyn=False, ending="close", need_n=False, fault=None)
            c2 = self.res_case(dict(base_d, nframes=2), None, None)
            if c2 is None:
                continue
            calls = [e.split()[0] for e in self.impl(c2)[3:].split("|")[0].split("; ") if e and not e.startswith("close")]
            # the last Pillow call of the second frame that nothing wraps (not convert / resize)
            idx = max(i for i, k in enumerate(calls) if k in ("tobytes", "save", "getdata"))
            for cls in ("value", "attr", "stop", "custom", "ki"):
                c = self.res_case(dict(base_d, nframes=2, cls=cls), None, idx)
                if c is not None:
                    c.kind = "res-iter-cls-" + cls
                    yield c
        # two or three URL images at once that could be confused with each other
        for ops in (["o 0 1", "o 0 1", "r 0", "r 1", "c 0", "r 1", "c 1"],
                    ["o 0 1", "o 2 1", "r 0", "r 1", "c 1", "r 0", "c 0"],
                    ["o 1 1", "o 0 1", "o 4 1", "c 1", "r 0", "r 2", "c 0", "r 2", "c 2"],
                    ["o 0 1", "o 3 1", "o 5 0", "c 0", "r 1", "o 0 1", "r 2", "c 1", "r 2"]):
            yield self.gen_urls(None, ops)
        # every way `from_url` can end, once; close() when the temp file is already gone
        for http, init_ok, closes, rm in (("ok", True, 0, False), ("ok", True, 2, True), ("ok", False, 0, False),
                                          ("text", True, 0, False), ("notfound", True, 0, False),
                                          ("connerr", True, 0, False), ("badtype", True, 0, False),
                                          ("badurl", True, 0, False)):
            c = self.res_case(dict(op="url", style="block", http=http, fname="a.gif", init_ok=init_ok, closes=closes,
                                   rm_before_close=rm, fault=None), None, None)
            if c is not None:
                c.kind = "res-url-fixed"
                yield c
        # every argument check of ImageIterator() / of the image constructor, once
        for args in ((False, True, "ok", True, True, "ok"), (True, False, "ok", True, True, "ok"),
                     (True, True, "notint", True, True, "ok"), (True, True, "zero", True, True, "ok"),
                     (True, True, "ok", False, True, "ok"), (True, True, "ok", True, False, "ok"),
                     (True, True, "ok", True, True, "notint"), (True, True, "ok", True, True, "nonpos"),
                     (True, True, "ok", True, True, "ok")):
            ii, an, rp_, ss, sv, ca = args
            yield Case(f"ictor {b(ii)} {b(an)} {rp_} {b(ss)} {b(sv)} {ca}",
                       dict(is_image=ii, animated=an, rep=rp_, spec_is_str=ss, spec_valid=sv, cached=ca, style="kitty",
                            src="file"), "ictor-fixed", True)
        for is_pil, non_null in ((False, True), (True, False), (True, True)):
            yield Case(f"bctor {b(is_pil)} {b(non_null)}", dict(is_pil=is_pil, non_null=non_null, style="block"),
                       "bctor-fixed", True)
        # a failing mode conversion / resize on every entry point that opens its own image, and on PIL sources
        for style, method in (("block", ""), ("kitty", "L"), ("iterm2", "W"), ("iterm2", "L")):
            for src in ("file", "pil"):
                for opk in ("fmt", "drawstill"):
                    for fname, alpha, target in (("s_p.png", "none", "convert"), ("a.gif", "float", "convert"),
                                                 ("s_rgba.png", "float", "resize"), ("t_l.png", "str", "convert")):
                        dd = dict(op=opk, style=style, fname=fname, src=src, alpha=alpha, method=method, width=3,
                                  dyn=False, closed=False, seek0=0, size_ok=True, fault=None, target=target)
                        c = self.res_case(dd, random.Random(1), "rand")
                        if c is not None and (c.data["fault"] is not None or c.data.get("natural") is not None):
                            c.kind = "res-" + opk + "-cfail"
                            yield c
        for style, method in (("kitty", "L"), ("kitty", "W"), ("iterm2", "W"), ("iterm2", "L"), ("block", "")):
            for alpha, fname in (("none", "r.png"), ("float", "r.png"), ("none", "b.gif"), ("float", "r.webp")):
                c = self.res_case(dict(op="fmt", style=style, fname=fname, src="file", alpha=alpha, method=method,
                                       width=3, dyn=False, closed=False, seek0=1, size_ok=True, fault=None), None, None)
                if c is not None:
                    c.kind = "res-fmt-asis"
                    yield c

    def gen_iter(self, rng):
        style = rng.choice(["block", "block", "kitty", "iterm2"])
        fname = rng.choice(["a.gif", "a.gif", "b.gif", "a.webp", "r.webp"])  # not APNG: Pillow cannot rewind it reliably
        nf = NFRAMES[fname]
        src = rng.choice(["file", "file", "pil"])
        alpha = rng.choice(["none", "float", "str"])
        method = "" if style == "block" else rng.choice(["L", "W"] + (["A", "A"] if style == "iterm2" else []))
        if style == "kitty" and rng.random() < 0.5:      # non-default style arguments travel with every frame,
            method += rng.choice(["z7", "z-3m1", "m1c9", "z2c0"])   # re-rendered ones included
        elif style == "iterm2" and rng.random() < 0.5:
            method += rng.choice(["m1", "c9", "m1c0"])
        rep = rng.choice([1, 1, 2, 2, 3, -1])
        is_bool = rng.random() < 0.6
        bv = rng.random() < 0.6
        n = rng.choice([nf - 1, nf, nf + 1, 100]) or 1
        size0 = rng.randrange(len(SIZES))
        seek0 = rng.randrange(nf)
        ops = []
        for _ in range(rng.randrange(1, 4 * nf + 6)):
            x = rng.random()
            if x < 0.68:
                ops.append("n")
            elif x < 0.79:
                ops.append(f"s {rng.choice([0, nf - 1, rng.randrange(nf), rng.randrange(nf), -1, nf])}")
            elif x < 0.80:
                ops.append("sx")
            elif x < 0.86:
                ops.append("d")        # format(image, spec) directly, in between
            elif x < 0.89 and src == "pil":
                ops.append(f"p {rng.randrange(nf)}")   # the caller moves its own PIL image
            elif x < 0.93:
                ops.append(f"z {rng.randrange(len(SIZES))}")
            elif x < 0.96:
                ops.append(f"k {rng.choice([0, nf - 1, rng.randrange(nf), nf])}")
            else:
                ops.append("c")
        kind = "iter-" + ("cached" if (rep != 1 and (bv if is_bool else nf <= n)) else "plain") \
            + ("-seek" if any(o[0] == "s" for o in ops) else "") + ("-size" if any(o[0] == "z" for o in ops) else "")
        return self.iter_case(style, fname, src, alpha, method, rep, is_bool, bv, n, size0, seek0, ops, kind)

    def iter_case(self, style, fname, src, alpha, method, rep, is_bool, bv, n, size0, seek0, ops, kind, pil0=False):
        nf = NFRAMES[fname]
        spec = spec_of(style, alpha, method)
        if size0 >= 5 or any(o in ("z 5", "z 6") for o in ops):
            # the terminal gets resized: relative padding is resolved once, when the iterator is made (against the
            # terminal of that moment) — use absolute, ineffective padding so that frames stay comparable
            spec = "1.1" + spec
        line = (f"iter {style}/{fname}/{src} {spec.encode().hex()} {nf} {rep} {b(is_bool)} {b(bv)} {n} {size0} {seek0} "
                f"{len(ops)} " + " ".join(ops))
        d = dict(style=style, fname=fname, src=src, spec=spec, rep=rep, cached=(bv if is_bool else n),
                 size0=size0, seek0=seek0, ops=ops, pil0=pil0)
        return Case(line, d, kind, any(o == "n" for o in ops))

    def gen_res(self, rng, fault="rand", opkind=None):
        opkind = opkind or rng.choice(["fmt", "fmt", "fmt", "drawstill", "nf", "iter", "iter", "iter", "draw",
                                       "draw", "file", "url"])
        d = dict(op=opkind)
        if opkind == "file":
            d.update(style=rng.choice(list(CLS)), fname=rng.choice(ANIM + STILL), init_ok=rng.random() < 0.8)
        elif opkind == "url":
            d.update(style=rng.choice(list(CLS)),
                     http=rng.choice(["ok", "ok", "ok", "ok", "notfound", "connerr", "text", "badtype", "badurl"]),
                     fname=rng.choice(ANIM + STILL), init_ok=rng.random() < 0.8, closes=rng.choice([0, 1, 2]),
                     rm_before_close=rng.random() < 0.3)
        else:
            style = rng.choice(["block", "kitty", "iterm2", "iterm2"])
            animated = opkind in ("iter", "draw", "nf") or \
                (opkind in ("fmt", "drawstill") and rng.random() < 0.55)
            fname = rng.choice([f for f in ANIM if f != "c.gif"]) if animated else rng.choice(STILL)
            method = "" if style == "block" else rng.choice(["L", "W"] + (["A"] if style == "iterm2" else []))
            srcs = ["file", "file", "pil"]
            if opkind in ("fmt", "drawstill"):
                if not animated:
                    srcs.append("new")
                    if rng.random() < 0.2:
                        fname = rng.choice(TRUNC)
                elif style == "iterm2" and method == "A":
                    srcs += ["mem", "memnofmt"]
            d.update(style=style, fname=fname, src=rng.choice(srcs),
                     alpha=rng.choice(["none", "float", "str", "bg"]), method=method,
                     width=rng.choice([3, 3, 3, 2, 5]), dyn=rng.random() < 0.25,
                     bg_unknown=rng.random() < 0.5, jpeg=style == "iterm2" and rng.random() < 0.25,
                     tiny_max=style == "iterm2" and rng.random() < 0.3)
            if opkind in ("fmt", "drawstill") and rng.random() < 0.45:
                d["target"] = rng.choice(["convert", "convert", "resize"])
            if opkind in ("fmt", "drawstill"):
                d.update(closed=rng.random() < 0.06, seek0=rng.randrange(NFRAMES[fname]),
                         size_ok=not (opkind == "drawstill" and rng.random() < 0.15))
            if opkind == "nf":
                d.update(closed=rng.random() < 0.1)
            if opkind == "iter":
                nfr = NFRAMES[fname]
                ending = rng.choice(["exhaust", "close", "drop", "imgclose"])
                d.update(ending=ending, nframes=nfr if ending == "exhaust" else rng.randrange(0, nfr + 1),
                         need_n=ending != "exhaust" and rng.random() < 0.4)
            if opkind == "draw":
                d.update(seek0=rng.randrange(NFRAMES[fname]), size_ok=rng.random() > 0.1,
                         need_n=False)
            if d.get("dyn"):
                d["size_ok"] = True
            if opkind == "nf":
                d["dyn"] = False
        d["fault"] = None
        return self.res_case(d, rng if fault == "rand" else None, fault)

    def res_case(self, d, rng=None, fault=None):
        """build the request line (needs one fault-free dry run to know the path and the number of calls)"""
        d.pop("natural", None)
        try:
            tokens, ncalls = self.res_tokens(d)
        except Exception:
            return None
        if d.get("natural") is not None:
            d["fault"] = None          # the failure is Pillow's own; the request line names the call that fails
        elif rng is not None:
            idx = d.get("_idx", {})
            if d.get("target") and d["target"] not in idx and idx:
                d["target"] = sorted(idx)[0]      # aim at the step this path does have
            tgt = idx.get(d.get("target"))
            if tgt is not None:
                d["fault"] = tgt       # aimed at the mode conversion / the resize
            else:
                d["fault"] = rng.randrange(ncalls) if ncalls and rng.random() < 0.7 else None
        elif isinstance(fault, int):
            d["fault"] = fault if fault < ncalls else None
        lf = d["natural"] if d.get("natural") is not None else d["fault"]
        f = "none" if lf is None else f"some {lf}"
        if d["op"] == "iter" and d["fault"] is not None and "cls" not in d:
            # the class of the injected exception: `__next__` treats them differently
            r_ = (rng or random.Random(d["fault"] * 7 + len(tokens))).random()
            d["cls"] = "value" if r_ < 0.3 else "attr" if r_ < 0.55 else "stop" if r_ < 0.7 else \
                "custom" if r_ < 0.88 else "ki"
        cls = d.get("cls", "value") if d["fault"] is not None else "value"
        d["cls"] = cls
        kind = f"res-{d['op']}" + ("-natural" if d.get("natural") is not None else "-fault" if d["fault"] is not None else "")
        if d.get("target") and d.get("_idx", {}).get(d["target"]) == d["fault"] and d["fault"] is not None:
            kind += "-" + d["target"]
        if d["op"] == "iter":
            kind += "-" + d["ending"]
        if cls != "value":
            return Case(f"resx {tokens} {f} {cls}", d, kind + "-" + cls, ncalls > 0)
        return Case(f"res {tokens} {f}", d, kind, ncalls > 0)

    def res_tokens(self, d):
        op = d["op"]
        if op == "file":
            return f"file {b(GIF_PROPS[d['fname']])} {b(d['init_ok'])}", 1 + GIF_PROPS[d["fname"]]
        if op == "url":
            http = d["http"]
            ident = http != "text"
            h = "ok" if http == "text" else http
            if h in ("badtype", "badurl"):
                return f"url {h} 1 0 1 0", 0
            anim_prop = GIF_PROPS[d["fname"]] and ident
            n = (1 + anim_prop) if h == "ok" and ident else 0
            return f"url {h} {b(ident)} {b(anim_prop)} {b(d['init_ok'])} {d['closes']}", n
        style, fname, src = d["style"], d["fname"], d["src"]
        image, pimg = make_image(style, fname, src, d["width"])
        try:
            if d.get("dyn"):
                image.size = Size.ORIGINAL
            alpha, method = d["alpha"], d["method"]
            if op in ("fmt", "drawstill"):
                image.seek(d["seek0"]) if NFRAMES[fname] > 1 else None
                rp = probe_rp(image, style, fname, d["seek0"], alpha, False, method)
                v = variant_of(image, style, fname, src, alpha, method, False, rp)
                toks = (f"fmt {model_src(src)} {b(d['closed'])} {b(d['size_ok'])} {b(d.get('dyn'))} {d['seek0']} {v} "
                        f"{rp_tokens(rp)}")
                # which Pillow call (in order) is the mode conversion / the resize of this path
                first = (src == "file") + (NFRAMES[fname] > 1)
                goes_through = v in ("block", "kitty", "iwhole") or v.startswith("ilines")
                d["_idx"] = {}
                if goes_through and not d["closed"] and d["size_ok"]:
                    if rp["needConvert"]:
                        d["_idx"]["convert"] = first
                    if rp["needResize"]:
                        d["_idx"]["resize"] = first + rp["needConvert"]
                    if fname in TRUNC:   # the first call that decodes the file fails by itself
                        d["natural"] = first
                if v == "isave" and src == "memnofmt" and not d["closed"] and d["size_ok"]:
                    d["natural"] = 0     # img.save(…, None, save_all=True) raises ValueError
                return toks, 30
            if op == "nf":
                return f"nf {model_src(src)} {b(d['closed'])} {b(GIF_PROPS[fname])}", 2
            frames = []
            nfr = d["nframes"] if op == "iter" else NFRAMES[fname]
            v = None
            for k in range(nfr):
                rp = probe_rp(image, style, fname, k, alpha, True, method, seq=True)
                frames.append(rp)
                v = v or variant_of(image, style, fname, src, alpha, method, True, rp)
            v = v or variant_of(image, style, fname, src, alpha, method, True,
                                probe_rp(image, style, fname, 0, alpha, True, method))
            ft = f"{len(frames)} " + " ".join(rp_tokens(r) for r in frames) if frames else "0"
            need_n = d.get("need_n", False)
            if op == "iter":
                toks = (f"iter {src} {b(need_n)} {b(GIF_PROPS[fname])} {v} {d['ending']} {b(d.get('dyn'))} {ft}")
            else:
                toks = (f"draw {src} {b(d['size_ok'])} {b(need_n)} {b(GIF_PROPS[fname])} {b(d.get('dyn'))} "
                        f"{d['seek0']} {v} {ft}")
            return toks.strip(), 8 * (len(frames) + 2)
        finally:
            image.close()
            if pimg is not None:
                pimg.close()

    # -- implementation -------------------------------------------------------------------
    def impl(self, case: Case) -> str:
        op = case.line.split(" ", 1)[0]
        try:
            if op == "iter":
                return self.impl_iter(case)
            if op in ("res", "resx"):
                return self.impl_res(case)
            if op == "urls":
                return self.impl_urls(case)
            if op == "meth":
                return self.impl_meth(case)
            if op in ("ictor", "bctor"):
                return self.impl_ctor(case)
            if op == "cached":
                d = case.data
                image, _ = make_image("block", d["fname"], "file")
                it = ImageIterator(image, d["rep"], "", d["cached"])
                r = it._cached
                it.close()
                image.close()
                return "ok " + b(r)
        finally:
            rec.on = False
        return "harness-bad-op"

    # .. iterator histories ..
    def direct_frames(self, style, fname, spec, sid):
        """format(image positioned at frame k, spec) for every k, on a separate image object"""
        key = (style, fname, spec, sid)
        if key not in self.direct:
            fspec = spec.replace("+A", "+W")  # native-animation requests fall back to whole-image frames
            cur_term = env.state["term_size"]
            image, _ = make_image(style, fname, "file")
            set_size(image, sid)
            out = []
            for k in range(NFRAMES[fname]):
                image.seek(k)
                out.append(format(image, fspec))
            rs = image.rendered_size
            image.close()
            env.set_env(term_size=cur_term)
            self.direct[key] = (out, rs)
        return self.direct[key]

    def impl_iter(self, case):
        d = case.data
        style, fname, spec = d["style"], d["fname"], d["spec"]
        nf = NFRAMES[fname]
        obs = self.obs[id(case)] = Obs()
        R.quiesce()
        base = R.fd_count()
        if d.get("pil0") and d["src"] == "pil":
            # an image made from a PIL image that is at frame `seek0` already
            pimg = PI.open(FILES[fname])
            pimg.seek(d["seek0"])
            image = CLS[style](pimg, width=3)
        else:
            image, pimg = make_image(style, fname, d["src"])
        if pimg is not None:
            base = R.fd_count()  # the caller's own descriptor is the caller's business
        set_size(image, d["size0"])
        if not d.get("pil0"):
            image.seek(d["seek0"])
        elif image.tell() != d["seek0"]:
            obs.frames_ok = False
            obs.note = f"an image made from a PIL image at frame {d['seek0']} reports frame {image.tell()}"
        sid = d["size0"]
        # the sizes must be told apart by their hash (assumption of the model)
        hashes = {}
        for s in range(len(SIZES)):
            hashes.setdefault(hash(self.direct_frames(style, fname, spec, s)[1]), set()).add(s)
        if any(len(v) > 1 for v in hashes.values()):
            obs.note = "hash collision between rendered sizes"
        it = ImageIterator(image, d["rep"], spec, d["cached"])
        if iter(it) is not it or type(it).__name__ not in repr(it):
            obs.frames_ok = False
            obs.note = "iter(iterator) is not the iterator itself"
        out = []
        # the oracle's own expectation, from the statement of the property
        exp_next, started, closed, passes = 0, False, False, d["rep"]
        for o in d["ops"]:
            t = o.split()
            expect_stop = False
            if t[0] == "n" and not closed:
                if exp_next >= nf:          # a pass has ended
                    exp_next = 0
                    if passes > 0:
                        passes -= 1
                expect_stop = passes == 0
            try:
                if t[0] == "n":
                    fr = next(it)
                    table = self.direct_frames(style, fname, spec, sid)[0]
                    hit = [(k, sid) for k in range(nf) if table[k] == fr]
                    if not hit:  # a frame of another size (stale cache) or of no size at all
                        hit = [(k, s) for s in range(len(SIZES)) for k in range(nf)
                               if self.direct_frames(style, fname, spec, s)[0][k] == fr]
                    ans = f"f {hit[0][0]} {hit[0][1]}" if hit else "f ?"
                    if not closed:
                        if expect_stop or ans != f"f {exp_next} {sid}" or image.tell() != exp_next:
                            obs.frames_ok = False
                            obs.note = (f"next() gave `{ans}` tell={image.tell()}, expected "
                                        + ("StopIteration" if expect_stop else f"frame {exp_next} at size {sid}"))
                        exp_next += 1
                elif t[0] == "sx":
                    it.seek("1")
                    ans = "ok"
                elif t[0] == "p":
                    if pimg is not None:
                        pimg.seek(int(t[1]))
                    ans = "ok"
                elif t[0] == "d":
                    # a direct render at the image's frame position n shows frame n of the source — compared
                    # with an independently opened copy at frame n (which is also what the iterator yields for n)
                    fr = format(image, spec.replace("+A", "+W"))
                    table = self.direct_frames(style, fname, spec, sid)[0]
                    hit = [k for k in range(nf) if table[k] == fr]
                    ans = f"f {hit[0]} {sid}" if hit else "f ?"
                    if ans != f"f {image.tell()} {sid}":
                        obs.frames_ok = False
                        obs.note = (f"format(image) at frame position {image.tell()} gave `{ans}` "
                                    "(not that frame of the source)")
                elif t[0] == "s":
                    it.seek(int(t[1]))
                    ans = "ok"
                    exp_next = int(t[1])
                elif t[0] == "c":
                    it.close()
                    ans = "ok"
                    closed = True
                elif t[0] == "z":
                    sid = int(t[1])
                    set_size(image, sid)
                    ans = "ok"
                elif t[0] == "k":
                    image.seek(int(t[1]))
                    ans = "ok"
            except StopIteration:
                ans = "stop"
                if not closed:
                    closed = True
                    if not expect_stop:
                        obs.frames_ok = False
                        obs.note = f"StopIteration where frame {exp_next} was due"
                    elif image.tell() != 0:
                        obs.frames_ok = False
                        obs.note = f"tell()={image.tell()} after exhaustion"
            except TermImageError:
                ans = "err TermImageError"
            except ValueError:
                ans = "err ValueError"
            except TypeError:
                ans = "err TypeError"
            except Exception as e:  # noqa: BLE001
                ans = "err " + type(e).__name__
            out.append(f"{ans} {image.tell()} {'none' if it.loop_no is None else it.loop_no}")
        # size setting untouched by rendering
        how, v = SIZES[sid]
        env.set_env(term_size=TERM0)
        if how == "dynfit" and image._size is not Size.FIT:
            obs.size_ok = False
        if how == "dyn" and image._size is not Size[v]:
            obs.size_ok = False
        if how not in ("dyn", "dynfit") and isinstance(image._size, Size):
            obs.size_ok = False
        del it
        image.close()
        del image
        obs.fd_delta = fd_settle(base)
        if pimg is not None:
            try:
                pimg.seek(0)
                pimg.load()
                pimg.getpixel((0, 0))
            except Exception as e:  # noqa: BLE001
                obs.source_ok = False
                obs.note = f"caller's PIL image unusable: {e}"
            pimg.close()
        return "ok " + "|".join(out)

    # .. one operation under a fault plan ..
    def impl_res(self, case):
        d = case.data
        obs = self.obs[id(case)] = Obs()
        op = d["op"]
        R.quiesce()
        tmp_before = set(os.listdir(common._TEMP_DIR))
        image = pimg = it = None
        exc = "-"
        keep_it = False
        fixed = dyn_member = None
        url_path = None
        if op in ("file", "url"):
            base = R.fd_count()
            rec.reset(d["fault"])
            kw = dict(width=3) if d["init_ok"] else dict(width=0)
            if op == "url":
                port = closed_port() if d["http"] == "connerr" else server_port()
                name = {"notfound": "missing.png", "text": "text.png"}.get(d["http"], d["fname"])
                base = R.fd_count()
            rec.on = True
            try:
                if op == "file":
                    image = CLS[d["style"]].from_file(FILES[d["fname"]], **kw)
                else:
                    url = {"badtype": 123, "badurl": "no scheme, no host"}.get(
                        d["http"], f"http://127.0.0.1:{port}/{name}")
                    image = CLS[d["style"]].from_url(url, **kw)
                    url_path = image._source
                    for _ in range(d["closes"]):
                        if d.get("rm_before_close") and os.path.exists(url_path):
                            os.remove(url_path)   # somebody else cleaned up first: close() must cope
                        image.close()
            except Exception as e:  # noqa: BLE001
                exc = exc_name(e)
                if exc in ("ValueError",) and d.get("http") != "badurl":
                    exc = "InvalidSizeError"
                if "Connection" in exc or "ConnectTimeout" in exc or "NewConnection" in exc:
                    exc = "ConnectionError"
                e = None
            rec.on = False
            tmp_now = set(os.listdir(common._TEMP_DIR)) - tmp_before
            is_open = image is not None and not image.closed
            temp = bool(tmp_now)
            if op == "url":
                if temp != is_open or (url_path and os.path.exists(url_path) != is_open):
                    obs.temp_ok = False
                    obs.note = f"temp files {sorted(tmp_now)} while image open={is_open}"
            summ = summary()
            seek = 0
            size = "fixed0"
            del image
            image = None
            obs.fd_delta = fd_settle(base, 25 if op == "url" else 1)
            left = set(os.listdir(common._TEMP_DIR)) - tmp_before
            if left:
                obs.temp_ok = False
                obs.note = f"temp files left after the image was dropped: {sorted(left)}"
            return "ok " + "|".join(["; ".join(rec.events), exc, summ, f"size={size}", f"seek={seek}",
                                     f"temp={b(temp)}", "uac=0"])
        style, fname, src = d["style"], d["fname"], d["src"]
        base = R.fd_count()
        rec.reset(d["fault"], d.get("cls", "value"))
        image, pimg = make_image(style, fname, src, d["width"])
        if pimg is not None:
            R.adopt_source(pimg)
            base = R.fd_count()
        if d.get("dyn"):
            image.size = dyn_member = Size.ORIGINAL
        else:
            fixed = image._size
        spec = spec_of(style, d["alpha"], d["method"])
        alpha = alpha_of(d["alpha"])
        if NFRAMES[fname] > 1 and "seek0" in d:
            image.seek(d["seek0"])
        if d.get("closed"):
            image.close()
        stdout = sys.stdout
        held = None
        if d["alpha"] == "bg" and d.get("bg_unknown"):
            env.set_env(bg=None)          # "#": the terminal's background colour is unknown -> black
        if d.get("jpeg"):
            image.jpeg_quality = 60       # iterm2 re-encodes opaque frames as JPEG
        if d.get("tiny_max"):
            ITerm2Image.native_anim_max_bytes = 1   # native animations only warn about their size
        try:
            rec.on = True
            try:
                if op == "fmt":
                    format(image, spec)
                elif op == "drawstill":
                    sys.stdout = io.StringIO()
                    if not d["size_ok"]:
                        env.set_env(term_size=(1, 1))
                    st = {} if style == "block" else {"method": {"L": "lines", "W": "whole", "A": "anim"}[d["method"]]}
                    image.draw(alpha=alpha, animate=False, **st)
                elif op == "nf":
                    image.n_frames
                elif op == "draw":
                    sys.stdout = io.StringIO()
                    if not d["size_ok"]:
                        env.set_env(term_size=(1, 1))
                    st = {} if style == "block" else {"method": {"L": "lines", "W": "whole", "A": "anim"}[d["method"]]}
                    image.draw(alpha=alpha, repeat=1, cached=(50 if d["need_n"] else False), **st)
                elif op == "iter":
                    ending = d["ending"]
                    rep, cached = (2, 50) if d["need_n"] else (1, False)
                    it = ImageIterator(image, rep, spec, cached)
                    for _ in range(d["nframes"]):
                        next(it)
                    if ending == "exhaust":
                        try:
                            next(it)
                        except StopIteration:
                            pass
                    elif ending == "close":
                        it.close()
                    elif ending == "drop":
                        it = None
                        gc.collect()  # the iterator and its generator refer to each other
                    else:
                        image.close()
                        it.close()
                        keep_it = True
            except (Exception, R.FaultKI) as e:  # noqa: BLE001
                exc = exc_name(e)
                held = e                  # a caller may keep the exception (and with it the frames' locals)
                if exc == "FaultKI":
                    # a BaseException is outside the property: `__next__` has no clause for it, the iterator stays
                    # as it is (and referenced) — compared with the model, not judged by the oracle
                    keep_it = True
                    obs.skip = True
            finally:
                sys.stdout = stdout
                rec.on = False
                env.set_env(term_size=(80, 30), bg=(0, 0, 0))
                if d.get("tiny_max"):
                    del ITerm2Image.native_anim_max_bytes
        finally:
            rec.on = False
        if held is not None:
            # the call has raised and the exception is still referenced: the garbage collector cannot help.
            # Where the library promises to clean up (a failing mode conversion / resize / re-encoding is turned
            # into a RenderError after closing what it opened), every image it opened must be closed NOW.
            if exc == "RenderError" or (op == "iter" and exc != "FaultKI"):
                # … and whatever makes `ImageIterator.__next__` (or its constructor) fail, the iterator has let go
                opens = [e.split()[1] for e in rec.events if e.startswith("open o")]
                allowed = set(opens[1:2]) if op == "draw" else set()
                obs.unclosed_fail = [x for x in rec.open_unclosed() if x not in allowed]
                if op in ("fmt", "drawstill") and R.fd_count() - base > 0:
                    obs.unclosed_fail = obs.unclosed_fail or [f"{R.fd_count() - base} descriptor(s)"]
            if pimg is not None and is_closed(pimg):
                obs.source_ok = False
                obs.note = "the caller's PIL image was closed by the failing operation"
            held = None
        if op == "iter" and any(e.startswith("FAULT") for e in rec.events) and exc in ("-", "StopIteration"):
            obs.frames_ok = False
            obs.note = ("a Pillow call failed while a frame was being produced, but next() "
                        + ("reported exhaustion (StopIteration)" if exc != "-" else "returned normally"))
        # the operation has returned (or raised); nothing has been dropped or collected by the harness yet:
        # which images did the library open, never close, and leave (or let be collected) with the file open?
        if exc == "-" and d["fault"] is None:
            opens = [e.split()[1] for e in rec.events if e.startswith("open o")]
            allowed = set()
            if op == "draw":
                allowed = set(opens[1:2])   # the image `ImageIterator.__init__` opens inside `_display_animated`
            elif op == "iter" and d["nframes"] == 0 and d["ending"] != "exhaust":
                allowed = set(opens)        # a never-started iterator never learns about its image
            obs.unclosed = [x for x in rec.open_unclosed() if x not in allowed]
        size = size_token(image, fixed, dyn_member)
        if size == "changed":
            obs.size_ok = False
            obs.note = f"size setting is {image._size!r} after the operation"
        seek = image.tell()
        if op == "draw" and NFRAMES[fname] > 1 and seek != d["seek0"]:
            obs.frames_ok = False
            obs.note = f"animated draw() moved the image from frame {d['seek0']} to frame {seek}"
        if not keep_it:
            it = None
        image.close()
        image = None
        R.quiesce()
        summ = summary()
        obs.live = [x for x in summ.split() if x.endswith(":L") and not x.startswith("s")]
        obs.fd_delta = fd_settle(base)
        it = None
        obs.fd_delta_after_drop = fd_settle(base)
        if pimg is not None:
            try:
                if is_closed(pimg):
                    raise ValueError("Operation on closed image")
                if fname not in TRUNC:
                    pimg.seek(0)
                    pimg.load()
                    pimg.getpixel((0, 0))
            except Exception as e:  # noqa: BLE001
                obs.source_ok = False
                obs.note = f"caller's PIL image unusable: {e}"
            pimg.close()
        return "ok " + "|".join(["; ".join(rec.events), exc, summ, f"size={size}", f"seek={seek}", "temp=0", "uac=0"])

    # .. which branch an iterm2 render request takes ..
    def impl_meth(self, case):
        d = case.data
        image, _ = make_image("iterm2", d["fname"], "file", d["w"])
        image.read_from_file = False
        try:
            out = {}
            for m in ("lines", "whole"):
                out[m] = image._renderer(image._render_image, None, frame=d["frame"], method=m)
            got = image._renderer(image._render_image, None, frame=d["frame"], method=d["m"])
            for m in (("lines", "whole") if d["m"] == "lines" else ("whole", "lines")):
                if got == out[m]:
                    return "ok " + m
            payload = got.split(":", 1)[1].split("\x1b\\")[0] if ":" in got else ""
            try:
                if base64.b64decode(payload) == open(FILES[d["fname"]], "rb").read():
                    return "ok native"
            except Exception:  # noqa: BLE001
                pass
            return "ok other"
        finally:
            image.close()

    # -- oracle ---------------------------------------------------------------------------
    def oracle(self, case: Case, impl_result: str):
        op = case.line.split(" ", 1)[0]
        d = case.data
        if op == "meth":
            if d["m"] == "anim" and (d["frame"] or NFRAMES[d["fname"]] == 1) and impl_result != "ok whole":
                return Failure(f"anim-fallback/frame={b(d['frame'])}/animated={b(NFRAMES[d['fname']] > 1)}",
                               "an iterm2 native-animation request that cannot be native (frame of an iteration, or a "
                               f"still image) is not rendered as the WHOLE method renders it ({d['fname']}, width {d['w']})")
            return None
        obs = self.obs.get(id(case))
        if obs is None or obs.skip:
            return None
        if op == "urls":
            return Failure("url-copies/" + obs.note.split(":")[0], obs.note) if obs.note else None
        where = self.where(d, op)
        if not obs.frames_ok:
            return Failure(f"frames/{where}", obs.note)
        if obs.fd_delta > 0 or obs.live:
            return Failure(f"fd-leak/{where}", f"{obs.fd_delta} descriptor(s) above the baseline, live handles {obs.live} "
                           "after the operation ended and every closed/abandoned object was dropped")
        if obs.unclosed_fail:
            return Failure(f"unclosed-on-failure/{where}", f"{obs.unclosed_fail}: opened by the library for this call and "
                           "still open after the call raised RenderError (checked while the exception is held, "
                           "so that the garbage collector cannot close it)")
        if obs.unclosed:
            return Failure(f"unclosed-open/{where}", f"image(s) {obs.unclosed} opened by the library from a multi-frame file "
                           "were never closed: the file was still open when the operation returned / when the object "
                           "was reclaimed by the garbage collector")
        if obs.fd_delta_after_drop > 0:
            return Failure(f"fd-leak-final/{where}", f"{obs.fd_delta_after_drop} descriptor(s) above the baseline at the end")
        if not obs.source_ok:
            return Failure(f"source-closed/{where}", obs.note)
        if not obs.size_ok:
            return Failure(f"size-changed/{where}", obs.note or "size setting altered by rendering")
        if not obs.temp_ok:
            return Failure(f"temp/{where}", obs.note)
        return None

    @staticmethod
    def where(d, op):
        if op == "iter":
            return f"iter/{d['style']}/{d['spec']}/{d['src']}"
        if op in ("ictor", "bctor"):
            return op
        k = d["op"]
        if k in ("file", "url"):
            return f"{k}/{d.get('http', '')}/init_ok={b(d['init_ok'])}/fault={d['fault']}"
        return (f"{k}/{d['style']}/{d['method']}/{d['src']}/{d.get('ending', '')}/"
                f"fault={'y' if d['fault'] is not None else 'n'}")

    # -- targeted search ------------------------------------------------------------------
    def search(self, rng, tier, reasons):
        out = []
        deadline = time.time() + 60      # the search is a diagnosis aid: bounded wall time

        def late():
            return time.time() > deadline

        # every fault index of a handful of paths per operation kind, then the decision functions
        for opkind in ("fmt", "iter", "draw", "nf", "file", "url", "drawstill"):
            for _ in range(6):
                if late():
                    return out
                c0 = self.gen_res(rng, fault=None, opkind=opkind)
                if c0 is None:
                    continue
                for k in [None] + list(range(0, 40)):
                    if late():
                        return out
                    d = dict(c0.data)
                    c = self.res_case(d, None, k)
                    if c is None or (k is not None and c.data["fault"] is None):
                        break
                    f = self.oracle(c, self.impl(c))
                    if f:
                        f.case = c
                        out.append(f)
                        break
        for m in ("anim",):
            for fname, w in (("a.gif", 3), ("a.gif", 12), ("s_rgb.png", 3)):
                for fr in (True, False):
                    c = Case(f"meth {m} {b(NFRAMES[fname] > 1)} {b(fr)}", dict(m=m, fname=fname, frame=fr, w=w), "meth")
                    f = self.oracle(c, self.impl(c))
                    if f:
                        f.case = c
                        out.append(f)
        for _ in range(60):
            if late():
                break
            c = self.gen_iter(rng)
            f = self.oracle(c, self.impl(c))
            if f:
                f.case = c
                out.append(f)
        return out

    def extra_checks(self, rng, tier, ev):
        out = []
        if tier == "thorough":
            # every fault index of every operation kind on a sample of paths (direct oracle sweep)
            n = 0
            for opkind in ("fmt", "drawstill", "iter", "draw", "nf", "file", "url"):
                for _ in range(4):
                    c0 = self.gen_res(rng, fault=None, opkind=opkind)
                    if c0 is None:
                        continue
                    for k in range(0, 40):
                        c = self.res_case(dict(c0.data), None, k)
                        if c is None or c.data["fault"] is None:
                            break
                        n += 1
                        f = self.oracle(c, self.impl(c))
                        if f:
                            f.case = c
                            out.append(f)
            ev["coverage"]["exhaustive_fault_sweep_runs"] = n
        # usage error, oracle only (not modelled): `next()` after `image.close()` fails — whatever it raises, the
        # iterator must have let go of the file once the call has returned and the iterator is closed
        for style in CLS:
            R.quiesce()
            base = R.fd_count()
            image, _ = make_image(style, "a.gif", "file")
            it = ImageIterator(image, 2, "", False)
            next(it)
            image.close()
            err = None
            try:
                next(it)
            except StopIteration:
                pass
            except Exception as e:  # noqa: BLE001
                err = e
            it.close()
            d = fd_settle(base)
            if d > 0:
                out.append(Failure(f"fd-leak/next-after-image-close/{style}",
                                   f"{d} descriptor(s) still open after next() failed on a closed image and the iterator "
                                   "was closed (iterator and exception still referenced)"))
            err = it = image = None
        left = [x for x in os.listdir(common._TEMP_DIR)]
        if left:
            out.append(Failure("temp/left-at-end", f"temporary files left in the library's temp dir: {left[:5]}"))
        return out


if __name__ == "__main__":
    fw.main(C11)
