#!/venv/bin/python
"""C10 — render data is finalized exactly once and never used afterwards (DESIGN.md §5 C10).

Correspondence: a history of operations on one instrumented renderable and its iterators, each
operation under a fault plan, is run (a) through the Lean model (`drv_c10 hist …`) and (b) against
the real code; the per-operation outcome, the event log (create / render+finalized flag /
`_finalize_render_data_` call + who caused it) and the `_closed` flags of all iterators are
compared exactly.  Data objects are identified by creation index; the harness holds no strong
reference to library-owned data.
"""
from __future__ import annotations

import gc
import io
import os
import random
import sys
import weakref

sys.path.insert(0, os.path.dirname(os.path.abspath(__file__)))
from common import framework as fw  # noqa: E402
from common.framework import Case, Failure, Property  # noqa: E402

fw.setup_import_path()

import term_image  # noqa: E402,F401
import term_image.render._iterator as RI  # noqa: E402
import term_image.renderable._renderable as RR  # noqa: E402
import term_image.renderable._types as RT  # noqa: E402
from term_image.geometry import Size  # noqa: E402
from term_image.padding import AlignedPadding, ExactPadding  # noqa: E402
from term_image.render import RenderIterator  # noqa: E402
from term_image.renderable import Frame, FrameCount, Renderable, RenderArgs, RenderData, Seek  # noqa: E402

TERM_SIZE = os.terminal_size((80, 30))
RR.get_terminal_size = lambda: TERM_SIZE
RI.get_terminal_size = lambda: TERM_SIZE
RR.sleep = lambda *_: None


class Boom(Exception):
    pass


class BaseBoom(BaseException):
    pass


def _mk(cls):
    def make(msg):
        if cls is UnicodeDecodeError:
            return cls("utf-8", b"\xff", 0, 1, msg)
        return cls(msg)
    make.cls = cls
    return make


# the classes the fault injector ranges over: the library's own distinctions (StopIteration,
# AttributeError, Exception vs BaseException, KeyboardInterrupt) and whatever third-party code may raise
EXC = {n: _mk(c) for n, c in {
    "Boom": Boom, "StopIteration": StopIteration, "KeyboardInterrupt": KeyboardInterrupt,
    "AttributeError": AttributeError, "ValueError": ValueError, "UnicodeDecodeError": UnicodeDecodeError,
    "TypeError": TypeError, "KeyError": KeyError, "RuntimeError": RuntimeError, "OSError": OSError,
    "GeneratorExit": GeneratorExit, "BaseBoom": BaseBoom}.items()}
GENERIC_EXC = ["Boom", "ValueError", "UnicodeDecodeError", "TypeError", "KeyError", "RuntimeError", "OSError",
               "KeyboardInterrupt", "GeneratorExit", "BaseBoom"]


# ------------------------------------------------------------------------------------------
# instrumentation (all from the outside)


class Rec:
    """Event log of one history."""

    def __init__(self):
        self.events = []  # of the current op
        self.ids = {}  # id(data) -> creation index (live objects only matter)
        self.n_objs = 0
        self.by = "l"  # who causes a finalize call right now
        self.in_del = 0
        self.iters = []  # weakrefs of all successfully constructed iterators, in order
        self.render_fault = None  # [k, exc class]
        self.resolve_fault = None
        self.fin_fault = None
        self.n_fin = 0
        self.cb = None
        self.n_resolve = 0
        self.n_render = 0
        self.totals = {}  # idx -> [finCalls, libFin, viaDel, renders, usedAfter]

    def tot(self, i):
        return self.totals.setdefault(i, [0, 0, 0, 0, 0])


REC: Rec | None = None

_orig_del = RenderData.__del__


def _del(self):
    r = REC
    if r is not None:
        r.in_del += 1
    try:
        _orig_del(self)
    finally:
        if r is not None:
            r.in_del -= 1


RenderData.__del__ = _del

_orig_resolve = AlignedPadding.resolve


def _resolve(self, terminal_size):
    r = REC
    if r is not None and self.relative:
        k = r.n_resolve
        r.n_resolve += 1
        if r.resolve_fault and r.resolve_fault[0] == k:
            raise r.resolve_fault[1]("injected")
    return _orig_resolve(self, terminal_size)


AlignedPadding.resolve = _resolve

_orig_from = RenderIterator._from_render_data_.__func__
_orig_init = RenderIterator.__init__


def _from(cls, *a, **k):
    new = _orig_from(cls, *a, **k)
    if REC is not None:
        REC.iters.append(weakref.ref(new))
    return new


def _init(self, *a, **k):
    _orig_init(self, *a, **k)
    if REC is not None:
        REC.iters.append(weakref.ref(self))


RenderIterator._from_render_data_ = classmethod(_from)
RenderIterator.__init__ = _init


class R(Renderable):
    def __init__(self, fc):
        super().__init__(FrameCount.INDEFINITE if fc == 0 else fc, 1)
        self.size = Size(2, 2)
        self.live = []

    def _get_render_size_(self):
        return self.size

    def styled_render(self, iteration, finalize, check_size, allow_scroll, padding):
        """a render operation of this subclass, built on the extension point `_init_render_`"""
        return self._init_render_(self._render_, None, padding, iteration=iteration, finalize=finalize,
                                  check_size=check_size, allow_scroll=allow_scroll)

    def _get_render_data_(self, *, iteration):
        d = super()._get_render_data_(iteration=iteration)
        # a reference to every RenderData handed out, kept until the running operation has returned or
        # raised: whatever is finalized before that was finalized by code, not by `RenderData.__del__`
        self.live.append(d)
        r = REC
        r.ids[id(d)] = r.n_objs
        r.events.append(f"c{r.n_objs}")
        r.n_objs += 1
        return d

    @classmethod
    def _finalize_render_data_(cls, render_data):
        r = REC
        i = r.ids.get(id(render_data), -1)
        by = "d" if r.in_del else r.by
        r.events.append(f"f{i}:{by}")
        t = r.tot(i)
        t[0] += 1
        t[1] += by == "l"
        t[2] += by == "d"
        k = r.n_fin
        r.n_fin += 1
        if r.fin_fault and r.fin_fault[0] == k:
            raise r.fin_fault[1]("injected")  # the finalizer itself fails (after having run)
        super()._finalize_render_data_(render_data)

    def _render_(self, render_data, render_args):
        r = REC
        i = r.ids.get(id(render_data), -1)
        fin = bool(render_data.finalized)
        r.events.append(f"r{i}:{int(fin)}")
        t = r.tot(i)
        t[3] += 1
        t[4] += fin
        k = r.n_render
        r.n_render += 1
        if r.render_fault and r.render_fault[0] == k:
            raise r.render_fault[1]("injected")
        if r.cb:
            # re-entrancy: from inside the frame render, back into the iterator that is rendering
            (it, spec), r.cb = r.cb, None
            try:
                if spec[0] == "close":
                    it.close()
                elif spec[0] == "next":
                    next(it)
                else:
                    it.seek(int(spec[2]), SEEKS[spec[1]])
                r.events.append("cb:ok")
            except BaseException as e:  # noqa: BLE001
                r.events.append("cb:" + type(e).__name__)
                e = None
            fin2 = bool(render_data.finalized)  # ... and the render goes on with this data
            r.events.append(f"e{i}:{int(fin2)}")
            t[4] += fin2
        d = render_data[Renderable]
        w, h = d.size
        return Frame(d.frame_offset if self.frame_count != FrameCount.INDEFINITE else 0, 1, d.size,
                     "\n".join(["x" * w] * h))


class Out(io.StringIO):
    """a non-tty stdout whose k-th write() may raise"""

    def __init__(self, fault=None, cfault=None):
        super().__init__()
        self.fault = fault
        self.cfault = cfault  # the write("\n") of draw's own clean-up
        self.n = 0
        self.nc = 0

    def isatty(self):
        return False

    def write(self, s):
        if s == "\n":  # only draw()'s `finally` writes a bare newline
            k = self.nc
            self.nc += 1
            if self.cfault and self.cfault[0] == k:
                raise self.cfault[1]("injected")
            return 1
        k = self.n
        self.n += 1
        if self.fault and self.fault[0] == k:
            raise self.fault[1]("injected")
        return len(s)


SEEKS = {"start": Seek.START, "current": Seek.CURRENT, "end": Seek.END}


def cache_arg(c):
    return False if c == "off" else True if c == "on" else int(c[5:])


class History:
    """Runs ops against the real code."""

    def __init__(self, fc):
        global REC
        self.rec = REC = Rec()
        self.fc = fc
        self.r = R(fc)
        self.held = {}  # data idx -> RenderData (the *caller's* references)
        self.owner = {}  # idx -> 'l' | 'c'
        self.it = {}  # iterator idx -> RenderIterator (the caller's references)
        self.dropped = set()
        self.bumps = 0

    # what the model's `valid` says, computed from the real objects
    def attached(self, data):
        for ref in self.rec.iters:
            it = ref()
            if it is not None and getattr(it, "_render_data", None) is data:
                return True
        return False

    def valid(self, op):
        n = op[0]
        if n in ("next", "close", "seek", "bump", "dropIter", "set", "nextCb"):
            i = int(op[1])
            return i < len(self.rec.iters) and i in self.it
        if n == "fromData":
            d = int(op[1])
            return d in self.held and not self.attached(self.held[d])
        if n == "cfin":
            d = int(op[1])
            return d in self.held and not self.attached(self.held[d]) and self.owner[d] == "c"
        if n == "cdrop":
            return int(op[1]) in self.held
        return True

    def _do(self, op, out):
        n = op[0]
        r = self.r
        if n == "render":
            r.render()
        elif n == "str":
            str(r)
        elif n == "initRender":
            it, fin, cs, asc, rp = (x == "1" for x in op[1:6])
            r.styled_render(it, fin, cs, asc, AlignedPadding(0, -2) if rp else ExactPadding())
        elif n == "handover":
            # data and iterator die in the same collection; the order of their finalizers is forced by the
            # generations the two objects are in when it runs
            fin, args, k, data_first = op[1] == "1", op[2], int(op[3]), op[4] == "1"
            idx = self.rec.n_objs
            data = r._get_render_data_(iteration=True)
            r.live.clear()
            self.owner[idx] = "c"
            if not data_first:
                gc.collect(0)
            ra = {"none": None, "own": RenderArgs(R), "ancestor": RenderArgs(Renderable)}[args]
            it = RenderIterator._from_render_data_(r, data, ra, finalize=fin)
            if fin:
                self.owner[idx] = "l"
            for _ in range(k):
                next(it)
        elif n == "animate":
            # a caller that made the data itself calls `_animate_` (as draw() does), looks at the data
            # afterwards and finalizes it
            idx = self.rec.n_objs
            data = r._get_render_data_(iteration=True)
            r.live.clear()
            self.owner[idx] = "c"
            try:
                r._animate_(data, RenderArgs(R), ExactPadding(), int(op[1]), cache_arg(op[2]), sys.stdout)
            finally:
                self.rec.by = "c"
                data.finalize()
                self.rec.by = "l"
        elif n == "draw":
            animate, cs, loops, cache = op[1] == "1", op[2] == "1", int(op[3]), cache_arg(op[4])
            r.draw(animate=animate, check_size=cs, loops=loops, cache=cache)
        elif n == "iterNew":
            it = RenderIterator(r, loops=int(op[1]), cache=cache_arg(op[2]))
            self.it[len(self.rec.iters) - 1] = it
        elif n == "mkData":
            d = r._get_render_data_(iteration=op[1] == "1")
            i = self.rec.n_objs - 1
            self.held[i] = d
            self.owner[i] = "c"
        elif n == "fromData":
            d, fin = int(op[1]), op[2] == "1"
            args = {"none": None, "own": RenderArgs(R), "ancestor": RenderArgs(Renderable)}[op[5]]
            it = RenderIterator._from_render_data_(
                r, self.held[d], args, loops=int(op[3]), cache=cache_arg(op[4]), finalize=fin)
            self.it[len(self.rec.iters) - 1] = it
            if fin:
                self.owner[d] = "l"
        elif n == "next":
            next(self.it[int(op[1])])
        elif n == "close":
            self.it[int(op[1])].close()
        elif n == "seek":
            self.it[int(op[1])].seek(int(op[3]), SEEKS[op[2]])
        elif n == "set":
            it, kind, fresh = self.it[int(op[1])], op[2], op[3] == "1"
            if fresh:
                self.bumps += 1
            if kind == "size":
                it.set_render_size(Size(2 + self.bumps, 2) if fresh else it._renderable_data.size)
            elif kind == "duration":
                it.set_frame_duration(1 + self.bumps if fresh else it._renderable_data.duration)
            elif kind == "padding":
                it.set_padding(ExactPadding(1 + self.bumps % 3) if fresh else it._padding)
            else:
                it.set_render_args(RenderArgs(R) if fresh else it._render_args)
        elif n == "nextCb":
            it = self.it[int(op[1])]
            self.rec.cb = (it, op[2:])  # the next `_render_` calls back into the iterator
            next(it)
        elif n == "bump":
            self.bumps += 1
            self.it[int(op[1])].set_render_size(Size(2 + self.bumps, 2))
        elif n == "dropIter":
            del self.it[int(op[1])]  # __del__ -> close()
        elif n == "cfin":
            self.rec.by = "c"
            self.held[int(op[1])].finalize()
        elif n == "cdrop":
            del self.held[int(op[1])]
        else:
            raise ValueError(op)

    def step(self, op, fault):
        """-> '<outcome>/<events>/<closed mask>'"""
        rec = self.rec
        if not self.valid(op):
            return "skip//" + self.mask()
        rec.events = []
        rec.n_render = 0
        rec.render_fault = None
        rec.resolve_fault = None
        rec.n_resolve = 0
        rec.fin_fault = None
        rec.n_fin = 0
        rec.cb = None
        rec.by = "l"
        wfault = cwfault = None
        self.r.size = Size(2, 2)
        if fault:
            tgt, k, exc = fault
            if tgt == "render":
                rec.render_fault = [k, EXC[exc]]
            elif tgt == "write":
                wfault = [k, EXC[exc]]
            elif tgt == "cwrite":
                cwfault = [k, EXC[exc]]
            elif tgt == "finhook":
                rec.fin_fault = [k, EXC[exc]]
            elif tgt == "resolve":
                rec.resolve_fault = [k, EXC[exc]]
            elif tgt == "validate":
                # the real validation fails: k = 0 wider than the terminal (first comparison),
                # k = 1 taller (second comparison, made only when scrolling is not allowed)
                self.r.size = Size(200, 2) if k == 0 else Size(2, 200)
        n_before = rec.n_objs
        out = Out(wfault, cwfault)
        so = sys.stdout
        sys.stdout = out
        outcome = "ok"
        try:
            try:
                self._do(op, out)
            except BaseException as e:  # noqa: BLE001
                outcome = "err " + type(e).__name__
                e = None
        finally:
            sys.stdout = so
        self.r.size = Size(2, 2)
        rec.by = "l"
        if op[0] == "initRender" and op[2] == "0" and rec.n_objs > n_before:
            self.owner[n_before] = "c"  # finalize=False: the data stays the subclass operation's
        sys.last_exc = sys.last_value = sys.last_traceback = None
        rec.cb = None
        self.r.live.clear()  # from here on `RenderData.__del__` may run
        gc.collect()
        evs = [e for e in rec.events if not e.endswith(":d")] + sorted(
            (e for e in rec.events if e.endswith(":d")), key=lambda s: int(s[1:-2]))
        return f"{outcome}/{','.join(evs)}/{self.mask()}"

    def mask(self):
        s = ""
        for ref in self.rec.iters:
            it = ref()
            s += "1" if it is None or it._closed else "0"
        return s

    def summary(self):
        out = []
        for i in range(self.rec.n_objs):
            t = self.rec.tot(i)
            out.append(f"o{i}:{self.owner.get(i, 'l')}:{t[0]}:{t[1]}:{t[2]}:{t[3]}:{t[4]}")
        return " ".join(out)

    def finish(self):
        global REC
        self.it.clear()
        self.held.clear()
        self.r.live.clear()
        gc.collect()
        REC = None
        # whatever survives a history (the generated cases, results) must not be rescanned by the
        # per-operation gc.collect() of the following ones
        gc.freeze()


sys.unraisablehook = lambda *a: None  # a finalizer that raises inside a `__del__` is ignored by CPython

gc.disable()  # collections happen exactly where the harness asks for them (finalizer order is then reproducible)
gc.collect()
gc.freeze()  # keeps the per-operation gc.collect() cheap: only objects made from here on are scanned


def del_calls_finalize():
    """read off the source of `RenderData.__del__`: its only call is `self.finalize()`"""
    import ast
    import inspect
    import textwrap
    tree = ast.parse(textwrap.dedent(inspect.getsource(_orig_del)))
    calls = [n for n in ast.walk(tree) if isinstance(n, ast.Call)]
    return len(calls) == 1 and ast.unparse(calls[0]) == "self.finalize()"


def exc_class(name):
    from term_image.renderable import RenderSizeOutofRangeError
    return {**{n: f.cls for n, f in EXC.items()}, "RenderSizeOutofRangeError": RenderSizeOutofRangeError,
            "StopDefiniteIterationError": RI.StopDefiniteIterationError,
            "FinalizedIteratorError": RI.FinalizedIteratorError}[name]


def real_finseq(calls):
    """`RenderData.finalize()` n times on one object; calls = [[by, raises?], …] (driver op `finseq`)"""
    h = History(2)
    try:
        data = h.r._get_render_data_(iteration=True)
        h.r.live.clear()
        outs = []
        for by, raises in calls:
            h.rec.n_fin = 0
            h.rec.fin_fault = [0, EXC["Boom"]] if raises else None
            try:
                data.finalize()
                outs.append("ok")
            except Boom:
                outs.append("err Boom")
        n = h.rec.tot(0)[0]
        return "ok " + "|".join(outs) + f" # {n} {int(bool(data.finalized))}"
    finally:
        h.rec.fin_fault = None
        h.finish()


def real_iterparams(fc, loops, cache):
    """what `RenderIterator._init` derives from its arguments (driver op `iterparams`)"""
    h = History(fc)
    try:
        try:
            it = RenderIterator(h.r, loops=loops, cache=cache_arg(cache))
        except ValueError:
            return "err ValueError"
        res = (f"ok {'inf' if it._loops < 0 else it._loops} {int(bool(it._cached))} "
               f"{int(it._loops < 0 or h.r.frame_count is FrameCount.INDEFINITE)}")
        it.close()
        return res
    finally:
        h.finish()


def parse_hist(data):
    """data = {'fc': n, 'ops': [[op tokens…, fault or None], …]}"""
    return data["fc"], [(o["op"], tuple(o["fault"]) if o["fault"] else None) for o in data["ops"]]


def hist_line(fc, ops):
    parts = [f"hist {fc} {len(ops)}"]
    for op, fault in ops:
        parts.append(" ".join(op))
        parts.append("nofault" if not fault else f"fault {fault[0]} {fault[1]} {fault[2]}")
    return " ".join(parts)


def run_real(fc, ops):
    h = History(fc)
    try:
        outs = [h.step(list(op), fault) for op, fault in ops]
        return outs, h.summary()
    finally:
        h.finish()



# ------------------------------------------------------------------------------------------
# generators

RENDER_EXC = ["Boom", "StopIteration", "KeyboardInterrupt", "AttributeError", "ValueError"]  # full cross product
WRITE_EXC = ["Boom", "KeyboardInterrupt"]
ALL_RENDER_EXC = GENERIC_EXC + ["StopIteration", "AttributeError"]
ARGS_KINDS = ["none", "own", "ancestor"]
WHENCES = ["start", "current", "end"]
CTL_KINDS = ["size", "duration", "padding", "args"]
CB_KINDS = [("close",), ("next",), ("seek", "start", "0"), ("seek", "current", "-1"), ("seek", "end", "0"),
            ("seek", "current", "0")]
CACHES = ["off", "on", "upto 1", "upto 2", "upto 3", "upto 100", "upto 0"]


def mk_case(fc, ops, kind, nontrivial=True):
    data = {"fc": fc, "ops": [{"op": list(op), "fault": list(f) if f else None} for op, f in ops]}
    return Case(hist_line(fc, ops), data, kind, nontrivial)


def draw_terminates(fc, animate, loops, cache, fault):
    """an unbounded animation must be ended by its fault"""
    if not animate or fc == 1:
        return True
    if loops == 0 or (cache == "upto 0" and loops != 1):
        return True  # ValueError (`_animate_` passes cache=False when loops == 1)
    if not (fc == 0 or loops < 0):
        return True
    if fault is None:
        return False
    tgt, k, _ = fault
    if tgt == "write":
        return True
    if tgt in ("cwrite", "finhook"):
        return False  # the clean-up is reached only when the animation has ended
    if tgt in ("validate", "resolve"):
        return k == 0  # draw validates animations (both comparisons), but only k = 0 is certain to fire
    cached = fc != 0 and (cache == "on" or (cache.startswith("upto") and fc <= int(cache[5:])))
    return (not cached) or k < fc


def exhaustive(max_fc):
    """each operation that renders, with the fault at every k (and one beyond), every exception"""
    for fc in [0, 1, 2, 3, 4][: max_fc + 1]:
        faults = [None] + [("render", k, e) for k in range(0, 2 * max(fc, 1) + 2) for e in RENDER_EXC]
        wfaults = [("write", k, e) for k in range(0, 4 * max(fc, 1) + 4) for e in WRITE_EXC]
        vfault = [("validate", 0, "RenderSizeOutofRangeError"), ("validate", 1, "RenderSizeOutofRangeError"),
                  ("resolve", 0, "Boom"), ("cwrite", 0, "Boom"), ("cwrite", 0, "KeyboardInterrupt"),
                  ("finhook", 0, "Boom")]
        hook = ("finhook", 0, "Boom")
        for f in faults + [hook]:
            yield mk_case(fc, [(("render",), f)], "x-render")
            yield mk_case(fc, [(("str",), f), (("render",), None)], "x-str")
        # every exception class × every operation kind that renders, fault in the first and in the second render
        for e in ALL_RENDER_EXC:
            if e in RENDER_EXC:
                continue
            for k in (0, 1):
                f = ("render", k, e)
                yield mk_case(fc, [(("render",), f)], "x-exc-render")
                yield mk_case(fc, [(("str",), f)], "x-exc-render")
                yield mk_case(fc, [(("initRender", "0", "1", "1", "0", "1"), f)], "x-exc-render")
                for animate in ("0", "1"):
                    yield mk_case(fc, [(("draw", animate, "1", "2", "off", str(k + 3)), f)], "x-exc-draw")
                if fc != 1:
                    for pos in (0, 1):
                        ops = [(("iterNew", "2", "off"), None)] + [(("next", "0"), None)] * pos
                        ops += [(("next", "0"), f), (("seek", "0", "start", "0"), None), (("next", "0"), None),
                                (("bump", "0"), None), (("dropIter", "0"), None)]
                        yield mk_case(fc, ops, "x-exc-next")
        for e in GENERIC_EXC:
            yield mk_case(fc, [(("initRender", "0", "1", "1", "0", "1"), ("resolve", 0, e))], "x-exc-resolve")
            yield mk_case(fc, [(("draw", "1", "1", "1", "off", "0"), ("resolve", 0, e))], "x-exc-resolve")
            for k in (0, 1, 2):
                yield mk_case(fc, [(("draw", "1", "1", "1", "off", str(k + 3)), ("write", k, e))], "x-exc-write")
            yield mk_case(fc, [(("draw", "0", "1", "1", "off", "0"), ("cwrite", 0, e))], "x-exc-write")
        # data and iterator dropped together, both finalizer orders
        for fin in ("0", "1"):
            for args in ARGS_KINDS:
                for order in ("0", "1"):
                    for n in range(0, max(fc, 1) + 2):
                        fl = [None] + ([("render", n - 1, e) for e in ("Boom", "ValueError", "KeyboardInterrupt")]
                                       if n else [])
                        for f in fl:
                            yield mk_case(fc, [(("handover", fin, args, str(n), order), f), (("render",), None)],
                                          "x-handover")
        if fc != 1:
            n1 = max(fc, 1)
            # control operations on a finalized iterator, however it was finalized, every argument shape
            ctl_ops = [("seek", "0", wh, off) for wh in WHENCES for off in ("0", "1", "-1")] \
                + [("set", "0", k, fr) for k in CTL_KINDS for fr in ("0", "1")] + [("bump", "0")] \
                + [("nextCb", "0") + cb for cb in CB_KINDS[:3]]
            for how in ("exhausted", "closed", "closed-fresh", "failed", "interrupted"):
                pre = [(("iterNew", "1", "on"), None)]
                if how == "exhausted":
                    pre += [(("next", "0"), None)] * n1 + [(("next", "0"), ("render", 0, "StopIteration") if fc == 0 else None)]
                elif how == "closed":
                    pre += [(("next", "0"), None), (("close", "0"), None)]
                elif how == "closed-fresh":
                    pre += [(("close", "0"), None)]
                elif how == "failed":
                    pre += [(("next", "0"), ("render", 0, "ValueError"))]
                else:
                    pre += [(("next", "0"), ("render", 0, "KeyboardInterrupt")), (("next", "0"), None)]
                for c in ctl_ops:
                    yield mk_case(fc, pre + [(c, None), (("next", "0"), None), (("dropIter", "0"), None)],
                                  "x-closed-ops")
            # seek with every whence and offset on an open iterator (cache on: which frames get re-rendered shows
            # where the seek went), and re-entrant calls from inside a frame render
            for pos in range(0, n1 + 1):
                pre = [(("iterNew", "2", "on"), None)] + [(("next", "0"), None)] * pos
                for wh in WHENCES:
                    for off in range(-n1 - 1, n1 + 2):
                        yield mk_case(fc, pre + [(("seek", "0", wh, str(off)), None), (("next", "0"), None),
                                                 (("next", "0"), None), (("dropIter", "0"), None)], "x-seek")
                for k in CTL_KINDS:
                    for fr in ("0", "1"):
                        yield mk_case(fc, pre + [(("set", "0", k, fr), None), (("next", "0"), None),
                                                 (("next", "0"), None), (("dropIter", "0"), None)], "x-set")
            for cache in ("off", "on"):
                for pos in range(0, n1 + 1):
                    for cb in CB_KINDS:
                        for own in ("lib", "fin1", "fin0"):
                            pre = [(("iterNew", "2", cache), None)] if own == "lib" else \
                                [(("mkData", "1"), None), (("fromData", "0", "1" if own == "fin1" else "0", "2", cache, "own"), None)]
                            ops = pre + [(("next", "0"), None)] * pos + [
                                (("nextCb", "0") + cb, None), (("next", "0"), None), (("seek", "0", "current", "0"), None),
                                (("close", "0"), None), (("dropIter", "0"), None)]
                            if own != "lib":
                                ops.append((("cdrop", "0"), None))
                            yield mk_case(fc, ops, "x-reentrant")
        # `_animate_` called directly on the caller's own data: it must come back un-finalized
        afaults = [None] + [("render", k, e) for k in range(0, max(fc, 1) + 2)
                            for e in ("Boom", "StopIteration", "KeyboardInterrupt", "ValueError", "GeneratorExit")] \
            + [("write", k, e) for k in range(0, 5) for e in ("Boom", "KeyboardInterrupt")]
        for loops in (1, 2, -1, 0):
            for cache in ("off", "on"):
                for f in afaults:
                    if not draw_terminates(fc, True, loops, cache, f):
                        continue
                    yield mk_case(fc, [(("animate", str(loops), cache, str(f[1] + 3 if f else 0)), f),
                                       (("render",), None)], "x-animate")
        # a finalizer that raises: in every operation that finalizes, then a second finalize from someone else
        yield mk_case(fc, [(("mkData", "1"), None), (("cfin", "0"), hook), (("cfin", "0"), None), (("cdrop", "0"), None)],
                      "x-finhook")
        yield mk_case(fc, [(("mkData", "1"), None), (("cdrop", "0"), hook)], "x-finhook")
        if fc != 1:
            for args in ARGS_KINDS:
                yield mk_case(fc, [(("mkData", "1"), None), (("fromData", "0", "1", "1", "off", args), None),
                                   (("next", "0"), None), (("close", "0"), hook), (("dropIter", "0"), None),
                                   (("cfin", "0"), None), (("cdrop", "0"), None)], "x-finhook")
            for end in ("close", "dropIter"):
                yield mk_case(fc, [(("iterNew", "1", "off"), None), (("next", "0"), None), ((end, "0"), hook)]
                              + ([(("dropIter", "0"), None)] if end == "close" else []), "x-finhook")
            if fc > 1:
                yield mk_case(fc, [(("iterNew", "1", "off"), None)] + [(("next", "0"), None)] * fc
                              + [(("next", "0"), hook), (("dropIter", "0"), None)], "x-finhook")
        if fc in (1, 3):
            # a subclass operation on `_init_render_`: all flag combinations × a fault at every place
            for bits in range(32):
                it, fin, cs, asc, rp = (str((bits >> j) & 1) for j in range(5))
                fl = [None, ("validate", 0, "RenderSizeOutofRangeError"), ("validate", 1, "RenderSizeOutofRangeError"),
                      ("resolve", 0, "Boom"), ("render", 1, "Boom"), ("finhook", 0, "Boom")] \
                    + [("render", 0, e) for e in RENDER_EXC]
                for f in fl:
                    yield mk_case(fc, [(("initRender", it, fin, cs, asc, rp), f), (("render",), None)],
                                  "x-initRender-" + (f[0] if f else "nofault"))
        for animate in ("0", "1"):
            for cs in ("0", "1"):
                for loops in (1, 2, -1):
                    for cache in ("off", "on"):
                        for f in faults + wfaults + vfault:
                            if not draw_terminates(fc, animate == "1", loops, cache, f):
                                continue
                            b = (f[1] + 3) if f else 0
                            op = ("draw", animate, cs, str(loops), cache, str(b))
                            yield mk_case(fc, [(op, f)], f"x-draw-{'anim' if animate == '1' and fc != 1 else 'still'}-"
                                          + (f[0] if f else "nofault"))
        if fc != 1:
            # `_from_render_data_` with every flavour of render args, on fresh data and on data that an
            # earlier owning iteration (exhausted / closed / failed) or the caller's finalize() has finalized
            n1 = max(fc, 1)
            for how in ("fresh", "exhausted", "closed", "failed", "cfin", "kept-open"):
                for args1 in ARGS_KINDS:
                    for args2 in ARGS_KINDS:
                        for fin2 in ("0", "1"):
                            ops = [(("mkData", "1"), None)]
                            if how in ("exhausted", "closed", "failed", "kept-open"):
                                ops.append((("fromData", "0", "1" if how != "kept-open" else "0", "1", "off", args1), None))
                                if how == "exhausted":
                                    ops += [(("next", "0"), None)] * n1
                                    ops.append((("next", "0"), ("render", 0, "StopIteration") if fc == 0 else None))
                                elif how == "closed":
                                    ops += [(("next", "0"), None), (("close", "0"), None)]
                                elif how == "failed":
                                    ops.append((("next", "0"), ("render", 0, "Boom")))
                                else:
                                    ops += [(("next", "0"), None), (("close", "0"), None)]  # caller keeps the data
                            elif how == "cfin":
                                ops.append((("cfin", "0"), None))
                            i2 = "0" if how in ("fresh", "cfin") else "1"
                            ops.append((("fromData", "0", fin2, "2", "off", args2), None))
                            ops += [(("next", i2), None), (("next", i2), None), (("seek", i2, "start", "0"), None),
                                    (("dropIter", i2), None), (("cdrop", "0"), None)]
                            if i2 == "1":
                                ops.append((("dropIter", "0"), None))
                            yield mk_case(fc, ops, f"x-fromData-{how}")
            # iterate to the end / close / drop at every position, fault at every render
            for loops in (1, 2):
                n = max(fc, 1) * loops
                for cache in ("off", "on"):
                    for f in faults:
                        for end in ("run", "close", "drop", "seek"):
                            for pos in range(0, n + 2):
                                ops = [(("iterNew", str(loops), cache), None)]
                                for j in range(pos):
                                    ops.append((("next", "0"), None))
                                ops.append((("next", "0"), f))
                                if end == "close":
                                    ops += [(("close", "0"), None), (("close", "0"), None)]
                                elif end == "drop":
                                    ops.append((("dropIter", "0"), None))
                                elif end == "seek":
                                    ops.append((("seek", "0", "start", "0"), None))
                                    ops.append((("bump", "0"), None))
                                ops += [(("next", "0"), None), (("seek", "0", "start", "1"), None)]
                                if end != "drop":
                                    ops.append((("dropIter", "0"), None))  # quiescence
                                yield mk_case(fc, ops, f"x-iter-{end}")


def random_history(rng):
    """a history grown against the live objects, so that most ids refer to something that exists"""
    fc = rng.choice([0, 1, 2, 2, 3, 3, 4])
    h = History(fc)
    ops = []
    try:
        for _ in range(rng.randrange(2, 16)):
            its, datas = sorted(h.it), sorted(h.held)
            menu = ["render", "str", "draw", "draw", "animate", "iterNew", "iterNew", "mkData", "initRender", "initRender",
                    "handover"]
            if its:
                menu += ["next"] * 8 + ["close", "seek", "seek", "bump", "dropIter", "set", "set", "nextCb", "nextCb"]
            if datas:
                menu += ["fromData"] * 3 + ["cfin", "cdrop"]
            if rng.random() < 0.05:
                menu = ["next", "close", "seek", "bump", "dropIter", "fromData", "cfin", "cdrop", "set", "nextCb"]
            kind = rng.choice(menu)
            fault = None
            ii = str(rng.choice(its) if its and rng.random() < 0.95 else rng.randrange(0, len(h.rec.iters) + 2))
            dd = str(rng.choice(datas) if datas and rng.random() < 0.95 else rng.randrange(0, h.rec.n_objs + 2))
            loops = rng.choice([1, 1, 2, 3, -1, 0])
            cache = rng.choice(CACHES)
            if kind in ("render", "str", "draw", "next") and rng.random() < 0.5:
                fault = ("render", rng.randrange(0, 2 * max(fc, 1) + 2) if kind == "draw" else rng.randrange(0, 2),
                         rng.choice(ALL_RENDER_EXC))
            if kind == "draw" and rng.random() < 0.3:
                fault = rng.choice([("validate", rng.randrange(2), "RenderSizeOutofRangeError"), ("resolve", 0, rng.choice(GENERIC_EXC)),
                                    ("write", rng.randrange(0, 9), rng.choice(GENERIC_EXC)),
                                    ("cwrite", 0, rng.choice(GENERIC_EXC))])
            if kind == "animate":
                fault = ("render", rng.randrange(0, max(fc, 1) + 2), rng.choice(ALL_RENDER_EXC)) \
                    if rng.random() < 0.6 else None
                if not draw_terminates(fc, True, loops, cache, fault):
                    fault = ("render", rng.randrange(0, max(fc, 1)), rng.choice(ALL_RENDER_EXC))
                op = ("animate", str(loops), cache, str(fault[1] + 3 if fault else 0))
            elif kind == "handover":
                k = rng.randrange(0, max(fc, 1) + 2)
                op = ("handover", str(rng.randrange(2)), rng.choice(ARGS_KINDS), str(k), str(rng.randrange(2)))
                fault = ("render", rng.randrange(0, k), rng.choice(ALL_RENDER_EXC)) if k and rng.random() < 0.4 else None
            elif kind == "initRender":
                op = ("initRender",) + tuple(str(rng.randrange(2)) for _ in range(5))
                fault = rng.choice([None, None, ("validate", rng.randrange(2), "RenderSizeOutofRangeError"),
                                    ("resolve", 0, rng.choice(GENERIC_EXC)), ("render", 0, rng.choice(ALL_RENDER_EXC))])
            elif kind in ("render", "str"):
                op = (kind,)
                if rng.random() < 0.1:
                    fault = ("finhook", 0, "Boom")
            elif kind == "draw":
                animate = rng.random() < 0.7
                if not draw_terminates(fc, animate, loops, cache, fault):
                    fault = ("render", rng.randrange(0, max(fc, 1)), rng.choice(ALL_RENDER_EXC))
                op = ("draw", str(int(animate)), str(rng.randrange(2)), str(loops), cache,
                      str(fault[1] + 3 if fault else 0))
            elif kind == "iterNew":
                op = ("iterNew", str(loops), cache)
            elif kind == "mkData":
                op = ("mkData", str(int(rng.random() < 0.85)))
            elif kind == "fromData":
                op = ("fromData", dd, str(rng.randrange(2)), str(loops), cache, rng.choice(ARGS_KINDS))
            elif kind == "seek":
                op = ("seek", ii, rng.choice(WHENCES), str(rng.randrange(-max(fc, 1) - 1, max(fc, 1) + 2)))
            elif kind == "set":
                op = ("set", ii, rng.choice(CTL_KINDS), str(rng.randrange(2)))
            elif kind == "nextCb":
                op = ("nextCb", ii) + rng.choice(CB_KINDS)
                fault = None
            elif kind in ("cfin", "cdrop"):
                op = (kind, dd)
                if rng.random() < 0.15:
                    fault = ("finhook", 0, "Boom")
            else:
                op = (kind, ii)
            ops.append((op, fault))
            h.step(list(op), fault)
        # quiescence: the caller lets go of everything
        for i in sorted(h.it):
            ops.append((("dropIter", str(i)), None))
        for d in sorted(h.held):
            ops.append((("cdrop", str(d)), None))
    finally:
        h.finish()
    return mk_case(fc, ops, "random")


class C10(Property):
    id = "C10"
    lean_props = ["TIV.C10.Props"]
    driver = "drv_c10"
    partial = ("CPython's reference counting / `__del__` timing (observed after the exception was dropped and "
               "gc.collect() ran); faults inside `_finalize_render_data_` itself")
    assumptions = [
        "a `RenderData` object becomes unreachable exactly when the caller's reference and every open "
        "iterator's `_render_data` are gone (model: `dropRefs`)",
        "the caller does not finalize, or hand to a second iterator, data that an open iterator is using",
    ]
    quick_cases = 31000
    thorough_cases = 150000

    def gen_constants(self):
        import inspect

        def dflt(fn, name):
            return inspect.signature(fn).parameters[name].default

        def lb(v):
            assert isinstance(v, bool), v
            return "true" if v else "false"

        from term_image.renderable import RenderSizeOutofRangeError
        classes = [("StopIteration", StopIteration), ("AttributeError", AttributeError), ("ValueError", ValueError),
                   ("RenderSizeOutofRangeError", RenderSizeOutofRangeError),
                   ("StopDefiniteIterationError", RI.StopDefiniteIterationError),
                   ("FinalizedIteratorError", RI.FinalizedIteratorError), ("Boom", Boom),
                   ("KeyboardInterrupt", KeyboardInterrupt), ("UnicodeDecodeError", UnicodeDecodeError),
                   ("TypeError", TypeError), ("KeyError", KeyError), ("RuntimeError", RuntimeError),
                   ("OSError", OSError), ("GeneratorExit", GeneratorExit), ("BaseBoom", BaseBoom)]
        table = ", ".join(f'("{n}", {lb(issubclass(c, Exception))})' for n, c in classes)
        ir, fr, dr, it = (Renderable._init_render_, _orig_from, Renderable.draw, _orig_init)
        slots = ", ".join(f'"{x}"' for x in RenderData.__slots__)
        del_is_finalize = del_calls_finalize()
        body = (
            "/-! GENERATED by harness/c10.py from the imported package — do not edit -/\n"
            "namespace TIV.C10.Generated\n"
            f"def initRenderFinalizeDefault : Bool := {lb(dflt(ir, 'finalize'))}\n"
            f"def initRenderIterationDefault : Bool := {lb(dflt(ir, 'iteration'))}\n"
            f"def initRenderCheckSizeDefault : Bool := {lb(dflt(ir, 'check_size'))}\n"
            f"def initRenderAllowScrollDefault : Bool := {lb(dflt(ir, 'allow_scroll'))}\n"
            f"def fromRenderDataFinalizeDefault : Bool := {lb(dflt(fr, 'finalize'))}\n"
            f"def drawAnimateDefault : Bool := {lb(dflt(dr, 'animate'))}\n"
            f"def drawCheckSizeDefault : Bool := {lb(dflt(dr, 'check_size'))}\n"
            f"def drawLoopsDefault : Int := {int(dflt(dr, 'loops'))}\n"
            f"def drawCacheDefault : Nat := {int(dflt(dr, 'cache'))}\n"
            f"def iterLoopsDefault : Int := {int(dflt(it, 'loops'))}\n"
            f"def iterCacheDefault : Nat := {int(dflt(it, 'cache'))}\n"
            f"def dataDelCallsFinalize : Bool := {lb(del_is_finalize)}\n"
            f"def renderDataSlots : List String := [{slots}]\n"
            f"def exceptionTable : List (String × Bool) := [{table}]\n"
            "end TIV.C10.Generated\n"
        )
        return {"TIV/C10/Generated.lean": body}

    def generate(self, rng: random.Random, tier: str):
        # exhaustive part: every single operation kind × every fault position, ≤ 3 frames
        for case in exhaustive(3 if tier == "quick" else 4):
            yield case
        # the finer model functions: `_init`'s derived parameters, the `except Exception` table
        for fc in (0, 1, 2, 3, 5):
            for loops in (-2, -1, 0, 1, 2, 7):
                for cache in CACHES + ["upto 4", "upto 5", "upto 6"]:
                    yield Case(f"iterparams {fc} {loops} {cache}", {"fc": fc, "loops": loops, "cache": cache},
                               "x-iterparams", True)
        # every raise pattern of up to 4 finalize() calls on one object
        for n in range(1, 5):
            for bits in range(2 ** n):
                calls = [["lcd"[j % 3], bool((bits >> j) & 1)] for j in range(n)]
                line = f"finseq {n} " + " ".join(
                    f"{b} " + ("fault finhook 0 Boom" if r else "nofault") for b, r in calls)
                yield Case(line, {"calls": calls}, "x-finseq", True)
        for name in ("StopIteration", "AttributeError", "ValueError", "RenderSizeOutofRangeError",
                     "StopDefiniteIterationError", "FinalizedIteratorError", "Boom", "KeyboardInterrupt",
                     "UnicodeDecodeError", "TypeError", "KeyError", "RuntimeError", "OSError", "GeneratorExit",
                     "BaseBoom"):
            yield Case(f"isexc {name}", {"name": name}, "x-isexc", True)
        while True:
            yield random_history(rng)

    _frozen = False

    def impl(self, case: Case) -> str:
        if not C10._frozen:  # the generated case list itself must not be rescanned by every gc.collect()
            C10._frozen = True
            gc.collect()
            gc.freeze()
        op = case.line.split(" ", 1)[0]
        if op == "iterparams":
            return real_iterparams(**case.data)
        if op == "finseq":
            return real_finseq(case.data["calls"])
        if op == "isexc":
            return "ok " + str(int(issubclass(exc_class(case.data["name"]), Exception)))
        fc, ops = parse_hist(case.data)
        outs, summ = run_real(fc, ops)
        return "ok " + "|".join(outs) + " # " + summ


EXCEPTION_NAMES = {"StopIteration", "AttributeError", "ValueError", "RenderSizeOutofRangeError",
                   "StopDefiniteIterationError", "FinalizedIteratorError", "Boom", "UnicodeDecodeError", "TypeError",
                   "KeyError", "RuntimeError", "OSError"}


def check_log(fc, ops, outs):
    """The property, stated directly on the real code's event log (no model involved).
    ops: [(op tuple, fault)], outs: ['<outcome>/<events>/<closed mask>'] -> Failure | None"""
    fin = {}  # data idx -> number of _finalize_render_data_ calls
    owner = {}
    closed_prev = ""
    held, its_open = set(), set()
    for n, ((op, fault), out) in enumerate(zip(ops, outs)):
        outcome, evs, mask = out.split("/")
        where = f"{op[0]}/fc={fc}/" + ("nofault" if not fault else f"{fault[0]}@{fault[1]}:{fault[2]}")
        # a finalizer that raises inside close() aborts it (outside the property's fault sequences):
        # only the once-only and promptness clauses are judged for such an operation
        hook_fault = bool(fault) and fault[0] == "finhook"
        for e in filter(None, evs.split(",")):
            if e.startswith("cb:"):
                continue
            kind, rest = e[0], e[1:]
            if kind == "c":
                owner[int(rest)] = "c" if op[0] in ("mkData", "animate") or (op[0] == "initRender" and op[2] == "0") \
                    or (op[0] == "handover" and op[1] == "0") else "l"
                fin[int(rest)] = 0
            elif kind == "r":
                d, flag = rest.split(":")
                if flag == "1":
                    return Failure(f"use-after-finalize/{where}", f"op #{n}: _render_ got finalized data (object {d})")
            elif kind == "f":
                d, by = rest.split(":")
                d = int(d)
                fin[d] = fin.get(d, 0) + 1
                if fin[d] > 1:
                    return Failure(f"double-finalize/{where}", f"op #{n}: object {d} finalized a second time")
                if owner.get(d) == "c" and by == "l":
                    return Failure(f"caller-data-finalized/{where}",
                                   f"op #{n}: library code finalized object {d} handed in with finalize=False")
        if op[0] == "fromData" and outcome == "ok" and op[2] == "1":
            owner[int(op[1])] = "l"
        if outcome != "skip":
            if op[0] == "mkData":
                held.add(len(owner) - 1)
            if op[0] == "cdrop":
                held.discard(int(op[1]))
            # closed for ever
            for i, c in enumerate(closed_prev):
                if c == "1" and mask[i] != "1":
                    return Failure(f"reopened/{where}", f"op #{n}: iterator {i} was closed and is open again")
            for e in filter(None, evs.split(",")):
                if e[0] == "e" and e.endswith(":1"):
                    return Failure(f"use-after-finalize/{where}/cb={'-'.join(op[2:])}",
                                   f"op #{n}: the data was finalized while `_render_` was still rendering with it "
                                   f"(call back into the iterator from inside the render); events: {evs}")
                if e.startswith("cb:") and op[0] == "nextCb" and op[2] in ("close", "next") and e != "cb:ValueError":
                    return Failure(f"reentrant-call/{where}/cb={op[2]}",
                                   f"op #{n}: {op[2]}() from inside `_render_` ended `{e[3:]}`, not ValueError")
            if op[0] in ("next", "seek", "bump", "set", "nextCb") and int(op[1]) < len(closed_prev):
                i = int(op[1])
                if closed_prev[i] == "1":
                    want = "err StopIteration" if op[0] in ("next", "nextCb") else "err FinalizedIteratorError"
                    if outcome != want:
                        return Failure(f"closed-iterator-usable/{where}",
                                       f"op #{n}: {op[0]} on closed iterator {i} gave `{outcome}`, not `{want}`")
                    if evs:
                        return Failure(f"closed-iterator-acts/{where}", f"op #{n}: events on a closed iterator: {evs}")
                elif op[0] in ("next", "nextCb") and outcome.startswith("err ") and outcome[4:] in EXCEPTION_NAMES \
                        and mask[i] != "1" and not hook_fault:
                    return Failure(f"open-after-error/{where}",
                                   f"op #{n}: next() raised {outcome[4:]} and iterator {i} is still open")
            if op[0] in ("close", "dropIter") and outcome != "ok" and not hook_fault:
                return Failure(f"close-raises/{where}",
                               f"op #{n}: {op[0]} raised `{outcome}` (close() is safe for multiple invocations)")
            if op[0] in ("close", "dropIter") and int(op[1]) < len(mask) and mask[int(op[1])] != "1" \
                    and not hook_fault:
                return Failure(f"open-after-close/{where}", f"op #{n}: iterator {op[1]} is open after {op[0]}")
            # promptness where the code promises it: `_init_render_(finalize=True)` (render() too) has
            # finalized its data itself when it returns or raises — not left it to `RenderData.__del__`
            if op[0] in ("render", "str") or (op[0] == "initRender" and op[2] == "1"):
                for e in filter(None, evs.split(",")):
                    if e[0] == "c" and e[1] != "b" and f"f{e[1:]}:l" not in evs.split(","):
                        return Failure(f"not-prompt/{where}/flags={''.join(op[1:])}",
                                       f"op #{n}: {op[0]} (`_init_render_(finalize=True)`) returned/raised ({outcome}) without "
                                       f"having finalized its render data (object {e[1:]}); events: {evs}")
            # draw() finalizes its data itself before it returns or raises; the exceptions of the unchanged code:
            # a failure inside `_init_render_(finalize=False)` (padding resolution, size validation), which
            # precedes draw's `try`, and a failure of the clean-up's own write("\n"), which precedes finalize()
            if op[0] == "draw" and not (fault and fault[0] in ("validate", "resolve", "cwrite")):
                for e in filter(None, evs.split(",")):
                    if e[0] == "c" and e[1] != "b" and f"f{e[1:]}:l" not in evs.split(","):
                        return Failure(f"not-prompt/{where}/animate={op[1]}",
                                       f"op #{n}: draw() returned/raised ({outcome}) without having finalized its "
                                       f"render data (object {e[1:]}); events: {evs}")
            # data of finished operations: finalized exactly once by now
            if op[0] in ("render", "str", "draw", "initRender", "handover", "animate"):
                for e in filter(None, evs.split(",")):
                    if e[0] == "c" and e[1] != "b" and fin.get(int(e[1:]), 0) != 1:
                        return Failure(f"not-finalized/{where}",
                                       f"op #{n}: object {e[1:]} created by {op[0]} has {fin.get(int(e[1:]), 0)} "
                                       "finalize calls once the operation is over and garbage collected")
        closed_prev = mask
    # quiescence: every iterator closed/dropped and nothing held -> everything finalized exactly once
    if all(c == "1" for c in closed_prev) and not held:
        for d, k in fin.items():
            if k != 1:
                return Failure(f"not-finalized-at-quiescence/fc={fc}/{ops[-1][0][0]}",
                               f"object {d} has {k} finalize calls at quiescence")
    return None


def _oracle(self, case, impl_result):
    if not case.line.startswith("hist ") or not impl_result.startswith("ok "):
        return None
    fc, ops = parse_hist(case.data)
    outs = impl_result[3:].split(" # ")[0].split("|")
    return check_log(fc, ops, outs)


def _search(self, rng, tier, reasons):
    """every operation kind × every fault position (≤ 3 frames), then random histories"""
    n = 0
    for case in exhaustive(3):
        r = self.impl(case)
        f = self.oracle(case, r)
        if f:
            f.case = case
            return [f]
    for _ in range(3000):
        case = random_history(rng)
        f = self.oracle(case, self.impl(case))
        if f:
            f.case = case
            return [f]
    return []


C10.oracle = _oracle
C10.search = _search


if __name__ == "__main__":
    if len(sys.argv) > 1 and sys.argv[1] == "--try":
        import subprocess
        tests = [
            (3, [(("render",), None), (("draw", "1", "0", "2", "on", "0"), None),
                 (("draw", "0", "1", "1", "off", "0"), ("validate", 0, "RenderSizeOutofRangeError")),
                 (("iterNew", "1", "off"), None)]),
            (2, [(("iterNew", "2", "off"), None), (("next", "0"), None),
                 (("next", "0"), ("render", 0, "KeyboardInterrupt")), (("next", "0"), None), (("next", "0"), None)]),
            (3, [(("draw", "1", "0", "-1", "off", "9"), ("render", 4, "KeyboardInterrupt")),
                 (("draw", "1", "0", "1", "on", "0"), ("render", 1, "StopIteration"))]),
        ]
        if len(sys.argv) > 2:
            n = int(sys.argv[2]); seed = int(sys.argv[3]) if len(sys.argv) > 3 else 0
            rng = random.Random(seed)
            cases = []
            for c in C10().generate(rng, "quick"):
                if len(sys.argv) > 4 and not c.kind.startswith(sys.argv[4]):
                    continue
                cases.append(c)
                if len(cases) >= n:
                    break
            import time
            t0 = time.time()
            impl = [C10().impl(c) for c in cases]
            t1 = time.time()
            model = fw.run_driver("drv_c10", [c.line for c in cases])
            bad = [(c, m, i) for c, m, i in zip(cases, model, impl) if m != i]
            print(len(cases), "cases", len(bad), "mismatches", f"impl {t1-t0:.1f}s model {time.time()-t1:.1f}s")
            for c, m, i in bad[:8]:
                print(c.line, "\n M:", m, "\n I:", i)
            os._exit(0)
        for fc, ops in tests:
            line = hist_line(fc, ops)
            m = subprocess.run([str(fw.driver_path("drv_c10"))], input=line + "\n", capture_output=True, text=True).stdout.strip()
            outs, summ = run_real(fc, ops)
            i = "ok " + "|".join(outs) + " # " + summ
            print(line, "\n M:", m, "\n I:", i, "\n", "SAME" if m == i else "DIFF")
        os._exit(0)
    fw.main(C10)
