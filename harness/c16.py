#!/venv/bin/python
"""C16 — render-argument sets obey their precedence, compatibility and immutability laws
(DESIGN.md §5 C16).

Two driver ops:
  run <n> <cmd>*   a history over a class forest built at run time (class definitions interleaved
                   with RenderArgs / ArgsNamespace operations and queries)
  def <k> <n> <cmd>*  a history of namespace class definitions / instantiations over k render classes

`impl` replays the history on the real code (fresh classes made with `type()`), `oracle` states the
property directly on the objects the real code returned (computed during the same replay by
`Spec`, which knows nothing of the Lean model).
"""
from __future__ import annotations

import gc
import json
import os
import re
import random
import sys

sys.path.insert(0, os.path.dirname(os.path.abspath(__file__)))
from common import framework as fw  # noqa: E402
from common.framework import Case, Failure, Property  # noqa: E402

fw.setup_import_path()

import term_image.renderable as R  # noqa: E402
from term_image.renderable import ArgsNamespace, Renderable, RenderArgs  # noqa: E402
from term_image.renderable import _types as T  # noqa: E402

ArgsNamespaceMeta = type(ArgsNamespace)

ERR_NAMES = [
    "IncompatibleRenderArgsError", "IncompatibleArgsNamespaceError", "NoArgsNamespaceError",
    "ValueError", "TypeError", "UnknownArgsFieldError", "RenderArgsError", "RenderArgsDataError",
    "UnassociatedNamespaceError", "RenderDataError", "UnknownDataFieldError", "AttributeError",
]

_ctr = [0]
_cleanups = [0]


def mixin_bases(parent, code):
    """bases of a new render class: its single render base plus fresh non-render mix-ins — `code % 3` of them
    before it, `code // 3 % 3` after it; `code // 9`: 0 plain `class Mixin: pass`, 1 mix-ins with a base class of
    their own, 2 mix-ins deriving from two plain classes. The tree of render classes is unaffected."""
    if not code:
        return (parent,)
    nb, na, style = code % 3, code // 3 % 3, code // 9

    def mixin():
        _ctr[0] += 1
        if style == 0:
            bases = ()
        elif style == 1:
            bases = (type(f"MB{_ctr[0]}", (), {}),)
        else:
            bases = (type(f"MB{_ctr[0]}a", (), {}), type(f"MB{_ctr[0]}b", (), {}))
        return type(f"M{_ctr[0]}", bases, {"mixed_in": True})

    return tuple(mixin() for _ in range(nb)) + (parent,) + tuple(mixin() for _ in range(na))


def _body():
    return {"_get_render_size_": lambda s: None, "_render_": lambda s, d, a: None}


def pv(x):
    """a value of a case -> the Python value: ints as they are, "b1" -> True, "f1" -> 1.0.
    `True == 1 == 1.0` (and their hashes): the Lean model works on the integer image, the type-aware
    part of the oracle on `repr`."""
    if isinstance(x, str):
        n = int(x[1:])
        if x[0] in UNHASHABLE:  # a fresh unhashable object every time: [n], {n: n}, {n}, bytearray([n])
            return UNHASHABLE[x[0]][1](n)
        return bool(n) if x[0] == "b" else float(n)
    return x


# unhashable field values (allowed everywhere; only hash() of their holder raises TypeError). The Lean model
# sees an opaque value id >= 1000, equal ids <=> == objects.
UNHASHABLE = {
    "L": (0, lambda n: [n]), "D": (1, lambda n: {n: n}), "S": (2, lambda n: {n}), "Y": (3, lambda n: bytearray([n])),
}


def tag_of_value(v):
    """a Python value read back from the real objects -> the case value that denotes it"""
    i = im(v)
    if isinstance(v, bool):
        return f"b{i}"
    if isinstance(v, float):
        return f"f{i}"
    if isinstance(i, int) and i >= 1000:
        return "LDSY"[i % 10] + str((i - 1000) // 10)
    return v


def unhashable(x):
    return isinstance(x, (list, dict, set, bytearray)) or (isinstance(x, str) and x[:1] in UNHASHABLE)


def im(x):
    """integer image of a case value / of a Python value read back from the real objects"""
    if isinstance(x, str) and x[:1] in UNHASHABLE and x[1:].isdigit():
        return 1000 + 10 * int(x[1:]) + UNHASHABLE[x[0]][0]
    if isinstance(x, list) and len(x) == 1 and type(x[0]) is int:
        return 1000 + 10 * x[0]
    if isinstance(x, dict) and len(x) == 1 and type(next(iter(x))) is int:
        return 1000 + 10 * next(iter(x)) + 1
    if isinstance(x, set) and len(x) == 1 and type(next(iter(x))) is int:
        return 1000 + 10 * next(iter(x)) + 2
    if isinstance(x, bytearray) and len(x) == 1:
        return 1000 + 10 * x[0] + 3
    if isinstance(x, str) and x[:1] in ("b", "f") and x[1:].lstrip("-").isdigit():
        return int(x[1:])
    if isinstance(x, (bool, int)):
        return int(x)
    if isinstance(x, float) and x == int(x):
        return int(x)
    return repr(x)


def ints(xs):
    return ",".join(str(im(x)) for x in xs)


def typed(v):
    """value of a RenderArgs with every field as `repr` (so that 1, True and 1.0 differ)"""
    return (v[0], sorted((k, tuple(repr(x) for x in vs)) for k, vs in v[1]))


_NAME_POOL: dict = {}


def field_name(nscls, idx):
    """the keyword used for field position `idx` of a namespace class: its own field names, and for
    an unknown position (>= number of fields) a name drawn from: the next positional name (a field of
    a sibling/ancestor class), arbitrary names, and EVERY non-field attribute of the namespace class
    (methods, class attributes, dunders, `_FIELDS`, `_RENDER_CLS`, `__slots__`, ...)"""
    if nscls is None:
        return f"f{idx}"
    pool = _NAME_POOL.get(nscls)
    if pool is None:
        fields = list(nscls.get_fields())
        attrs = sorted(a for a in dir(nscls) if a not in fields)
        pool = _NAME_POOL[nscls] = (len(fields), ["x", "baz"] + attrs)
    nf, names = pool
    if idx < nf:
        return f"f{idx}"
    j = idx - nf
    return f"f{idx}" if j == 0 else names[(j - 1) % len(names)]


def attr_name(nscls, idx):
    """for attribute access: a field, or a name that is no attribute at all (f<n>, x, baz)"""
    nf = len(nscls.get_fields())
    return f"f{idx}" if idx <= nf else ["x", "baz"][(idx - nf - 1) % 2]


def n_unknown_names(nscls):
    field_name(nscls, 0)
    return 1 + len(_NAME_POOL[nscls][1])


def tok_list(xs, f=str):
    xs = list(xs)
    return " ".join([str(len(xs))] + [f(x) for x in xs])


def tok_vals(vs):
    return tok_list(vs, lambda x: str(im(x)))


def ns_tag(ns):
    return ns[2] if len(ns) > 2 else 0


def tok_ns(ns):
    return f"{ns[0]} {tok_vals(ns[1])} {ns_tag(ns)}"


def tok_fields(fs):
    return tok_list(fs, lambda f: f"{f[0]} {im(f[1])}")


def tok_opt(v, f=str):
    return "none" if v is None else "some " + f(v)


def cmd_tokens(c) -> str:
    op = c[0]
    if op == "dc":
        return f"dc {c[1]} {tok_opt(c[2], tok_list)} {c[3] if len(c) > 3 else 0}"
    if op == "mk":
        return f"mk {c[1]} {tok_opt(c[2])} {tok_list(c[3], tok_ns)}"
    if op == "upn":
        return f"upn {c[1]} {tok_ns(c[2])} {tok_list(c[3], tok_ns)} {tok_fields(c[4])}"
    if op == "upc":
        return f"upc {c[1]} {c[2]} {tok_list(c[3], tok_ns)} {tok_fields(c[4])}"
    if op == "cv":
        return f"cv {c[1]} {c[2]}"
    if op in ("or", "ror"):
        o = c[2]
        return f"{op} {tok_ns(c[1])} " + (f"n {tok_ns(o[1])}" if o[0] == "n" else f"r {o[1]}")
    if op == "pos":
        return f"pos {tok_ns(c[1])}"
    if op == "tra":
        return f"tra {tok_ns(c[1])} {tok_opt(c[2])}"
    if op == "eq":
        return f"eq {c[1]} {c[2]}"
    if op == "hash":
        return f"hash {c[1]}"
    if op == "has":
        return f"has {c[1]} {tok_ns(c[2])}"
    if op == "get":
        return f"get {c[1]} {c[2]}"
    if op == "nsi":
        return f"nsi {c[1]} {c[4] if len(c) > 4 else 0} {tok_vals(c[2])} {tok_fields(c[3])}"
    if op == "ds":
        return f"ds {c[1]} {c[3]}"
    if op == "nseq":
        return f"nseq {tok_ns(c[1])} {tok_ns(c[2])}"
    if op == "nshash":
        return f"nshash {tok_ns(c[1])}"
    if op == "attr":
        return f"attr {tok_ns(c[1])} {c[2]}"
    if op == "seta":
        return f"seta {tok_ns(c[1])} {c[2]} {im(c[3])}"
    if op == "dela":
        return f"dela {tok_ns(c[1])} {c[2]}"
    if op == "gett":
        return f"gett {c[1]}"
    if op == "nsu":
        return f"nsu {tok_ns(c[1])} {tok_fields(c[2])}"
    # def-history commands
    if op == "d":
        return f"d {tok_list(c[1])} {tok_list(c[2], lambda a: tok_opt(a))} {tok_opt(c[3])}"
    if op == "inst":
        return f"inst {c[1]} {tok_list(c[2])} {tok_fields(c[3])}"
    if op == "dd":
        return f"dd {tok_list(c[1])} {c[2]} {tok_opt(c[3])}"
    if op == "dupd":
        return f"dupd {c[1]} {tok_fields(c[2])}"
    raise ValueError(op)


def run_line(cmds) -> str:
    return "run " + tok_list(cmds, cmd_tokens)


def def_line(k, cmds) -> str:
    return f"def {k} " + tok_list(cmds, cmd_tokens)


def err_str(e: BaseException) -> str:
    return "E:" + type(e).__name__


# --------------------------------------------------------------------------------------
# the real code, replayed


class World:
    """A class forest made at run time + the RenderArgs objects met so far (by identity)."""

    def __init__(self):
        # let the classes of finished histories die: every live subclass of Renderable makes a negative
        # `issubclass(mixin, Renderable)` (ABCMeta walks all subclasses) slower
        _cleanups[0] += 1
        if _cleanups[0] % 100 == 0:
            gc.collect()
        self.classes = [Renderable]
        self.nscls = {0: None}  # class index -> namespace class (or None)
        self.defaults = {0: None}
        self.parent = {0: None}
        self.objs = [T.BASE_RENDER_ARGS]
        self.nssub = {}  # class index -> [Args, Sub1, Sub2, …] (the namespace-class family; tag = position)
        self.live_ns = []  # namespace instances made during the history (for the all-pairs eq/hash check)
        self.problems: list[tuple[str, str]] = []  # oracle findings (key, what)

    # -- helpers
    def idx(self, cls):
        for i, c in enumerate(self.classes):
            if c is cls:
                return i
        return -1

    def anc(self, ci):
        out = []
        while ci is not None:
            out.append(ci)
            ci = self.parent[ci]
        return out  # self first

    def ns(self, spec):
        inst = self.nssub[spec[0]][ns_tag(spec)](*[pv(x) for x in spec[1]])
        self.note_ns(inst)
        return inst

    def note_ns(self, inst):
        if len(self.live_ns) < 60:
            self.live_ns.append(inst)

    def ns_val(self, ns):
        return (self.idx(ns.get_render_cls()), tuple(ns.as_dict().values()))

    def ns_fmt(self, ns):
        """<class>[~<which subclass of the namespace class>]:<field values>"""
        ci, vals = self.ns_val(ns)
        fam = self.nssub.get(ci, [])
        tag = next((t for t, k in enumerate(fam) if type(ns) is k), -1)
        return f"{ci}{'' if tag == 0 else '~' + str(tag)}:{ints(vals)}"

    def fmt_ra(self, ra):
        return f"{self.idx(ra.render_cls)}/" + ";".join(self.ns_fmt(ns) for ns in ra)

    def value(self, ra):
        """(class index, [(class index, field values)…]) through the public API only"""
        try:
            return (self.idx(ra.render_cls), [self.ns_val(ns) for ns in ra])
        except Exception as e:  # noqa: BLE001  (e.g. an object that was never initialised)
            return (-1, [(-1, (type(e).__name__,))])

    def fmt_val(self, v):
        return f"{v[0]}/" + ";".join(f"{c}:{ints(vs)}" for c, vs in v[1])

    def register(self, ra):
        for i, o in enumerate(self.objs):
            if o is ra:
                return i
        self.objs.append(ra)
        return len(self.objs) - 1

    def kw(self, fields, ci=None):
        nscls = None if ci is None else self.nscls.get(ci)
        return {field_name(nscls, i): pv(v) for i, v in fields}

    # -- one command on the real code; returns the canonical result string
    def exec(self, c) -> str:
        op = c[0]
        if op == "dc":
            _ctr[0] += 1
            parent = self.classes[c[1]]
            cls = type(parent)(f"C{_ctr[0]}", mixin_bases(parent, c[3] if len(c) > 3 else 0), _body())
            ci = len(self.classes)
            self.classes.append(cls)
            self.parent[ci] = c[1]
            self.nscls[ci] = None
            self.defaults[ci] = None
            if c[2] is not None:
                body = {"__annotations__": {f"f{j}": int for j in range(len(c[2]))}}
                body.update({f"f{j}": v for j, v in enumerate(c[2])})
                self.nscls[ci] = ArgsNamespaceMeta(f"A{_ctr[0]}", (ArgsNamespace,), body, render_cls=cls)
                self.defaults[ci] = tuple(c[2])
                self.nssub[ci] = [self.nscls[ci]]
            return f"c{ci}"
        if op == "ds":  # class Sub(<a class of the family of ci>): pass  — inherits fields and association
            _ctr[0] += 1
            fam = self.nssub[c[1]]
            assert c[3] == len(fam)
            fam.append(ArgsNamespaceMeta(f"S{_ctr[0]}", (fam[c[2]],), {}))
            return f"s{c[3]}"
        try:
            if op == "mk":
                init = [] if c[2] is None else [self.objs[c[2]]]
                res = RenderArgs(self.classes[c[1]], *init, *[self.ns(n) for n in c[3]])
            elif op == "upn":
                res = self.objs[c[1]].update(self.ns(c[2]), *[self.ns(n) for n in c[3]], **self.kw(c[4]))
            elif op == "upc":
                res = self.objs[c[1]].update(self.classes[c[2]], *[self.ns(n) for n in c[3]], **self.kw(c[4], c[2]))
            elif op == "cv":
                res = self.objs[c[1]].convert(self.classes[c[2]])
            elif op == "or":
                o = c[2]
                res = self.ns(c[1]) | (self.ns(o[1]) if o[0] == "n" else self.objs[o[1]])
            elif op == "ror":
                o = c[2]
                if o[0] == "n":
                    res = self.ns(c[1]).__ror__(self.ns(o[1]))
                else:
                    res = self.objs[o[1]] | self.ns(c[1])
            elif op == "pos":
                res = +self.ns(c[1])
            elif op == "tra":
                res = self.ns(c[1]).to_render_args(None if c[2] is None else self.classes[c[2]])
            elif op == "eq":
                return "1" if self.objs[c[1]] == self.objs[c[2]] else "0"
            elif op == "hash":
                ra = self.objs[c[1]]
                hash(ra)  # must be hashable
                v = self.value(ra)
                return "h" + self.fmt_val(v)
            elif op == "has":
                return "1" if self.ns(c[2]) in self.objs[c[1]] else "0"
            elif op == "get":
                ns = self.objs[c[1]][self.classes[c[2]]]
                self.note_ns(ns)
                return "n/" + self.ns_fmt(ns)
            elif op == "nsi":
                ns = self.nssub[c[1]][c[4] if len(c) > 4 else 0](*[pv(x) for x in c[2]], **self.kw(c[3], c[1]))
                self.note_ns(ns)
                return "n/" + self.ns_fmt(ns)
            elif op == "nsu":
                self.last_operand = self.ns(c[1])
                ns = self.last_operand.update(**self.kw(c[2], c[1][0]))
                self.note_ns(ns)
                return "n/" + self.ns_fmt(ns)
            elif op == "nseq":
                return "1" if self.ns(c[1]) == self.ns(c[2]) else "0"
            elif op == "nshash":
                ns = self.ns(c[1])
                hash(ns)  # must be hashable
                v = self.ns_val(ns)
                return f"g{v[0]}:{ints(v[1])}"
            elif op == "attr":
                self.last_operand = self.ns(c[1])
                return f"v{im(getattr(self.last_operand, attr_name(self.nscls[c[1][0]], c[2])))}"
            elif op == "seta":
                self.last_operand = self.ns(c[1])
                setattr(self.last_operand, attr_name(self.nscls[c[1][0]], c[2]), pv(c[3]))
                return "set"
            elif op == "dela":
                self.last_operand = self.ns(c[1])
                delattr(self.last_operand, attr_name(self.nscls[c[1][0]], c[2]))
                return "deleted"
            elif op == "gett":
                self.objs[c[1]][[] if c[2] == 0 else (int if c[2] == 1 else "Renderable")]
                return "found"
            else:
                return "harness-bad-op"
        except Exception as e:  # noqa: BLE001
            return err_str(e)
        if not isinstance(res, RenderArgs):
            return f"not-a-RenderArgs {type(res).__name__}"
        v = self.value(res)
        if v[0] == -1:  # e.g. returned without ever being initialised
            return f"broken-object {v[1][0][1][0]}"
        i = self.register(res)
        return f"r{i}/" + self.fmt_ra(res)

    def cleanup(self):
        interned = getattr(RenderArgs, "_interned", None)
        if isinstance(interned, dict):
            for cls in self.classes[1:]:
                interned.pop(cls, None)
        # let the classes of this history die: every live subclass of Renderable makes a negative
        # `issubclass(mixin, Renderable)` (ABCMeta walks all subclasses) slower
        _NAME_POOL.clear()


# --------------------------------------------------------------------------------------
# the property, stated directly (no Lean, no knowledge of the constructor's shortcuts)


class Spec:
    """Expected outcome of each operation per the documentation, from the forest definition and
    the *values* of the operands."""

    def __init__(self, w: World):
        self.w = w

    def has(self, ci):
        return self.w.defaults[ci] is not None

    def dfl(self, ci):
        return (ci, tuple(self.w.defaults[ci]))

    def hier(self, ci):
        return [k for k in self.w.anc(ci) if self.has(k)]

    def build(self, rc, init_val, nss):
        """("ok", value) | ("err", name): last namespace given, else init's, else default"""
        anc = self.w.anc(rc)
        if init_val is not None and init_val[0] not in anc:
            return ("err", "IncompatibleRenderArgsError")
        for n in nss:
            if n[0] not in anc:
                return ("err", "IncompatibleArgsNamespaceError")
        out = []
        init_map = dict(init_val[1]) if init_val is not None else {}
        for k in self.hier(rc):
            last = [n for n in nss if n[0] == k]
            if last:
                out.append((k, tuple(last[-1][1])))
            elif k in init_map:
                out.append((k, init_map[k]))
            else:
                out.append(self.dfl(k))
        return ("ok", (rc, out))

    def val(self, i):
        return self.w.value(self.w.objs[i])

    def expect(self, c):
        """expected ("ok", value) / ("err", name) / ("same", i) / None (not a RenderArgs-returning op)"""
        op = c[0]
        nsv = lambda n: (n[0], tuple(pv(x) for x in n[1]))  # noqa: E731
        if op == "mk":
            return self.build(c[1], None if c[2] is None else self.val(c[2]), [nsv(n) for n in c[3]])
        if op == "upn":
            if c[4]:
                return ("err", "TypeError")
            v = self.val(c[1])
            return self.build(v[0], v, [nsv(c[2])] + [nsv(n) for n in c[3]])
        if op == "upc":
            if c[3]:
                return ("err", "TypeError")
            v = self.val(c[1])
            k = c[2]
            if k not in self.w.anc(v[0]):
                return ("err", "ValueError")
            if not self.has(k):
                return ("err", "NoArgsNamespaceError")
            cur = list(dict(v[1])[k])
            if c[4]:
                if any(f[0] >= len(cur) for f in c[4]):
                    return ("err", "UnknownArgsFieldError")
                for f in c[4]:
                    cur[f[0]] = pv(f[1])
            return ("ok", (v[0], [(kk, tuple(cur)) if kk == k else (kk, vv) for kk, vv in v[1]]))
        if op == "cv":
            v = self.val(c[1])
            rc = c[2]
            if rc == v[0]:
                return ("same", c[1])
            if v[0] in self.w.anc(rc):  # to a descendant: keep everything, defaults for the rest
                return self.build(rc, v, [])
            if rc in self.w.anc(v[0]):  # to an ancestor: keep what the ancestor has
                keep = dict(v[1])
                return ("ok", (rc, [(k, keep[k]) for k in self.hier(rc)]))
            return ("err", "ValueError")
        if op in ("or", "ror"):
            me = nsv(c[1])
            o = c[2]
            if o[0] == "n":
                other = nsv(o[1])
                if me[0] == other[0]:
                    return self.build(me[0], None, [me] if op == "ror" else [other])
                if other[0] in self.w.anc(me[0]):
                    return self.build(me[0], None, [me, other])
                if me[0] in self.w.anc(other[0]):
                    return self.build(other[0], None, [me, other])
                return ("err", "IncompatibleArgsNamespaceError")
            v = self.val(o[1])
            if v[0] in self.w.anc(me[0]):
                return self.build(me[0], v, [me])
            if me[0] in self.w.anc(v[0]):
                return self.build(v[0], v, [me])
            return ("err", "IncompatibleRenderArgsError")
        if op == "pos":
            return self.build(c[1][0], None, [nsv(c[1])])
        if op == "tra":
            return self.build(c[1][0] if c[2] is None else c[2], None, [nsv(c[1])])
        return None


def snapshot(w, o):
    """an existing set: its class, its constituent namespace OBJECTS (held, so compared by identity)
    and their field values with types (`repr`)"""
    try:
        nss = list(o)
        return (o.render_cls, nss, (w.idx(o.render_cls), [(w.idx(ns.get_render_cls()),
                                                          tuple(repr(x) for x in ns.as_dict().values())) for ns in nss]))
    except Exception as e:  # noqa: BLE001
        return (None, [], (-1, [(-1, (type(e).__name__,))]))


def snapshot_diff(b, a):
    if a[0] is not b[0]:
        return f"render_cls changed {b[2][0]} -> {a[2][0]}"
    if a[2] != b[2]:
        return f"field values changed {b[2][1]} -> {a[2][1]}"
    if len(a[1]) != len(b[1]) or any(x is not y for x, y in zip(a[1], b[1])):
        which = [i for i, (x, y) in enumerate(zip(b[1], a[1])) if x is not y]
        return (f"constituent namespace(s) #{which} were replaced by other objects "
                f"(field values {b[2][1]} compare unchanged)")
    return None


def hashable_obj(o):
    """a set / namespace all of whose field values are hashable (through the public API)"""
    try:
        nss = list(o) if isinstance(o, RenderArgs) else [o]
        return not any(unhashable(v) for ns in nss for v in ns.as_dict().values())
    except Exception:  # noqa: BLE001
        return True


def describe(w, o):
    try:
        return ("set " + w.fmt_ra(o)) if isinstance(o, RenderArgs) else ("namespace " + w.ns_fmt(o))
    except Exception:  # noqa: BLE001
        return object.__repr__(o)


def same_value(a, b):
    """same class, same namespaces (the order of namespaces is not part of the contract)"""
    return a[0] == b[0] and sorted(a[1]) == sorted(b[1])


def replay(cmds, with_oracle=True):
    """Run a history on the real code. Returns (result strings, oracle problems)."""
    w = World()
    spec = Spec(w)
    out = []
    problems = []
    snaps = []
    try:
        for n, c in enumerate(cmds):
            exp = None
            before = None
            if any(ref >= len(w.objs) for ref in refs_of(c)):
                # only when the code under test numbered its results differently from the recorded run
                out.append("no-such-object")
                continue
            if with_oracle and c[0] not in ("dc", "ds"):
                try:
                    exp = spec.expect(c)
                except Exception as e:  # noqa: BLE001
                    exp = None
                    problems.append((f"oracle-crash/{c[0]}", repr(e)))
                # the snapshots taken after the previous operation are this operation's "before"
                before = snaps + [snapshot(w, o) for o in w.objs[len(snaps):]]
            r = w.exec(c)
            out.append(r)
            if not with_oracle or c[0] in ("dc", "ds"):
                continue
            where = f"{c[0]}"
            snaps = [snapshot(w, o) for o in w.objs]
            for oi, (a, b) in enumerate(zip(snaps, before)):
                diff = snapshot_diff(b, a)
                if diff:
                    problems.append((f"mutated/{where}", f"op #{n} {c} altered existing object {oi} "
                                     f"(a set for class {b[2][0]}): {diff}"))
                    break
            if exp is not None:
                if exp[0] == "err":
                    if r != "E:" + exp[1]:
                        kws = f" (keywords {sorted(w.kw(c[4], c[2]))})" if c[0] == "upc" and c[4] else ""
                        problems.append((f"reject/{where}/{exp[1]}", f"op #{n} {c}{kws}: expected {exp[1]}, got {r}"))
                elif r.startswith("E:") or not r.startswith("r"):
                    problems.append((f"accept/{where}", f"op #{n} {c}: expected a RenderArgs, got {r}"))
                else:
                    i = int(r[1:].split("/", 1)[0])
                    got = w.value(w.objs[i])
                    if exp[0] == "same":
                        if i != exp[1]:
                            problems.append((f"same/{where}", f"op #{n} {c}: expected the operand itself, got object {i}"))
                    elif got[0] != exp[1][0] or sorted(got[1]) != sorted(exp[1][1]):
                        problems.append((f"value/{where}", f"op #{n} {c}: expected {exp[1]}, got {got}"))
                    elif typed(got) != typed(exp[1]):
                        problems.append((f"value-type/{where}", f"op #{n} {c}: expected {typed(exp[1])}, got {typed(got)}"))
            elif c[0] == "eq":
                a, b = w.objs[c[1]], w.objs[c[2]]
                want = same_value(w.value(a), w.value(b))
                if (r == "1") != want:
                    problems.append(("eq", f"op #{n} {c}: == is {r}, values equal is {want}"))
                if want and hashable_obj(a) and hashable_obj(b) and hash(a) != hash(b):
                    problems.append(("hash", f"op #{n} {c}: equal sets hash differently"))
            elif c[0] == "hash":
                o = w.objs[c[1]]
                if (r == "E:TypeError") != (not hashable_obj(o)) or not (r.startswith("h") or r == "E:TypeError"):
                    problems.append(("hash-query", f"op #{n} {c}: hash({describe(w, o)}) gave {r}"))
            elif c[0] == "has":
                v = w.value(w.objs[c[1]])
                want = (c[2][0], tuple(pv(x) for x in c[2][1])) in v[1]
                if (r == "1") != want:
                    problems.append(("contains", f"op #{n} {c}: `in` is {r}, expected {want}"))
            elif c[0] == "nseq":
                a, b = c[1], c[2]
                want = a[0] == b[0] and [pv(x) for x in a[1]] == [pv(x) for x in b[1]]
                if (r == "1") != want:
                    problems.append(("ns-eq", f"op #{n} {c}: == is {r}, same class and field values is {want}"))
            elif c[0] == "nshash":
                want = "E:TypeError" if any(unhashable(x) for x in c[1][1]) else f"g{c[1][0]}:{ints(pv(x) for x in c[1][1])}"
                if r != want:
                    problems.append(("ns-hash", f"op #{n} {c}: got {r}"))
            elif c[0] == "attr":
                vals = [pv(x) for x in c[1][1]]
                want = f"v{im(vals[c[2]])}" if c[2] < len(vals) else "E:UnknownArgsFieldError"
                if r != want:
                    problems.append(("getattr", f"op #{n} {c}: got {r}, expected {want}"))
            elif c[0] in ("seta", "dela"):
                if r != "E:AttributeError":
                    problems.append((f"immutable/{c[0]}", f"op #{n} {c}: expected AttributeError, got {r}"))
                after_vals = w.ns_val(w.last_operand)[1]
                if [repr(x) for x in after_vals] != [repr(pv(x)) for x in c[1][1]]:
                    problems.append((f"mutated/{c[0]}", f"op #{n} {c}: the namespace was altered: {after_vals}"))
            elif c[0] == "gett":
                if r != "E:TypeError":
                    problems.append(("getitem-type", f"op #{n} {c}: expected TypeError, got {r}"))
            elif c[0] == "nsu":
                ci, vals = c[1][0], [pv(x) for x in c[1][1]]
                nf = len(w.defaults[ci])
                if c[2] and any(f[0] >= nf for f in c[2]):
                    if r != "E:UnknownArgsFieldError":
                        problems.append(("unknown-field/nsu", f"op #{n} {c}: update(**{sorted(w.kw(c[2], ci))}) "
                                         f"has an unknown field; expected UnknownArgsFieldError, got {r}"))
                else:
                    want = list(vals)
                    for f in c[2]:
                        want[f[0]] = pv(f[1])
                    tg = ns_tag(c[1])
                    if r != f"n/{ci}{'' if tg == 0 else '~' + str(tg)}:{ints(want)}":
                        problems.append(("value/nsu", f"op #{n} {c}: got {r}, expected {want}"))
                op_after = w.ns_val(w.last_operand)
                if [repr(x) for x in op_after[1]] != [repr(x) for x in vals]:
                    problems.append(("mutated/nsu", f"op #{n} {c}: update() altered the namespace itself: {op_after}"))
            elif c[0] == "nsi":
                ci = c[1]
                d = list(w.defaults[ci])
                nf = len(d)
                if len(c[2]) > nf:
                    want = "E:TypeError"
                elif any(f[0] >= nf for f in c[3]):
                    want = "E:UnknownArgsFieldError"
                elif any(f[0] < len(c[2]) for f in c[3]):
                    want = "E:TypeError"
                else:
                    vals = [pv(x) for x in c[2]] + d[len(c[2]):]
                    for f in c[3]:
                        vals[f[0]] = pv(f[1])
                    tg = c[4] if len(c) > 4 else 0
                    want = f"n/{ci}{'' if tg == 0 else '~' + str(tg)}:{ints(vals)}"
                if r != want:
                    key = "unknown-field/nsi" if want == "E:UnknownArgsFieldError" else "value/nsi"
                    problems.append((key, f"op #{n} {c} (keywords {sorted(w.kw(c[3], ci))}): got {r}, expected {want}"))
            elif c[0] == "get":
                v = w.value(w.objs[c[1]])
                k = c[2]
                if k in dict(v[1]):
                    want = f"n/{k}:{ints(dict(v[1])[k])}"
                elif k in w.anc(v[0]):
                    want = "E:NoArgsNamespaceError"
                else:
                    want = "E:ValueError"
                if re.sub(r"~\d+", "", r) != want:
                    problems.append(("getitem", f"op #{n} {c}: got {r}, expected {want}"))
        if with_oracle:
            # all pairs: equal <-> same class and same values; equal -> equal hashes
            vals = [w.value(o) for o in w.objs]
            svals = [(v[0], sorted(v[1])) for v in vals]
            for i, a in enumerate(w.objs):
                for j in range(i + 1):
                    b = w.objs[j]
                    try:
                        e1, e2 = a == b, b == a
                    except Exception as e:  # noqa: BLE001
                        problems.append(("eq-crash", f"objects {i},{j}: == raised {type(e).__name__}"))
                        continue
                    if e1 != (svals[i] == svals[j]) or e1 != e2:
                        problems.append(("eq-pairs", f"objects {i},{j}: == is {e1}/{e2}, values {vals[i]} / {vals[j]}"))
            # every pair of live objects (sets and namespaces, however they were made): equal => equal hashes,
            # and membership in a set / lookup as a dict key agrees with ==
            live = list(w.live_ns)
            for o in w.objs:
                try:
                    live += [ns for ns in o if all(ns is not x for x in live)][: max(0, 80 - len(live))]
                except Exception:  # noqa: BLE001
                    pass
            for kind, group in (("sets", list(w.objs)), ("namespaces", live)):
                seen, bag, table = [], set(), {}
                for i, a in enumerate(group):
                    if not hashable_obj(a):
                        # a holder of an unhashable field value: hash() must raise TypeError; == must still work
                        try:
                            hash(a)
                            problems.append((f"hash-unhashable/{kind}", f"hash({describe(w, a)}) did not raise"))
                        except TypeError:
                            pass
                        except Exception as e:  # noqa: BLE001
                            problems.append((f"hash-unhashable/{kind}", f"hash({describe(w, a)}): {type(e).__name__}"))
                        continue
                    try:
                        eq_to = [j for j, b in enumerate(seen) if a == b]
                        for j in eq_to:
                            if hash(a) != hash(seen[j]):
                                problems.append((f"hash/{kind}", f"{kind} {describe(w, a)} and {describe(w, seen[j])} "
                                                 "are equal but hash differently"))
                                break
                        if (a in bag) != bool(eq_to) or (a in table) != bool(eq_to):
                            problems.append((f"hash-lookup/{kind}", f"{describe(w, a)} equals an earlier object "
                                             f"({bool(eq_to)}) but set/dict membership says {a in bag}/{a in table}"))
                        bag.add(a)
                        table.setdefault(a, i)
                        seen.append(a)
                    except Exception as e:  # noqa: BLE001
                        problems.append((f"hash-crash/{kind}", f"{describe(w, a)}: {type(e).__name__}: {e}"))
                        break
            # comparison with / combination with foreign objects (NotImplemented paths), repr, as_dict, get_fields
            for o in w.objs[:6]:
                if (o == 5) is not False or (o != 5) is not True or o.__eq__(5) is not NotImplemented:
                    problems.append(("eq-foreign/sets", f"{describe(w, o)} == 5 is not False/NotImplemented"))
                want = f"RenderArgs({o.render_cls.__name__}" + "".join(", " + repr(ns) for ns in o) + ")"
                if repr(o) != want:
                    problems.append(("repr/sets", f"repr is {repr(o)!r}, expected {want!r}"))
            for ns in live[:10]:
                if (ns == 5) is not False or ns.__eq__(5) is not NotImplemented \
                        or ns.__or__(5) is not NotImplemented or ns.__ror__(5) is not NotImplemented:
                    problems.append(("eq-foreign/namespaces", f"{describe(w, ns)}: ==/| with 5 is not NotImplemented"))
                try:
                    ns | 5
                    problems.append(("or-foreign", f"{describe(w, ns)} | 5 did not raise"))
                except TypeError:
                    pass
                d = ns.as_dict()
                want = f"{type(ns).__name__}(" + ", ".join(f"{k}={v!r}" for k, v in d.items()) + ")"
                if repr(ns) != want or list(d) != list(type(ns).get_fields()):
                    problems.append(("repr/namespaces", f"repr is {repr(ns)!r}, expected {want!r}"))
            for ci, fam in w.nssub.items():
                for k in fam:
                    if tuple(k.get_fields().values()) != tuple(w.defaults[ci]) or k.get_render_cls() is not w.classes[ci]:
                        problems.append(("get-fields", f"namespace class {k.__name__} of class {ci}: fields {dict(k.get_fields())}"))
            # the shared default set of every class is still the all-default set
            for ci in range(1, len(w.classes)):
                d = RenderArgs(w.classes[ci])
                want = (ci, [spec.dfl(k) for k in spec.hier(ci)])
                if not same_value(w.value(d), want) or typed(w.value(d)) != typed(want):
                    problems.append(("default-set", f"RenderArgs(class {ci}) is {w.value(d)}, defaults are {want}"))
                if RenderArgs(w.classes[ci]) is not d:
                    problems.append(("default-not-shared", f"RenderArgs(class {ci}) is not shared"))
    finally:
        w.cleanup()
    return out, problems


# --------------------------------------------------------------------------------------
# namespace class definitions


class DWorld:
    def __init__(self, k):
        self.render = []
        for _ in range(k):
            _ctr[0] += 1
            self.render.append(type(f"D{_ctr[0]}", (Renderable,), _body()))
        self.ns = [ArgsNamespace]
        self.info = [dict(fields=(), assoc=False, rc=None)]
        self.dns = [R.DataNamespace]
        self.dinfo = [dict(n=0, assoc=False, rc=None)]

    def exec(self, c):
        if c[0] == "d":
            _ctr[0] += 1
            bases = tuple(self.ns[b] for b in c[1])
            body = {"__annotations__": {f"f{j}": int for j in range(len(c[2]))}}
            body.update({f"f{j}": v for j, v in enumerate(c[2]) if v is not None})
            kw = {}
            if c[3] is not None:
                kw["render_cls"] = self.render[c[3]] if c[3] < len(self.render) else int
            try:
                cls = ArgsNamespaceMeta(f"N{_ctr[0]}", bases, body, **kw)
            except Exception as e:  # noqa: BLE001
                return err_str(e)
            i = len(self.ns)
            self.ns.append(cls)
            fields = tuple(cls.get_fields().values())
            try:
                rc = cls.get_render_cls()
                assoc, rci = True, next(j for j, r in enumerate(self.render) if r is rc)
            except R.UnassociatedNamespaceError:
                assoc, rci = False, None
            self.info.append(dict(fields=fields, assoc=assoc, rc=rci))
            return f"k{i}/{ints(fields)}/{int(assoc)}/{rci if assoc else '-'}"
        if c[0] == "inst":
            try:
                ns = self.ns[c[1]](*c[2], **{field_name(self.ns[c[1]], i): v for i, v in c[3]})
            except Exception as e:  # noqa: BLE001
                return err_str(e)
            rc = ns.get_render_cls()
            rci = next(j for j, r in enumerate(self.render) if r is rc)
            return f"n/{rci}:{ints(ns.as_dict().values())}"
        if c[0] == "dd":
            _ctr[0] += 1
            bases = tuple(self.dns[b] for b in c[1])
            body = {"__annotations__": {f"f{j}": int for j in range(c[2])}}
            kw = {}
            if c[3] is not None:
                kw["render_cls"] = self.render[c[3]] if c[3] < len(self.render) else int
            try:
                cls = type(R.DataNamespace)(f"Q{_ctr[0]}", bases, body, **kw)
            except Exception as e:  # noqa: BLE001
                return err_str(e)
            i = len(self.dns)
            self.dns.append(cls)
            try:
                rc = cls.get_render_cls()
                assoc, rci = True, next(j for j, r in enumerate(self.render) if r is rc)
            except R.UnassociatedNamespaceError:
                assoc, rci = False, None
            self.dinfo.append(dict(n=len(cls.get_fields()), assoc=assoc, rc=rci))
            return f"q{i}/{len(cls.get_fields())}/{int(assoc)}/{rci if assoc else '-'}"
        if c[0] == "dupd":
            try:
                inst = self.dns[c[1]]()
                inst.update(**{field_name(self.dns[c[1]], i): v for i, v in c[2]})
                return "u/" + ",".join(f"{i}={getattr(inst, field_name(self.dns[c[1]], i))}" for i, _ in c[2])
            except Exception as e:  # noqa: BLE001
                return err_str(e)
        return "harness-bad-op"


def dreplay(k, cmds, with_oracle=True):
    try:
        return _dreplay(k, cmds, with_oracle)
    finally:
        _NAME_POOL.clear()


def _dreplay(k, cmds, with_oracle=True):
    w = DWorld(k)
    out, problems = [], []
    for n, c in enumerate(cmds):
        if c[0] == "d":
            args_before = [r.Args for r in w.render]
            r = w.exec(c)
            out.append(r)
            if not with_oracle:
                continue
            base = w.info[c[1][0]]
            rc = c[3]
            must = None
            if any(a is None for a in c[2]):
                must = "RenderArgsError"  # a field without a default
            elif len(c[1]) > 1:
                must = "RenderArgsDataError"  # multiple bases
            elif rc is not None and base["assoc"]:
                must = "RenderArgsDataError"  # re-association
            elif rc is not None and rc < len(w.render) and c[2] and not base["fields"] and args_before[rc] is not None:
                must = "RenderArgsError"  # the render class already has a namespace class
            if must and r != "E:" + must:
                problems.append((f"define/{must}", f"def #{n} {c}: must be rejected with {must}, got {r}"))
            if r.startswith("E:"):
                if [x.Args for x in w.render] != args_before:
                    problems.append(("define/side-effect", f"def #{n} {c}: rejected but `Args` of a render class changed"))
            else:
                cls = w.ns[-1]
                if rc is not None:
                    want = tuple(c[2])
                    if tuple(cls.get_fields().values()) != want or w.render[rc].Args is not cls \
                            or tuple(w.render[rc]._ALL_DEFAULT_ARGS[w.render[rc]].as_dict().values()) != want:
                        problems.append(("define/assoc", f"def #{n} {c}: association did not take"))
        elif c[0] == "dd":
            data_before = [r._Data_ for r in w.render]
            base = w.dinfo[c[1][0]]
            r = w.exec(c)
            out.append(r)
            if not with_oracle:
                continue
            rc = c[3]
            must = None
            if len(c[1]) > 1:
                must = "RenderArgsDataError"
            elif rc is not None and base["assoc"]:
                must = "RenderArgsDataError"
            elif rc is not None and rc < len(w.render) and c[2] and not base["n"] and data_before[rc] is not None:
                must = "RenderDataError"
            if must and r != "E:" + must:
                problems.append((f"define-data/{must}", f"def #{n} {c}: must be rejected with {must}, got {r}"))
            if r.startswith("E:") and [x._Data_ for x in w.render] != data_before:
                problems.append(("define-data/side-effect", f"def #{n} {c}: rejected but `_Data_` changed"))
            if not r.startswith("E:") and rc is not None and w.render[rc]._Data_ is not w.dns[-1]:
                problems.append(("define-data/assoc", f"def #{n} {c}: association did not take"))
        elif c[0] == "dupd":
            r = w.exec(c)
            out.append(r)
            if not with_oracle:
                continue
            info = w.dinfo[c[1]]
            if not info["assoc"]:
                if r != "E:UnassociatedNamespaceError":
                    problems.append(("data/unassociated", f"#{n} {c}: got {r}"))
            elif any(f[0] >= info["n"] for f in c[2]) and r != "E:UnknownDataFieldError":
                problems.append(("data/unknown-field", f"#{n} {c}: unknown data field accepted: {r}"))
        else:
            r = w.exec(c)
            out.append(r)
            if not with_oracle:
                continue
            info = w.info[c[1]]
            nf = len(info["fields"])
            if info["assoc"] and len(c[2]) <= nf and any(f[0] >= nf for f in c[3]) and r != "E:UnknownArgsFieldError":
                problems.append(("inst/unknown-field", f"inst #{n} {c}: unknown field accepted: {r}"))
            if not info["assoc"] and r != "E:UnassociatedNamespaceError":
                problems.append(("inst/unassociated", f"inst #{n} {c}: got {r}"))
            if info["assoc"] and len(c[2]) <= nf and all(len(c[2]) <= f[0] < nf for f in c[3]):
                vals = list(c[2]) + list(info["fields"][len(c[2]):])
                for f in c[3]:
                    vals[f[0]] = f[1]
                if r != f"n/{info['rc']}:{ints(vals)}":
                    problems.append(("inst/value", f"inst #{n} {c}: got {r}, expected {vals}"))
    return out, problems


# --------------------------------------------------------------------------------------
# generator


class Gen:
    """Generates a history while running it on the real code (to know which objects exist)."""

    def __init__(self, rng: random.Random):
        self.rng = rng
        self.w = World()
        self.cmds = []
        self.kinds = set()

    def emit(self, c):
        self.cmds.append(c)
        return self.w.exec(c)

    def val(self):
        if self.rng.random() < 0.08:  # an unhashable object (list, dict, set, bytearray)
            return self.rng.choice(["L0", "L0", "L1", "D0", "D1", "S0", "S1", "Y0", "Y1"])
        if self.rng.random() < 0.15:  # ==-equal to an int but of another type
            return self.rng.choice(["b0", "b1", "f0", "f1", "f2"])
        return self.rng.choice([0, 0, 0, 1, 1, 2, -1])

    def retype(self, v):
        """a value equal (==) to the int v, possibly of another type"""
        return self.rng.choice([v, f"b{v}" if v in (0, 1) else v, f"f{v}"])

    def def_class(self):
        rng = self.rng
        parent = rng.randrange(len(self.w.classes)) if rng.random() < 0.5 else len(self.w.classes) - 1
        args = None
        if rng.random() < 0.65:
            args = [rng.choice([0, 0, 1]) for _ in range(rng.choice([1, 1, 2, 3]))]
        mix = 0
        if rng.random() < 0.4:  # non-render mix-ins before and/or after the render base
            mix = rng.choice([1, 1, 2, 3, 4, 6, 5]) + 9 * rng.choice([0, 0, 1, 2])
        self.emit(["dc", parent, args, mix])

    def def_sub(self):
        """class Sub(<some class of a namespace-class family>): pass"""
        wa = self.with_args()
        if wa:
            ci = self.rng.choice(wa)
            fam = self.w.nssub[ci]
            self.emit(["ds", ci, self.rng.randrange(len(fam)), len(fam)])

    def with_args(self):
        return [ci for ci in range(len(self.w.classes)) if self.w.defaults[ci] is not None]

    def rand_ns(self, among=None, default_bias=0.4):
        rng = self.rng
        cands = among if among else self.with_args()
        if not cands:
            return None
        ci = rng.choice(cands)
        d = self.w.defaults[ci]
        fam = self.w.nssub[ci]
        tag = rng.randrange(len(fam)) if rng.random() < 0.6 else 0  # an instance of a subclass of the namespace class
        if rng.random() < default_bias:  # equal to the class default (same values, or ==-equal ones)
            return [ci, [self.retype(dv) for dv in d] if rng.random() < 0.35 else list(d), tag]
        return [ci, [self.val() if rng.random() < 0.7 else dv for dv in d], tag]

    def related(self, ci, how):
        """class indices related to ci: 'anc' (incl. self), 'desc' (incl. self), 'unrel'"""
        w = self.w
        if how == "anc":
            return w.anc(ci)
        if how == "desc":
            return [k for k in range(len(w.classes)) if ci in w.anc(k)]
        return [k for k in range(len(w.classes)) if ci not in w.anc(k) and k not in w.anc(ci)]

    def pick_cls(self, ci, probs=(0.5, 0.3, 0.2), want_args=0.0):
        how = self.rng.choices(["anc", "desc", "unrel"], probs)[0]
        c = self.related(ci, how)
        if c and self.rng.random() < want_args:
            c = [k for k in c if self.w.defaults[k] is not None] or c
        return self.rng.choice(c) if c else self.rng.randrange(len(self.w.classes))

    def ns_list(self, rc, n, bad=0.12):
        """mostly namespaces compatible with rc (several for the same class), sometimes one that is not"""
        anc_args = [k for k in self.w.anc(rc) if self.w.defaults[k] is not None]
        out = []
        for _ in range(n):
            ns = self.rand_ns(None if (self.rng.random() < bad or not anc_args) else anc_args)
            if ns is not None:
                out.append(ns)
        return out

    def fields_for(self, ci, unknown=0.12):
        rng = self.rng
        d = self.w.defaults[ci]
        nf = len(d) if d is not None else 1
        k = rng.choice([0, 1, 1, 2])
        idxs = rng.sample(range(nf), min(k, nf))
        if rng.random() < unknown:  # one unknown name (see field_name), alone or next to known ones
            nscls = self.w.nscls.get(ci)
            bad = nf + (rng.randrange(n_unknown_names(nscls)) if nscls is not None else 0)
            idxs = idxs[: rng.choice([0, 1])] + [bad]
            rng.shuffle(idxs)
        return [[i, self.val()] for i in idxs]

    def op(self):
        rng, w = self.rng, self.w
        nobj, ncls = len(w.objs), len(w.classes)
        kind = rng.choices(
            ["mk-default", "mk-init-only", "mk-ns", "mk-init-ns", "upn", "upc", "cv", "or-nn", "or-nr", "ror", "pos", "tra",
             "eq", "hash", "has", "get", "nsi", "nsu", "nseq", "nshash", "attr", "seta", "dela", "gett"],
            [10, 14, 10, 12, 7, 7, 8, 5, 6, 5, 3, 3, 4, 2, 3, 4, 2, 2, 2, 1, 1.5, 0.7, 0.7, 0.6])[0]
        self.kinds.add(kind)
        if kind == "mk-default":
            return self.emit(["mk", rng.randrange(ncls), None, []])
        if kind == "mk-init-only":
            i = rng.randrange(nobj)
            rc = self.pick_cls(w.idx(w.objs[i].render_cls), (0.15, 0.7, 0.15))
            return self.emit(["mk", rc, i, []])
        if kind == "mk-ns":
            rc = rng.randrange(ncls)
            return self.emit(["mk", rc, None, self.ns_list(rc, rng.choice([1, 1, 2, 3, 4]))])
        if kind == "mk-init-ns":
            i = rng.randrange(nobj)
            rc = self.pick_cls(w.idx(w.objs[i].render_cls), (0.1, 0.8, 0.1))
            return self.emit(["mk", rc, i, self.ns_list(rc, rng.choice([1, 1, 2, 3]))])
        if kind == "upn":
            i = rng.randrange(nobj)
            rc = w.idx(w.objs[i].render_cls)
            nss = self.ns_list(rc, rng.choice([1, 1, 2, 3]))
            if not nss:
                return self.emit(["mk", rc, i, []])
            fields = [[0, 1]] if rng.random() < 0.05 else []
            return self.emit(["upn", i, nss[0], nss[1:], fields])
        if kind == "upc":
            i = rng.randrange(nobj)
            rc = w.idx(w.objs[i].render_cls)
            k = self.pick_cls(rc, (0.8, 0.1, 0.1), 0.7)
            extra = self.ns_list(rc, 1) if rng.random() < 0.05 else []
            return self.emit(["upc", i, k, extra, self.fields_for(k)])
        if kind == "cv":
            i = rng.randrange(nobj)
            return self.emit(["cv", i, self.pick_cls(w.idx(w.objs[i].render_cls), (0.4, 0.45, 0.15))])
        if kind in ("or-nn", "ror") and (kind == "or-nn" or rng.random() < 0.5):
            a = self.rand_ns()
            if a is None:
                return self.emit(["mk", rng.randrange(ncls), None, []])
            k = self.pick_cls(a[0], (0.5, 0.35, 0.15))
            b = self.rand_ns([k] if w.defaults[k] is not None else None)
            return self.emit(["or" if kind == "or-nn" else "ror", a, ["n", b]])
        if kind in ("or-nr", "ror"):
            a = self.rand_ns()
            if a is None:
                return self.emit(["mk", rng.randrange(ncls), None, []])
            return self.emit(["or" if kind == "or-nr" else "ror", a, ["r", rng.randrange(nobj)]])
        if kind == "pos":
            a = self.rand_ns()
            return self.emit(["pos", a]) if a else None
        if kind == "tra":
            a = self.rand_ns()
            if a is None:
                return None
            rc = None if rng.random() < 0.3 else self.pick_cls(a[0], (0.15, 0.7, 0.15))
            return self.emit(["tra", a, rc])
        if kind == "eq":
            return self.emit(["eq", rng.randrange(nobj), rng.randrange(nobj)])
        if kind == "hash":
            return self.emit(["hash", rng.randrange(nobj)])
        if kind == "has":
            i = rng.randrange(nobj)
            v = w.value(w.objs[i])
            if v[1] and rng.random() < 0.6:
                k, vs = rng.choice(v[1])
                ns = [k, [tag_of_value(x) for x in vs]]
                if rng.random() < 0.3:
                    j = rng.randrange(len(ns[1]))
                    ns[1][j] = im(ns[1][j]) % 1000 + 1
            else:
                ns = self.rand_ns()
            return self.emit(["has", i, ns]) if ns else None
        if kind == "get":
            i = rng.randrange(nobj)
            return self.emit(["get", i, self.pick_cls(w.idx(w.objs[i].render_cls), (0.7, 0.15, 0.15), 0.5)])
        if kind == "nsi":
            wa = self.with_args()
            if not wa:
                return None
            ci = rng.choice(wa)
            nf = len(w.defaults[ci])
            nv = rng.choice([0, 0, 1, nf, nf, nf + 1])
            nv = min(nv, nf + 1)
            fields = self.fields_for(ci, 0.2)
            return self.emit(["nsi", ci, [self.val() for _ in range(nv)], fields, rng.randrange(len(w.nssub[ci]))])
        if kind == "nsu":
            a = self.rand_ns()
            return self.emit(["nsu", a, self.fields_for(a[0], 0.2)]) if a else None
        if kind == "nseq":
            a = self.rand_ns()
            if a is None:
                return None
            if rng.random() < 0.7:  # same class, same or nearly the same values, any subclass
                b = [a[0], [(x if unhashable(x) else self.retype(im(x))) if rng.random() < 0.8 else self.val() for x in a[1]],
                     rng.randrange(len(w.nssub[a[0]]))]
            else:
                b = self.rand_ns()
            return self.emit(["nseq", a, b])
        if kind == "nshash":
            a = self.rand_ns()
            return self.emit(["nshash", a]) if a else None
        if kind in ("attr", "seta", "dela"):
            a = self.rand_ns()
            if a is None:
                return None
            idx = rng.randrange(len(a[1]) + 3)
            return self.emit([kind, a, idx] + ([self.val()] if kind == "seta" else []))
        if kind == "gett":
            return self.emit(["gett", rng.randrange(nobj), rng.randrange(3)])

    def history(self, nops):
        rng = self.rng
        for _ in range(rng.choice([1, 2, 3, 3, 4, 5, 6])):
            self.def_class()
        for _ in range(rng.choice([0, 1, 1, 2, 3])):
            self.def_sub()
        for _ in range(nops):
            x = rng.random()
            if x < 0.04:
                self.def_class()
            elif x < 0.06:
                self.def_sub()
            else:
                self.op()
        self.w.cleanup()
        return self.cmds


def exhaustive_histories():
    """Renderable <- A(1 field) <- B(no args) <- C(1 field), X(1 field) beside them; three different
    pasts (nothing interned / all defaults interned / default-valued but not shared objects around);
    then every constructor call over (class, init in every object, up to two namespaces out of five)
    and every convert / update / | on every object."""
    # A(Renderable, Mixin); B(Mixin, A); C(Mixin(MBase), B, Mixin(MBase)); X(Mixin, Mixin, Renderable)
    forest = [["dc", 0, [0], 3], ["dc", 1, None, 1], ["dc", 2, [0], 13], ["dc", 0, [0], 2], ["ds", 1, 0, 1], ["ds", 1, 1, 2]]
    A0, A1, C0, C1, X0 = [1, [0]], [1, [1]], [3, [0]], [3, [1]], [4, [0]]
    AL, CD = [1, ["L0"]], [3, ["D1"]]   # unhashable field values
    pasts = [
        [],
        [["mk", 3, None, [AL, CD]], ["mk", 2, None, [[1, ["S1"]]]], ["mk", 3, None, [AL]], ["mk", 3, None, [CD]],
         ["mk", 1, None, [[1, ["Y0"]]]], ["hash", 1], ["hash", 4], ["eq", 1, 3]],
        [["mk", 1, None, []], ["mk", 2, None, []], ["mk", 3, None, []], ["mk", 4, None, []]],
        [["mk", 1, None, [A0]], ["mk", 3, None, [A1]], ["mk", 3, None, []], ["mk", 3, 1, [C0]], ["mk", 2, None, [A0]]],
        [["mk", 3, None, [C1, A1]], ["mk", 1, None, []], ["cv", 1, 1], ["cv", 1, 2], ["mk", 2, 0, []]],
    ]
    A0b, A0f, C0b = [1, ["b0"]], [1, ["f0"]], [3, ["b0"]]   # == the defaults, other types
    A0s, A1s, A0ss = [1, [0], 1], [1, [1], 1], [1, [0], 2]  # instances of Sub(A.Args) and SubSub(Sub)
    nsl = [A0, A1, C0, C1, X0, A0b, A0f, C0b, A0s, A1s, A0ss, AL]
    lists = [[]] + [[a] for a in nsl] + [[a, b] for a in nsl for b in nsl]
    for past in pasts:
        pre = forest + past
        w = World()
        try:
            for c in pre:
                w.exec(c)
            nobj = len(w.objs)
        finally:
            w.cleanup()
        for rc in (1, 2, 3, 4):
            for init in [None] + list(range(nobj)):
                for nss in lists:
                    yield pre + [["mk", rc, init, nss], ["mk", rc, None, []]]
        for i in range(nobj):
            for rc in (0, 1, 2, 3, 4):
                yield pre + [["cv", i, rc], ["mk", rc, None, []]]
                yield pre + [["upc", i, rc, [], [[0, 0]]], ["upc", i, rc, [], [[0, 1]]], ["upc", i, rc, [], []]]
            for a in nsl:
                yield pre + [["or", a, ["r", i]], ["ror", a, ["r", i]], ["upn", i, a, [], []]]
        for a in nsl:
            for b in nsl:
                yield pre + [["or", a, ["n", b]], ["ror", a, ["n", b]]]
            yield pre + [["pos", a], ["tra", a, 3], ["mk", a[0], None, []]]
            yield pre + [["nseq", a, b] for b in nsl] + [["nshash", a], ["attr", a, 0], ["attr", a, 1], ["attr", a, 2],
                                                         ["seta", a, 0, 5], ["seta", a, 1, 5], ["dela", a, 0], ["dela", a, 2]]
        yield pre + [["gett", i, k] for i in range(nobj) for k in range(3)]
    # every unknown keyword name (incl. every non-field attribute of the namespace class), one per command
    pre = forest + pasts[2]
    w = World()
    try:
        for c in pre:
            w.exec(c)
        nu = n_unknown_names(w.nscls[1])
    finally:
        w.cleanup()
    yield pre + [["upc", 1, 1, [], [[1 + j, 1]]] for j in range(nu)]
    yield pre + [["upc", 3, 1, [], [[0, 1], [1 + j, 1]]] for j in range(nu)]
    yield pre + [["nsu", A1, [[1 + j, 2]]] for j in range(nu)] + [["nsu", A1, [[1 + j, 2], [0, 0]]] for j in range(nu)]
    yield pre + [["nsi", 1, [], [[1 + j, 2]]] for j in range(nu)] + [["nsi", 3, [], [[0, 5], [1 + j, 2]]] for j in range(nu)]


def gen_def(rng: random.Random):
    k = rng.choice([1, 2, 3])
    w = DWorld(k)
    cmds = []
    for _ in range(rng.choice([3, 5, 8, 12])):
        kind = rng.random()
        if kind < 0.25:
            nb = rng.choices([1, 2], [0.9, 0.1])[0]
            bases = [rng.randrange(len(w.dns)) if rng.random() < 0.6 else 0 for _ in range(nb)]
            nfl = rng.choice([0, 0, 1, 2])
            rc = None
            if rng.random() < (0.75 if nfl else 0.25):
                rc = rng.randrange(k) if rng.random() < 0.93 else k + 5
            c = ["dd", bases, nfl, rc]
        elif kind < 0.35:
            assoc = [j for j, d in enumerate(w.dinfo) if d["assoc"]]
            i = rng.choice(assoc) if assoc and rng.random() < 0.8 else rng.randrange(len(w.dns))
            nfl = w.dinfo[i]["n"]
            fs = rng.sample(range(nfl), min(nfl, rng.choice([0, 1, 1, 2])))
            if rng.random() < 0.4:
                fs.append(nfl + rng.randrange(n_unknown_names(w.dns[i])))
            c = ["dupd", i, [[j, rng.choice([3, 4])] for j in fs]]
        elif rng.random() < 0.7 or len(w.ns) == 1:
            nb = rng.choices([1, 2, 3], [0.85, 0.1, 0.05])[0]
            bases = [rng.randrange(len(w.ns)) if rng.random() < 0.6 else 0 for _ in range(nb)]
            na = rng.choice([0, 0, 1, 2, 3])
            annot = [None if rng.random() < 0.08 else rng.choice([0, 1, 2]) for _ in range(na)]
            rc = None
            if rng.random() < (0.75 if na else 0.25):
                rc = rng.randrange(k) if rng.random() < 0.93 else k + 5
            c = ["d", bases, annot, rc]
        else:
            assoc = [j for j, d in enumerate(w.info) if d["assoc"]]
            i = rng.choice(assoc) if assoc and rng.random() < 0.8 else rng.randrange(len(w.ns))
            nf = len(w.info[i]["fields"])
            nv = min(rng.choice([0, 0, 1, nf, nf + 1]), nf + 1)
            fs = rng.sample(range(nf), min(nf, rng.choice([0, 0, 1, 2])))
            if rng.random() < 0.35:
                fs.append(nf + rng.randrange(n_unknown_names(w.ns[i])))
            c = ["inst", i, [rng.choice([0, 1, 5]) for _ in range(nv)], [[j, rng.choice([3, 4])] for j in fs]]
        cmds.append(c)
        w.exec(c)
    _NAME_POOL.clear()
    return k, cmds


# --------------------------------------------------------------------------------------


def metaclass_probes():
    """the remaining documented rejections of the metaclasses, stated directly on the real code (they have
    no counterpart in the Lean model): a namespace class whose constructor has a required parameter, a
    render class that does not derive from `Renderable`; and a `_base=True` namespace base class stays
    field-less and unassociated"""
    out = []
    _ctr[0] += 1
    cls = type(f"P{_ctr[0]}", (Renderable,), _body())

    def init(self, x):
        pass

    for meth in ("__init__", "__new__"):
        try:
            ArgsNamespaceMeta(f"PA{_ctr[0]}", (ArgsNamespace,), {"__annotations__": {"f0": int}, "f0": 1, meth: init},
                              render_cls=cls)
            out.append(Failure(f"define/required-parameter/{meth}",
                               f"a namespace class whose {meth} has a required parameter was accepted"))
        except TypeError:
            pass
        except Exception as e:  # noqa: BLE001
            if cls.Args is not None:
                out.append(Failure(f"define/required-parameter/{meth}", f"{type(e).__name__} but `Args` was set"))
    if cls.Args is not None:
        out.append(Failure("define/required-parameter/side-effect", "a rejected namespace class became `Args`"))
    try:
        T.RenderableMeta(f"PN{_ctr[0]}", (object,), {})
        out.append(Failure("define/not-renderable", "a render class that is not a subclass of Renderable was accepted"))
    except R.RenderableError:
        pass
    base = type(T.ArgsDataNamespace)(f"PB{_ctr[0]}", (T.ArgsDataNamespace,), {}, _base=True)
    if base.__slots__ != () or base._associated or base._FIELDS:
        out.append(Failure("define/base", "a `_base=True` namespace base class has slots / fields / an association"))
    return out


def pack(d):
    """case data is kept as one JSON string: thousands of nested lists would make every garbage collection
    (needed to let the classes of finished histories die) scan the whole run"""
    return json.dumps(d)


def unpack(d):
    return json.loads(d) if isinstance(d, str) else d


def lean_str(s: str) -> str:
    return '"' + s.replace("\\", "\\\\").replace('"', '\\"') + '"'


class C16(Property):
    id = "C16"
    lean_props = ["TIV.C16.Props"]
    driver = "drv_c16"
    partial = ""
    assumptions = [
        "namespace classes are associated right after their render class is created (before it is subclassed or used), "
        "as the documentation requires",
        "field values are integers (hashable, reflexive ==)",
        "RenderArgs itself, not subclasses of RenderArgs (each has its own interning table)",
    ]
    quick_cases = 6000
    thorough_cases = 45000

    def __init__(self):
        self._problems: dict[str, list] = {}
        self._ops: dict[str, int] = {}

    def _count(self, cmds, out, first_obj=1):
        """histogram of per-operation outcomes (incl. the aliasing pattern: shared vs. fresh result)"""
        seen = first_obj
        for c, r in zip(cmds, out):
            if r.startswith("r"):
                i = int(r[1:].split("/", 1)[0])
                k = f"{c[0]}:fresh" if i >= seen else f"{c[0]}:existing-object"
                seen = max(seen, i + 1)
            elif r.startswith("E:"):
                k = f"{c[0]}:{r[2:]}"
            else:
                k = f"{c[0]}:{r[:1]}"
            self._ops[k] = self._ops.get(k, 0) + 1

    def extra_checks(self, rng, tier, ev):
        ev["coverage"]["op_outcomes"] = dict(sorted(self._ops.items()))
        return metaclass_probes()

    def gen_constants(self):
        # the state right after `import term_image.renderable`, read from the live objects
        base = T.BASE_RENDER_ARGS
        assert base.render_cls is Renderable
        args = Renderable.Args
        ada = Renderable._ALL_DEFAULT_ARGS
        mro = [c for c in Renderable.__mro__ if isinstance(c, T.RenderableMeta)]
        assert mro == [Renderable]
        lean_args = "none" if args is None else "some [" + ", ".join(str(int(v)) for v in args.get_fields().values()) + "]"
        lean_ada = "[" + ", ".join(
            f"(0, ⟨0, [{', '.join(str(int(v)) for v in ns.as_dict().values())}], 0⟩)" for _, ns in ada.items()) + "]"
        base_nss = "[" + ", ".join(
            f"(0, ⟨0, [{', '.join(str(int(v)) for v in ns.as_dict().values())}], 0⟩)" for ns in base) + "]"
        interned = [(k, v) for k, v in RenderArgs._interned.items() if k is Renderable]
        lean_interned = "[" + ", ".join("(0, 0)" for k, v in interned if v is base) + "]"
        import builtins

        names = [n for n in ERR_NAMES if isinstance(getattr(R, n, None) or getattr(builtins, n, None), type)]
        sub = []
        for a, b in [("IncompatibleRenderArgsError", "RenderArgsError"), ("IncompatibleArgsNamespaceError", "RenderArgsError"),
                     ("NoArgsNamespaceError", "RenderArgsError"), ("UnknownArgsFieldError", "RenderArgsError"),
                     ("RenderArgsError", "RenderArgsDataError"), ("UnassociatedNamespaceError", "RenderArgsDataError"),
                     ("RenderDataError", "RenderArgsDataError"), ("UnknownDataFieldError", "RenderDataError")]:
            if issubclass(getattr(R, a), getattr(R, b)):
                sub.append((a, b))
        body = (
            "import TIV.C16.Model\n"
            "/-! GENERATED by harness/c16.py from the imported package — do not edit -/\n"
            "namespace TIV.C16.Generated\n"
            "open TIV.C16\n"
            f"/-- `Renderable`: its render-class ancestors, `Args`, `_ALL_DEFAULT_ARGS` -/\n"
            f"def renderable : ClassRec := ⟨[0], {lean_args}, {lean_ada}⟩\n"
            f"/-- `BASE_RENDER_ARGS` -/\n"
            f"def baseRenderArgs : Obj := ⟨0, {base_nss}⟩\n"
            f"/-- `RenderArgs._interned` restricted to `Renderable` -/\n"
            f"def interned : List (Cls × Nat) := {lean_interned}\n"
            f"def slots : List String := [{', '.join(lean_str(s) for s in T.RenderArgsData.__slots__ + tuple(RenderArgs.__slots__))}]\n"
            f"def errNames : List String := [{', '.join(lean_str(n) for n in names)}]\n"
            f"def errSubclass : List (String × String) := [{', '.join('(' + lean_str(a) + ', ' + lean_str(b) + ')' for a, b in sub)}]\n"
            "end TIV.C16.Generated\n"
        )
        return {"TIV/C16/Generated.lean": body}

    # -- generator --------------------------------------------------------------------
    def generate(self, rng: random.Random, tier: str):
        ex = [json.dumps(h) for h in exhaustive_histories()]  # strings: invisible to the garbage collector
        if tier == "quick":
            ex = ex[-4:] + rng.sample(ex[:-4], 700)
        for h in ex:
            cmds = json.loads(h)
            yield Case(run_line(cmds), pack({"cmds": cmds}), "exhaustive", True)
        while True:
            if rng.random() < 0.12:
                k, cmds = gen_def(rng)
                yield Case(def_line(k, cmds), pack({"k": k, "cmds": cmds}), "def", len(cmds) > 2)
                continue
            g = Gen(rng)
            cmds = g.history(rng.choice([6, 12, 20, 30, 45]))
            kind = "run-small" if len(cmds) < 15 else "run"
            yield Case(run_line(cmds), pack({"cmds": cmds}), kind, sum(1 for c in cmds if c[0] != "dc") >= 3)

    # -- implementation ---------------------------------------------------------------
    def impl(self, case: Case) -> str:
        d = unpack(case.data)
        if case.line.startswith("def "):
            out, problems = dreplay(d["k"], d["cmds"])
        else:
            out, problems = replay(d["cmds"])
        self._count(d["cmds"], out)
        self._problems[case.key()] = problems
        return "ok " + " | ".join(out)

    def oracle(self, case: Case, impl_result: str):
        problems = self._problems.pop(case.key(), None)
        if problems is None:
            d = unpack(case.data)
            _, problems = dreplay(d["k"], d["cmds"]) if case.line.startswith("def ") else replay(d["cmds"])
        if problems:
            key, what = problems[0]
            return Failure(key, what)
        return None

    def shrink(self, case, still_fails):
        return case

    def search(self, rng, tier, reasons):
        """fresh targeted search on the real code: small forests, many default-valued combinations"""
        out = []
        for n in range(3000 if tier == "quick" else 20000):
            g = Gen(rng)
            cmds = g.history(rng.choice([4, 8, 16]))
            _, problems = replay(cmds)
            if problems:
                cmds2, problems2 = shrink_history(cmds, problems[0][0])
                key, what = problems2[0]
                out.append(Failure(key, what, Case(run_line(cmds2), {"cmds": cmds2}, "search")))
                if len(out) >= 3:
                    break
        return out


def shrink_history(cmds, key):
    """drop single non-definition commands while the same oracle key still fires"""
    cur = list(cmds)
    _, problems = replay(cur)
    changed = True
    while changed and len(cur) > 1:
        changed = False
        for i in range(len(cur) - 1, -1, -1):
            if cur[i][0] in ("dc", "ds"):
                continue
            cand = cur[:i] + cur[i + 1:]
            try:
                ok = valid_refs(cand)
                if not ok:
                    continue
                _, p = replay(cand)
            except Exception:  # noqa: BLE001
                continue
            if any(k == key for k, _ in p):
                cur, problems, changed = cand, p, True
                break
    return cur, [p for p in problems if p[0] == key] or problems


def refs_of(c):
    refs = []
    if c[0] == "mk" and c[2] is not None:
        refs.append(c[2])
    if c[0] in ("upn", "upc", "cv", "hash", "has", "get", "gett"):
        refs.append(c[1])
    if c[0] == "eq":
        refs += [c[1], c[2]]
    if c[0] in ("or", "ror") and c[2][0] == "r":
        refs.append(c[2][1])
    return refs


def valid_refs(cmds):
    """object references must still exist after a deletion (results are numbered by first appearance)"""
    w = World()
    try:
        for c in cmds:
            refs = refs_of(c)
            if any(r >= len(w.objs) for r in refs):
                return False
            w.exec(c)
        return True
    finally:
        w.cleanup()


if __name__ == "__main__":
    fw.main(C16)
