#!/venv/bin/python
"""C05 — padding and alignment place the render exactly, inside exactly the padded size
(DESIGN.md §5 C05).

Correspondence ops (driver drv_c05, lean/TIV/C05/Drive.lean):
  dims / psize / toexact / resolve   the Padding API's arithmetic, error branches included
  pad / padl                         `Padding.pad` on the real bytes of a real inner render (block,
                                     kitty, iterm2, plain text), byte for byte
  render                             `Renderable.render(padding=…)` (resolve → get_padded_size → pad)
  chkfmt / format                    old API: `_check_formatting`, `_format_render`, `format(image, spec)`
Oracle: the real padded output is tokenised, run on the Lean terminal model (`term.run`) at several
positions, and compared cell by cell with the inner render run alone at the offset the documented
alignment rule dictates (computed here, independently of the library and of the Lean model).
"""
from __future__ import annotations

import inspect
import io
import json
import os
import random
import string
import sys

sys.path.insert(0, os.path.dirname(os.path.abspath(__file__)))
from common import framework as fw  # noqa: E402
from common.framework import Case, Failure, Property  # noqa: E402
from common import env  # noqa: E402
from common import tokenizer as tk  # noqa: E402
from common import lexcheck  # noqa: E402
from common.ctlgen import gen_ctl, lean_str  # noqa: E402
from common import imgkit  # noqa: E402

from c01 import C01  # noqa: E402  (the three real renderers, driven as in C01)

import term_image.padding as P  # noqa: E402
from term_image.geometry import Size  # noqa: E402
from term_image.image import BlockImage, ImageIterator, ITerm2Image, KittyImage, Size as ImgSize  # noqa: E402
from contextlib import redirect_stdout  # noqa: E402
from PIL import Image as PILImage  # noqa: E402
from term_image.padding import AlignedPadding, ExactPadding, HAlign, Padding, VAlign  # noqa: E402
from term_image.renderable import Frame, Renderable  # noqa: E402
import term_image.renderable._renderable as _rmod  # noqa: E402
import term_image.image.common as _cmod  # noqa: E402

KINDS = ["kitty", "konsole", "wezterm", "iterm2", "other"]
HA = {"L": "LEFT", "C": "CENTER", "R": "RIGHT"}
VA = {"T": "TOP", "M": "MIDDLE", "B": "BOTTOM"}
# the fill alphabet: '' and ' ', ordinary characters, and every kind of metacharacter a fill could meet on its way
# through string formatting (printf %, str.format braces, backslash, regex/template characters), multi-byte ones too.
# `Padding` accepts any string as fill (no validation); the property speaks of single-column fills.
META_FILLS = ["%", "{", "}", "\\", "$", "*", "█", "·"]
FILLS = {"gB": " ", "gC35": "#", "-": "", "gC46": ".", "gC9617": "░", **{f"gC{ord(c)}": c for c in META_FILLS}}
_c01 = C01()


def hx(b: bytes) -> str:
    return b.hex() if b else "-"


def sx(s: str) -> str:
    return hx(s.encode())


# terminal size seen by both APIs ------------------------------------------------------------
def set_term(tw: int, th: int) -> None:
    env.set_env(term_size=(tw, th))
    _rmod.get_terminal_size = env.get_terminal_size
    _cmod.get_terminal_size = env.get_terminal_size


# inner renders ------------------------------------------------------------------------------
_inner_cache: dict[str, dict] = {}


def xwire(toks) -> str:
    """tokens with the exact bytes of graphics commands (wire format of TIV.C05.Drive.pTokX)"""
    words = []
    for t in toks:
        if t.wire.startswith("K"):
            ctrl = t.info["control"]
            if not (ctrl.endswith(",m=0") or ctrl.endswith(",m=1")):
                raise tk.TokenizeError("kitty control data does not end with the m flag")
            c, r, z = t.wire[1:].split(",")
            ch = t.info["chunks"]
            words.append(f"KX {c} {r} {z} {sx(ctrl[:-4])} {len(ch)} " + " ".join(f"{int(m)} {sx(p)}" for m, p in ch))
        elif t.wire.startswith("I"):
            c, r, nm = t.wire[1:].split(",")
            words.append(f"IX {c} {r} {nm} {sx(t.info['control'])} {sx(t.info['payload'])}")
        else:
            words.append(t.wire)
    return " ".join([str(len(toks))] + words)


def inner_render(spec: dict) -> dict:
    """{'out', 'rw', 'rh', 'kind'} of the inner render described by `spec` (cached)"""
    key = json.dumps(spec, sort_keys=True)
    got = _inner_cache.get(key)
    if got is not None:
        return got
    if spec["style"] == "chars":
        rng = random.Random(spec["iseed"])
        rw, rh = spec["cols"], spec["lines"]
        lines = []
        for _ in range(rh):
            s = ""
            for _ in range(rw):
                if rng.random() < 0.3:
                    s += "\x1b[38;2;%d;%d;%dm" % tuple(rng.randrange(256) for _ in range(3))
                s += rng.choice("XYZ▀▄ ")
            lines.append(s + "\x1b[m")
        got = {"out": "\n".join(lines), "rw": rw, "rh": rh, "kind": "other"}
    else:
        d = dict(spec)
        out, _ = _c01._render(d)
        rw, rh = d["_size"]
        kind = d.get("term") or ("kitty" if d.get("kitty_term") else "other")
        got = {"out": out, "rw": rw, "rh": rh, "kind": kind}
    got["toks"] = tk.tokenize(got["out"])
    got["xwire"] = xwire(got["toks"])
    _inner_cache[key] = got
    return got


def random_inner_spec(rng: random.Random, big: bool) -> dict:
    style = rng.choice(["chars", "block", "block", "kitty", "kitty", "iterm2", "iterm2"])
    mx = 9 if big else 6
    if style == "chars":
        return {"style": style, "cols": rng.randrange(1, mx), "lines": rng.randrange(1, mx), "iseed": rng.randrange(1 << 20)}
    d = imgkit.random_image_spec(rng, 12)
    d["style"] = style
    d["cols"] = rng.randrange(1, mx)
    d["lines"] = rng.randrange(1, mx)
    d["alpha"] = rng.choice([None, 0.5, "#", "#102030"])
    d["bg"] = rng.choice([None, (0, 0, 0), (16, 32, 48)])
    if style == "block":
        d["kitty_term"] = rng.random() < 0.3
        d["split"] = rng.random() < 0.2
    else:
        d["cell"] = rng.choice([(1, 2), (2, 3), (5, 10)])
        d["method"] = rng.choice(["lines", "whole"] + (["anim"] if style == "iterm2" else []))
        d["mix"] = rng.random() < 0.4
        d["compress"] = rng.choice([0, 4])
        d["term"] = rng.choice(KINDS)
        if style == "kitty":
            d["blend"] = rng.random() < 0.6
            d["z"] = rng.choice([0, -1, 5])
        else:
            d["jpeg"] = -1
    return d


# paddings -----------------------------------------------------------------------------------
def padding_wire(p: dict) -> str:
    if p["t"] == "A":
        return f"A {p['w']} {p['h']} {p['ha']} {p['va']} {p['fill']}"
    return f"E {p['l']} {p['tp']} {p['r']} {p['b']} {p['fill']}"


def make_padding(p: dict) -> Padding:
    fill = FILLS[p["fill"]]
    if p["t"] == "A":
        return AlignedPadding(p["w"], p["h"], HAlign[HA[p["ha"]]], VAlign[VA[p["va"]]], fill)
    return ExactPadding(p["l"], p["tp"], p["r"], p["b"], fill)


def fmt_padding(p: Padding) -> str:
    inv = {v: k for k, v in FILLS.items()}
    if isinstance(p, AlignedPadding):
        return f"A {p.width} {p.height} {p.h_align.name[0]} {p.v_align.name[0]} {inv[p.fill]}"
    return f"E {p.left} {p.top} {p.right} {p.bottom} {inv[p.fill]}"


def random_padding(rng: random.Random, rw: int, rh: int, tw: int, th: int) -> dict:
    fill = rng.choice(["gB", "gB", "gC35", "-", "-", "gC46", "gC9617"] + [f"gC{ord(c)}" for c in META_FILLS])
    if rng.random() < 0.6:
        def dim(r, term):
            return rng.choice([r - 1, r, r + 1, r + 2, r + 3, rng.randrange(-3, 9), 0, -1, -term, 1 - term,
                               rng.randrange(1, 13)])
        return {"t": "A", "w": dim(rw, tw), "h": dim(rh, th), "ha": rng.choice("LCR"), "va": rng.choice("TMB"), "fill": fill}
    d = {"t": "E", "fill": fill}
    for k in ("l", "tp", "r", "b"):
        d[k] = rng.choice([0, 0, 1, 2, 3])
    if rng.random() < 0.08:
        d[rng.choice(["l", "tp", "r", "b"])] = rng.choice([-1, -2])
    return d


# independent statement of what the padding dimensions must be (the documented rule) ----------
def want_dims(p: dict, rw: int, rh: int, tw: int | None = None, th: int | None = None):
    """(left, top, right, bottom) per the documentation, or None when an error is documented"""
    if p["t"] == "E":
        if min(p["l"], p["tp"], p["r"], p["b"]) < 0:
            return None
        return p["l"], p["tp"], p["r"], p["b"]
    w, h = p["w"], p["h"]
    if w <= 0 or h <= 0:
        if tw is None:
            return None
        w = w if w > 0 else max(tw + w, 1)
        h = h if h > 0 else max(th + h, 1)
    pw, ph = max(w, rw) - rw, max(h, rh) - rh
    left = {"L": 0, "C": pw // 2, "R": pw}[p["ha"]]
    top = {"T": 0, "M": ph // 2, "B": ph}[p["va"]]
    return left, top, pw - left, ph - top


def exc_name(e: BaseException) -> str:
    return "err " + type(e).__name__



# the old image API with a changing size ------------------------------------------------------
_gif_cache: dict[str, bytes] = {}
SIZE_ACTS = ["set_w", "set_h", "width", "height", "dynamic", "term", None, None]


def source_image(spec: dict, nframes: int):
    """a deterministic PIL image; an animated GIF for nframes > 1"""
    if nframes <= 1:
        return imgkit.make_image(spec)
    key = json.dumps([spec.get(k) for k in ("w", "h", "pattern", "iseed")] + [nframes])
    data = _gif_cache.get(key)
    if data is None:
        frames = [imgkit.make_image({**spec, "mode": "RGB", "pattern": "random", "iseed": spec["iseed"] + 7919 * i})
                  for i in range(nframes)]
        buf = io.BytesIO()
        frames[0].save(buf, "GIF", save_all=True, append_images=frames[1:], duration=100, loop=0)
        data = _gif_cache[key] = buf.getvalue()
    return PILImage.open(io.BytesIO(data))


def random_size_act(rng: random.Random):
    a = rng.choice(SIZE_ACTS)
    if a is None:
        return None
    if a == "dynamic":
        return ["dynamic", rng.choice(["FIT", "FIT", "FIT_TO_WIDTH", "AUTO", "ORIGINAL"])]
    if a == "term":
        return ["term", rng.randrange(1, 13), rng.randrange(1, 13)]
    return [a, rng.randrange(1, 9)]


def apply_size_act(im, act) -> None:
    """change the image size the way a user does; an invalid request leaves the size as it was"""
    if not act:
        return
    try:
        if act[0] == "set_w":
            im.set_size(width=act[1])
        elif act[0] == "set_h":
            im.set_size(height=act[1])
        elif act[0] == "width":
            im.width = act[1]
        elif act[0] == "height":
            im.height = act[1]
        elif act[0] == "dynamic":
            im.size = ImgSize[act[1]]
        elif act[0] == "term":
            set_term(act[1], act[2])
    except Exception:
        pass


def spec_string(d: dict) -> str:
    """`[h_align][width][.[v_align][height]]` for a case in 'spec' mode"""
    spec = (d["h"] or "") + ("" if d["w"] is None else str(d["w"]))
    if d["v"] is not None or d["ht"] is not None:
        spec += "." + (d["v"] or "") + ("" if d["ht"] is None else str(d["ht"]))
    return spec


class Dummy(Renderable):
    """a renderable whose frame is a given render output"""

    def __init__(self, out: str, size: Size):
        super().__init__(1, 1)
        self._out, self._size = out, size

    def _get_render_size_(self):
        return self._size

    def _render_(self, render_data, render_args):
        return Frame(0, 1, self._size, self._out)


PYARGS_H = ["<", "|", ">", "left", "center", "right", None, "", "x", "<|", "top", "^", "Left", 5]
PYARGS_V = ["^", "-", "_", "top", "middle", "bottom", None, "", "x", "^-", "left", "<", "TOP", 2.5]


def pyarg_wire(v) -> str:
    if v is None:
        return "none"
    if isinstance(v, str):
        return "str " + sx(v)
    return "other"


def optint_wire(v) -> str:
    return f"some {v}" if isinstance(v, int) else "none"


from common.py2lean_specs import with_translation  # noqa: E402


@with_translation
class C05(Property):
    id = "C05"
    lean_props = ["TIV.C05.Props", "TIV.Common.LexProofs"]
    driver = "drv_c05"
    partial = ("that real terminals behave like TIV.Common.Term; that the fill string occupies exactly one column "
               "(the library does not check it); Renderable.draw()'s and the image iterators' use of pad is exercised "
               "only through Renderable.render() and _format_render")
    quick_cases = 4000
    thorough_cases = 70000
    needs_impl_first = True

    def __init__(self):
        self._seen: list = []
        self._cache: dict = {}
        self._collect: list = []
        self._collecting = False
        self._prefetched = False
        self._side: dict = {}
        self._outs: dict = {}  # every real output the oracle looked at (cross-checked in extra_checks)
        self._lean_wire: dict = {}  # output -> what the Lean lexer read

    # -- translator ---------------------------------------------------------------------
    def gen_constants(self):
        files = gen_ctl()
        ratios = P._ALIGN_RATIOS
        cf = BlockImage._check_formatting

        def probe_names(kw, words):
            out = []
            for wd in words:
                try:
                    r = cf(**{kw: wd})
                except Exception:
                    continue
                sym = r[0] if kw == "h_align" else r[2]
                if sym != wd:
                    out.append((wd, sym))
            return sorted(out)

        def probe_symbols(kw):
            out = []
            for ch in string.printable:
                try:
                    r = cf(**{kw: ch})
                except Exception:
                    continue
                if (r[0] if kw == "h_align" else r[2]) == ch:
                    out.append(ch)
            return sorted(out)

        words = ["left", "center", "right", "top", "middle", "bottom", "centre", "mid", "start", "end", "<", "|", ">",
                 "^", "-", "_", "LEFT", "Top"]
        sig = inspect.signature(cf)
        pairs = lambda xs: "[" + ", ".join(f"({lean_str(a)}, {lean_str(b)})" for a, b in xs) + "]"  # noqa: E731
        body = (
            "/-! GENERATED by harness/c05.py from the imported package — do not edit -/\n"
            "namespace TIV.C05.Generated\n"
            f"def alignRatios : List (Nat × Nat) := [{', '.join(f'({int(a)}, {int(b)})' for a, b in ratios)}]\n"
            f"def hAlignValues : List (String × Nat) := [{', '.join(f'({lean_str(m.name)}, {int(m)})' for m in HAlign)}]\n"
            f"def vAlignValues : List (String × Nat) := [{', '.join(f'({lean_str(m.name)}, {int(m)})' for m in VAlign)}]\n"
            f"def hAlignNames : List (String × String) := {pairs(probe_names('h_align', words))}\n"
            f"def vAlignNames : List (String × String) := {pairs(probe_names('v_align', words))}\n"
            f"def hAlignSymbols : List String := [{', '.join(lean_str(c) for c in probe_symbols('h_align'))}]\n"
            f"def vAlignSymbols : List String := [{', '.join(lean_str(c) for c in probe_symbols('v_align'))}]\n"
            f"def defaultFill : String := {lean_str(inspect.signature(Padding.__init__).parameters['fill'].default)}\n"
            f"def defaultPadWidth : Int := {int(sig.parameters['width'].default)}\n"
            f"def defaultPadHeight : Int := {int(sig.parameters['height'].default)}\n"
            "end TIV.C05.Generated\n"
        )
        files["TIV/C05/Generated.lean"] = body
        return files

    # -- generator ----------------------------------------------------------------------
    def generate(self, rng: random.Random, tier: str):
        big = tier == "thorough"
        if big:
            # exhaustive grid of the arithmetic: render size 1..5², minimum size -3..8², 3×3 alignments
            # (terminal size drawn per case from 1..12) + exact margins 0..3⁴
            for rw in range(1, 6):
                for rh in range(1, 6):
                    for w in range(-3, 9):
                        for h in range(-3, 9):
                            ha, va = rng.choice("LCR"), rng.choice("TMB")
                            for op in ("dims", "psize"):
                                p = {"t": "A", "w": w, "h": h, "ha": ha, "va": va, "fill": "gB"}
                                yield Case("", {"op": op, "p": p, "rw": rw, "rh": rh}, f"grid-{op}", True)
                            p = {"t": "A", "w": w, "h": h, "ha": rng.choice("LCR"), "va": rng.choice("TMB"), "fill": "-"}
                            yield Case("", {"op": "resolve", "p": p, "tw": rng.randrange(1, 13), "th": rng.randrange(1, 13)},
                                       "grid-resolve", True)
            for ha in "LCR":
                for va in "TMB":
                    for pw in range(0, 8):
                        p = {"t": "A", "w": 2 + pw, "h": 1 + pw, "ha": ha, "va": va, "fill": "gB"}
                        yield Case("", {"op": "toexact", "p": p, "rw": 2, "rh": 1}, "grid-toexact", True)
        pool = [random_inner_spec(rng, big) for _ in range(400 if big else 96)]
        while True:
            tw, th = rng.randrange(1, 13), rng.randrange(1, 13)
            op = rng.choice(["pad"] * 6 + ["padl", "padl", "render", "render", "render", "format", "format", "format",
                                           "chkfmt", "dims", "psize", "toexact", "resolve",
                                           "fmt2", "fmt2", "draw", "draw", "iter", "iter", "iter", "adraw"])
            inner = rng.choice(pool)
            d = {"op": op, "tw": tw, "th": th}
            if op in ("dims", "psize", "toexact", "resolve"):
                rw, rh = rng.randrange(1, 7), rng.randrange(1, 7)
                d.update(p=random_padding(rng, rw, rh, tw, th), rw=rw, rh=rh)
                if op == "resolve":
                    d["p"] = random_padding(rng, rw, rh, tw, th)
                    while d["p"]["t"] != "A":
                        d["p"] = random_padding(rng, rw, rh, tw, th)
                kind = f"{op}-{d['p']['t']}"
            elif op == "adraw":
                # animated draw(): the frames are drawn over each other (text style; the size is pinned)
                tw, th = rng.randrange(8, 17), rng.randrange(8, 17)
                d.update(tw=tw, th=th, mode="direct")
                inner = {"w": 8, "h": 8, "mode": "RGB", "pattern": "random", "iseed": rng.randrange(1 << 20), "style": "block",
                         "cols": rng.randrange(1, 6), "lines": 8, "bg": None, "kitty_term": rng.random() < 0.3}
                d.update(inner=inner, nframes=rng.choice([2, 3]), repeat=rng.choice([1, 1, 2]), cached=rng.choice([False, True, 3]),
                         h=rng.choice(PYARGS_H[:7]), v=rng.choice(PYARGS_V[:7]),
                         w=rng.choice([0, 1, 3, 6, tw, tw + 1, -1, rng.randrange(1, tw + 1)]),
                         ht=rng.choice([-2, 1, 2, 3, 5, th, th + 1, 0, rng.randrange(1, th + 1)]),
                         acts=[rng.choice([None, ["set_w", rng.randrange(1, 7)], ["set_h", rng.randrange(1, 5)]])])
                kind = "adraw-block"
            elif op in ("fmt2", "draw", "iter"):
                # every entry point of the old API that pads an image render, with the image size
                # changed (set_size / width / height / dynamic size + terminal resize) before the call
                # — for the iterator: between next() calls
                inner = dict(rng.choice([s for s in pool if s["style"] != "chars"]))
                for k in ("alpha", "split", "mix", "compress", "blend", "z", "jpeg"):
                    inner.pop(k, None)
                if inner["style"] != "block":
                    inner["method"] = "lines" if inner["method"] == "lines" else "whole"
                d["inner"] = inner

                def dim2(term):
                    return rng.choice([0, 1, 2, 3, 5, 7, 9, 12, rng.randrange(0, 14), term, term + 1])
                if op == "draw":
                    mode = rng.choice(["direct", "direct", "direct", "bad"])
                    if mode == "direct":
                        d.update(h=rng.choice(PYARGS_H[:7]), v=rng.choice(PYARGS_V[:7]),
                                 w=rng.choice([dim2(tw), 0, -1, -tw, tw + 1]), ht=rng.choice([dim2(th), -2, 0, -th - 1]))
                    else:
                        d.update(h=rng.choice(PYARGS_H), v=rng.choice(PYARGS_V), w=rng.choice([dim2(tw), 1.5, None, "3"]),
                                 ht=rng.choice([dim2(th), dim2(th), 2.0]))
                else:
                    mode = "spec"
                    d.update(h=rng.choice(["<", "|", ">", None]), v=rng.choice(["^", "-", "_", None]),
                             w=rng.choice([None, dim2(tw), dim2(tw)]), ht=rng.choice([None, dim2(th), dim2(th)]))
                d["mode"] = mode
                if op == "iter":
                    d["nframes"] = rng.choice([2, 2, 3])
                    d["repeat"] = rng.choice([2, 2, 2, 1, 3, -1])
                    d["cached"] = rng.choice([True, True, False, False, 5, 2])
                    nsteps = rng.choice([2 * d["nframes"], 2 * d["nframes"] + 1, d["nframes"] + 1, 3 * d["nframes"] + 1])
                    d["acts"] = [None] + [random_size_act(rng) for _ in range(nsteps - 1)]
                    kind = f"iter-{inner['style']}-{'cached' if d['cached'] is not False else 'uncached'}"
                else:
                    d["acts"] = [random_size_act(rng) for _ in range(rng.choice([0, 1, 2]))]
                    kind = f"{op}-{mode}-{inner['style']}"
            elif op in ("pad", "render"):
                r = inner_render(inner)
                d.update(inner=inner, p=random_padding(rng, r["rw"], r["rh"], tw, th))
                kind = f"{op}-{inner['style']}-{d['p']['t']}{'-nofill' if d['p']['fill'] == '-' else ''}"
            elif op == "padl":
                d.update(inner=inner, fill=rng.choice(list(FILLS)), l=rng.randrange(0, 4), tp=rng.randrange(0, 4),
                         r=rng.randrange(0, 4), b=rng.randrange(0, 4))
                kind = f"padl-{inner['style']}"
            else:  # old API
                if op == "format":
                    inner = dict(rng.choice([s for s in pool if s["style"] != "chars"]))
                    # the old API renders with default arguments
                    for k in ("alpha", "split", "mix", "compress", "blend", "z", "jpeg"):
                        inner.pop(k, None)
                    if inner["style"] != "block":
                        inner["method"] = "lines" if inner["method"] == "lines" else "whole"
                    d["inner"] = inner
                    r = self._old_image(inner)[1]
                    rw, rh = r["rw"], r["rh"]
                else:
                    rw, rh = rng.randrange(1, 7), rng.randrange(1, 7)

                def dim(rr, term):
                    return rng.choice([rr - 2, rr - 1, rr, rr + 1, rr + 2, rr + 3, 0, -1, -2, -term, -term - 1, rng.randrange(-3, 9)])
                mode = rng.choice(["spec", "spec", "direct", "direct", "bad"]) if op == "format" else rng.choice(["direct", "direct", "bad"])
                if mode == "spec":
                    d.update(h=rng.choice(["<", "|", ">", None]), v=rng.choice(["^", "-", "_", None]),
                             w=rng.choice([None, max(0, dim(rw, tw))]), ht=rng.choice([None, max(0, dim(rh, th))]))
                elif mode == "direct":
                    d.update(h=rng.choice(PYARGS_H[:7]), v=rng.choice(PYARGS_V[:7]), w=dim(rw, tw), ht=dim(rh, th))
                else:
                    d.update(h=rng.choice(PYARGS_H), v=rng.choice(PYARGS_V), w=rng.choice([dim(rw, tw), 1.5, None, "3"]),
                             ht=rng.choice([dim(rh, th), dim(rh, th), 2.0]))
                d["mode"] = mode
                kind = f"{op}-{mode}" + (f"-{inner['style']}" if op == "format" else "")
            yield Case("", d, kind, True)

    # -- the old API's image for an inner spec -------------------------------------------
    _old_cache: dict[str, tuple] = {}

    def _old_image(self, spec: dict):
        """(image instance set to the spec's size, its default render {'out','rw','rh','kind',…})"""
        key = json.dumps(spec, sort_keys=True)
        got = self._old_cache.get(key)
        if got is None:
            img = imgkit.make_image(spec)
            env.reset_env()
            env.set_env(bg=spec["bg"], term_size=(200, 100))
            style = spec["style"]
            if style == "block":
                env.set_env(is_on_kitty=spec["kitty_term"])
                im = BlockImage(img)
                im.set_size(width=spec["cols"]) if spec["cols"] <= 2 * spec["lines"] else im.set_size(height=spec["lines"])
                kind = "kitty" if spec["kitty_term"] else "other"
            else:
                env.set_env(cell_size=spec["cell"], name=spec["term"])
                im = (KittyImage if style == "kitty" else ITerm2Image)(img)
                im.set_size(width=spec["cols"]) if spec["cols"] <= spec["lines"] else im.set_size(height=spec["lines"])
                kind = spec["term"]
            got = (im, None, kind)
            self._old_cache[key] = got
        im, r, kind = got
        self._old_env(spec)
        if r is None:
            sa = "" if spec["style"] == "block" else f"+{'L' if spec['method'] == 'lines' else 'W'}"
            out = format(im, "1.1" + sa)
            rw, rh = im.rendered_size
            r = {"out": out, "rw": rw, "rh": rh, "kind": kind, "style_spec": sa}
            r["toks"] = tk.tokenize(out)
            r["xwire"] = xwire(r["toks"])
            self._old_cache[key] = (im, r, kind)
        return im, r

    def _old_env(self, spec):
        env.reset_env()
        env.set_env(bg=spec["bg"], term_size=(200, 100))
        if spec["style"] == "block":
            env.set_env(is_on_kitty=spec["kitty_term"])
        else:
            env.set_env(cell_size=spec["cell"], name=spec["term"])

    def _new_image(self, spec: dict, nframes: int = 1):
        """a fresh image instance (its size is going to be changed) → (image, terminal kind, style spec)"""
        self._old_env(spec)
        img = source_image(spec, nframes)
        style = spec["style"]
        if style == "block":
            im = BlockImage(img)
            im.set_size(width=spec["cols"]) if spec["cols"] <= 2 * spec["lines"] else im.set_size(height=spec["lines"])
            return im, ("kitty" if spec["kitty_term"] else "other"), ""
        im = (KittyImage if style == "kitty" else ITerm2Image)(img)
        im.set_size(width=spec["cols"]) if spec["cols"] <= spec["lines"] else im.set_size(height=spec["lines"])
        return im, spec["term"], f"+{'L' if spec['method'] == 'lines' else 'W'}"

    @staticmethod
    def _plain(im, kind: str, sa: str) -> dict:
        """the image's current frame rendered with its current size, unpadded (spec `1.1`)"""
        out = format(im, "1.1" + sa)
        rw, rh = im.rendered_size
        toks = tk.tokenize(out)
        return {"out": out, "rw": rw, "rh": rh, "kind": kind, "toks": toks, "xwire": xwire(toks)}

    def _fmt_args(self, d: dict):
        """(driver argument string, keyword arguments of the real call)"""
        if d["mode"] == "spec":
            w_eff = d["w"] if d["w"] is not None else 0
            h_eff = d["ht"] if d["ht"] is not None else -2
            return (f"{pyarg_wire(d['h'])} some {w_eff} {pyarg_wire(d['v'])} some {h_eff} {d['tw']} {d['th']}",
                    {k: v for k, v in (("h_align", d["h"]), ("width", d["w"]), ("v_align", d["v"]), ("height", d["ht"])) if v is not None})
        return (f"{pyarg_wire(d['h'])} {optint_wire(d['w'])} {pyarg_wire(d['v'])} {optint_wire(d['ht'])} {d['tw']} {d['th']}",
                {"h_align": d["h"], "width": d["w"], "v_align": d["v"], "height": d["ht"]})

    def _impl_entry(self, case: Case) -> str:
        d = case.data
        op = d["op"]
        args, kw = self._fmt_args(d)
        try:
            im, kind, sa = self._new_image(d["inner"], d.get("nframes", 1))
            if op == "iter":
                return self._impl_iter(case, im, kind, sa, args)
            if op == "adraw":
                return self._impl_adraw(case, im, kind, sa, args, kw)
            for act in d["acts"]:
                apply_size_act(im, act)
            set_term(d["tw"], d["th"])
            r = self._plain(im, kind, sa)
        except tk.TokenizeError as e:
            case.line = f"untokenizable inner {d['inner'].get('style')}"
            d["_tokerr"] = str(e)
            return "err TokenizeError"
        self._side[id(case)] = [r]
        d["_rw"], d["_rh"], d["_kind"] = r["rw"], r["rh"], kind
        if op == "draw":
            case.line = f"draw {args} {r['rw']} {r['rh']} {r['xwire']}"
            buf = io.StringIO()
            style_kw = {} if not sa else {"method": d["inner"]["method"]}
            try:
                with redirect_stdout(buf):
                    im.draw(kw["h_align"], kw["width"], kw["v_align"], kw["height"], check_size=False, **style_kw)
            except Exception as e:
                return exc_name(e)
            d["_out"] = buf.getvalue()
            return "ok " + sx(d["_out"])
        # fmt2: format(image, spec), the f-string form and str.format must agree
        case.line = f"format {args} {r['rw']} {r['rh']} {r['xwire']}"
        spec = spec_string(d) + sa
        d["_spec"] = spec
        try:
            out = format(im, spec)
        except Exception as e:
            return exc_name(e)
        d["_out"] = out
        out2, out3 = f"{im:{spec}}", "{:{}}".format(im, spec)
        if out2 != out or out3 != out:
            return f"ok {sx(out)} f-string-or-str.format-differs-from-format()"
        return "ok " + sx(out)

    def _impl_adraw(self, case: Case, im, kind: str, sa: str, args: str, kw: dict) -> str:
        d = case.data
        for act in d["acts"]:
            apply_size_act(im, act)
        set_term(d["tw"], d["th"])
        cached = d["cached"]
        cw = ("b1" if cached else "b0") if isinstance(cached, bool) else f"c{cached}"
        nf = im.n_frames
        plains = []
        for n in range(nf):
            im.seek(n)
            plains.append(self._plain(im, kind, sa))
        im.seek(0)
        count = d["repeat"] * nf
        steps = [plains[k % nf] for k in range(count)]
        self._side[id(case)] = steps
        d["_nf"], d["_kind"] = nf, kind
        case.line = (f"adraw {args} {cw} {d['repeat']} {nf} {len(steps)} "
                     + " ".join(f"{r['rw']} {r['rh']} {r['xwire']}" for r in steps))
        buf = io.StringIO()
        real_time = _cmod.time
        _cmod.time = type("VirtualTime", (), {"time": staticmethod(lambda: 0.0), "sleep": staticmethod(lambda s: None)})
        try:
            with redirect_stdout(buf):
                im.draw(kw["h_align"], kw["width"], kw["v_align"], kw["height"], animate=True, repeat=d["repeat"], cached=cached)
        except Exception as e:
            return exc_name(e)
        finally:
            _cmod.time = real_time
        d["_out"] = buf.getvalue()
        return "ok " + sx(d["_out"])

    def _impl_iter(self, case: Case, im, kind: str, sa: str, args: str) -> str:
        d = case.data
        set_term(d["tw"], d["th"])
        cached = d["cached"]
        cw = ("b1" if cached else "b0") if isinstance(cached, bool) else f"c{cached}"
        nf = im.n_frames
        head = f"iter {args} {cw} {d['repeat']} {nf}"
        spec = spec_string(d) + sa
        d["_spec"] = spec
        try:
            it = ImageIterator(im, d["repeat"], spec, cached)
        except Exception as e:
            case.line = head + " 0"
            return exc_name(e)
        steps, frames = [], []
        try:
            for act in d["acts"]:
                apply_size_act(im, act)
                try:
                    fr = next(it)
                except StopIteration:
                    fr = None
                steps.append(self._plain(im, kind, sa))  # the size and the render at the moment of this next()
                frames.append(fr)
        except Exception as e:
            case.line = head + " 0"
            return exc_name(e)
        finally:
            it.close()
        self._side[id(case)] = steps
        d["_frames"] = frames
        d["_sizes"] = [[r["rw"], r["rh"]] for r in steps]
        d["_nf"], d["_kind"] = nf, kind
        case.line = head + f" {len(steps)} " + " ".join(f"{r['rw']} {r['rh']} {r['xwire']}" for r in steps)
        return "ok " + "|".join("stop" if fr is None else sx(fr) for fr in frames)

    # -- run the real code ----------------------------------------------------------------
    def impl(self, case: Case) -> str:
        r = self._impl(case)
        self._seen.append((case, r))
        return r

    def _impl(self, case: Case) -> str:
        d = case.data
        op = d["op"]
        if op in ("fmt2", "draw", "iter", "adraw"):
            return self._impl_entry(case)
        if op in ("dims", "psize", "toexact"):
            case.line = f"{op} {padding_wire(d['p'])} {d['rw']} {d['rh']}"
            try:
                p = make_padding(d["p"])
                size = Size(d["rw"], d["rh"])
                if op == "dims":
                    return "ok " + " ".join(map(str, p._get_exact_dimensions_(size)))
                if op == "psize":
                    a, b = p.get_padded_size(size), Padding.get_padded_size(p, size)
                    return f"ok {a.width} {a.height} {b.width} {b.height}"
                e = p.to_exact(size)
                d["_same"] = e is p
                return "ok " + fmt_padding(e)
            except Exception as e:
                return exc_name(e)
        if op == "resolve":
            case.line = f"resolve {padding_wire(d['p'])[2:]} {d['tw']} {d['th']}"
            p = make_padding(d["p"])
            r = p.resolve(os.terminal_size((d["tw"], d["th"])))
            d["_same"] = r is p
            return f"ok {int(p.relative)} {fmt_padding(r)} {int(r.relative)}"
        if op in ("pad", "padl", "render"):
            try:
                r = inner_render(d["inner"])
            except tk.TokenizeError as e:
                case.line = f"untokenizable inner {d['inner'].get('style')}"
                d["_tokerr"] = str(e)
                return "err TokenizeError"
            d["_rw"], d["_rh"], d["_kind"] = r["rw"], r["rh"], r["kind"]
            size = Size(r["rw"], r["rh"])
            if op == "padl":
                case.line = f"padl {d['fill']} {d['l']} {d['tp']} {d['r']} {d['b']} {r['rw']} {r['xwire']}"
                out = ExactPadding(d["l"], d["tp"], d["r"], d["b"], FILLS[d["fill"]]).pad(r["out"], size)
                d["_out"] = out
                return "ok " + sx(out)
            if op == "pad":
                case.line = f"pad {padding_wire(d['p'])} {r['rw']} {r['rh']} {r['xwire']}"
                try:
                    p = make_padding(d["p"])
                    out = p.pad(r["out"], size)
                    d["_out"] = out
                    # get_padded_size / to_exact must agree with what pad produces (checked by the oracle)
                    ps = p.get_padded_size(size)
                    d["_psize"] = [ps.width, ps.height]
                    d["_exact_same"] = p.to_exact(size).pad(r["out"], size) == out
                    return "ok " + sx(out)
                except Exception as e:
                    return exc_name(e)
            case.line = f"render {padding_wire(d['p'])} {d['tw']} {d['th']} {r['rw']} {r['rh']} {r['xwire']}"
            try:
                p = make_padding(d["p"])
                set_term(d["tw"], d["th"])
                f = Dummy(r["out"], size).render(padding=p)
                d["_out"] = f.render_output
                d["_psize"] = [f.render_size.width, f.render_size.height]
                return f"ok {f.render_size.width} {f.render_size.height} {sx(f.render_output)}"
            except Exception as e:
                return exc_name(e)
        # old API
        args = f"{pyarg_wire(d['h'])} {optint_wire(d['w'])} {pyarg_wire(d['v'])} {optint_wire(d['ht'])} {d['tw']} {d['th']}"
        kw = {}
        if d["mode"] == "spec":
            kw = {k: v for k, v in (("h_align", d["h"]), ("width", d["w"]), ("v_align", d["v"]), ("height", d["ht"])) if v is not None}
            w_eff = d["w"] if d["w"] is not None else 0
            h_eff = d["ht"] if d["ht"] is not None else -2
            args = f"{pyarg_wire(d['h'])} some {w_eff} {pyarg_wire(d['v'])} some {h_eff} {d['tw']} {d['th']}"
        else:
            kw = {"h_align": d["h"], "width": d["w"], "v_align": d["v"], "height": d["ht"]}
        if op == "chkfmt":
            case.line = "chkfmt " + args
            set_term(d["tw"], d["th"])
            try:
                h, w, v, ht = BlockImage._check_formatting(**kw)
                return f"ok {pyarg_wire(h)} {w} {pyarg_wire(v)} {ht}"
            except Exception as e:
                return exc_name(e)
        try:
            im, r = self._old_image(d["inner"])
        except tk.TokenizeError as e:
            case.line = f"untokenizable inner {d['inner'].get('style')}"
            d["_tokerr"] = str(e)
            return "err TokenizeError"
        d["_rw"], d["_rh"], d["_kind"] = r["rw"], r["rh"], r["kind"]
        case.line = f"format {args} {r['rw']} {r['rh']} {r['xwire']}"
        set_term(d["tw"], d["th"])
        try:
            fmt = im._check_formatting(**kw)
            out = im._format_render(r["out"], *fmt)
            d["_fmt"] = [fmt[0], fmt[1], fmt[2], fmt[3]]
        except Exception as e:
            return exc_name(e)
        d["_out"] = out
        if d["mode"] == "spec":
            # the documented entry point: format(image, "[h][width][.[v][height]]")
            spec = (d["h"] or "") + ("" if d["w"] is None else str(d["w"]))
            if d["v"] is not None or d["ht"] is not None:
                spec += "." + (d["v"] or "") + ("" if d["ht"] is None else str(d["ht"]))
            spec += r["style_spec"]
            d["_spec"] = spec
            try:
                out2 = format(im, spec)
            except Exception as e:
                return f"ok {sx(out)} format()-raised-{type(e).__name__}"
            if out2 != out:
                d["_out"] = out2
                return f"ok {sx(out2)} format()-differs-from-_format_render"
        return "ok " + sx(out)

    # -- oracle ---------------------------------------------------------------------------
    def oracle(self, case: Case, impl_result: str):
        if not self._prefetched:
            self._prefetch()
        return self._oracle(case, impl_result)

    def _prefetch(self):
        """run the terminal-model requests of all cases seen so far in a few driver processes"""
        self._prefetched = True
        self._collecting, self._collect = True, []
        try:
            for c, r in self._seen:
                try:
                    self._oracle(c, r)
                except Exception:
                    pass
        finally:
            self._collecting = False
        batch, n = [], 0
        for reqs in self._collect + [None]:
            if reqs is not None:
                batch.append(reqs)
                n += len(reqs)
            if batch and (reqs is None or n >= 4000):
                try:
                    res = lexcheck.run_batched(self.driver, [q for rq in batch for q in rq])
                except Exception:
                    res = None
                if res is not None:
                    i = 0
                    for rq in batch:
                        self._cache[tuple(rq)] = res[i:i + len(rq)]
                        i += len(rq)
                batch, n = [], 0
        self._collect = []

    def _oracle(self, case: Case, impl_result: str):
        d = case.data
        op = d["op"]
        if "_tokerr" in d:
            return Failure(f"tokenize-inner/{d['inner'].get('style')}", d["_tokerr"])
        if op in ("dims", "psize", "toexact", "pad", "render") and "p" in d:
            p = d["p"]
            where = f"{op}/{padding_wire(p).replace(' ', '_')}/{d.get('rw', d.get('_rw'))}x{d.get('rh', d.get('_rh'))}"
            rw, rh = d.get("rw", d.get("_rw")), d.get("rh", d.get("_rh"))
            if p["t"] == "E" and min(p["l"], p["tp"], p["r"], p["b"]) < 0:
                if impl_result != "err ValueError":
                    return Failure(f"exact-negative/{where}", f"ExactPadding with a negative dimension gave {impl_result[:60]}")
                return None
            relative = p["t"] == "A" and (p["w"] <= 0 or p["h"] <= 0)
            if relative and op != "render":
                if impl_result != "err RelativePaddingDimensionError":
                    return Failure(f"relative/{where}", f"operation on an unresolved relative padding gave {impl_result[:60]}")
                return None
            want = want_dims(p, rw, rh, d.get("tw"), d.get("th")) if op == "render" else want_dims(p, rw, rh)
            l, t, r, b = want
            if not impl_result.startswith("ok "):
                return Failure(f"raises/{where}", f"{impl_result} (expected dimensions {want})")
            if op == "dims" and impl_result != f"ok {l} {t} {r} {b}":
                return Failure(f"dims/{where}", f"_get_exact_dimensions_ = {impl_result[3:]}, documented rule gives {want}")
            if op == "psize" and impl_result != f"ok {l + rw + r} {t + rh + b} {l + rw + r} {t + rh + b}":
                return Failure(f"psize/{where}", f"get_padded_size = {impl_result[3:]}, expected {(l + rw + r, t + rh + b)}")
            if op == "toexact":
                if impl_result != f"ok E {l} {t} {r} {b} {p['fill']}":
                    return Failure(f"toexact/{where}", f"to_exact = {impl_result[3:]}, expected {want}")
                if p["t"] == "E" and not d.get("_same"):
                    return Failure(f"toexact-identity/{where}", "to_exact of an ExactPadding is not the instance itself")
            if op in ("pad", "render"):
                if d.get("_psize") != [l + rw + r, t + rh + b]:
                    return Failure(f"psize/{where}", f"advertised padded size {d.get('_psize')}, expected {[l + rw + r, t + rh + b]}")
                if op == "pad" and not d.get("_exact_same"):
                    return Failure(f"toexact-pad/{where}", "to_exact(size).pad(...) differs from pad(...)")
                return self._screen_check(case, where, FILLS[p["fill"]], want)
            return None
        if op == "resolve":
            p = d["p"]
            where = f"resolve/{padding_wire(p).replace(' ', '_')}/{d['tw']}x{d['th']}"
            w = p["w"] if p["w"] > 0 else max(d["tw"] + p["w"], 1)
            h = p["h"] if p["h"] > 0 else max(d["th"] + p["h"], 1)
            rel = int(p["w"] <= 0 or p["h"] <= 0)
            want = f"ok {rel} A {w} {h} {p['ha']} {p['va']} {p['fill']} 0"
            if impl_result != want:
                return Failure(where, f"resolve gave `{impl_result}`, documented `{want}`")
            if not rel and not d.get("_same"):
                return Failure(f"resolve-identity/{where}", "resolve of an absolute padding is not the instance itself")
            return None
        if op == "padl":
            where = f"padl/{d['fill']}/{d['l']},{d['tp']},{d['r']},{d['b']}/{d['_rw']}x{d['_rh']}/{d['inner']['style']}"
            return self._screen_check(case, where, FILLS[d["fill"]], (d["l"], d["tp"], d["r"], d["b"]))
        if op in ("fmt2", "draw", "iter", "adraw"):
            return self._oracle_entry(case, impl_result)
        if op in ("chkfmt", "format"):
            where = f"{op}/{d['mode']}/{d['h']!r},{d['w']!r},{d['v']!r},{d['ht']!r}/term{d['tw']}x{d['th']}"
            hs = {"<": "<", "|": "|", ">": ">", "left": "<", "center": "|", "right": ">", None: None}
            vs = {"^": "^", "-": "-", "_": "_", "top": "^", "middle": "-", "bottom": "_", None: None}
            w_in = d["w"] if not (d["mode"] == "spec" and d["w"] is None) else 0
            h_in = d["ht"] if not (d["mode"] == "spec" and d["ht"] is None) else -2
            bad_type = not isinstance(d["h"], (str, type(None))) or not isinstance(d["v"], (str, type(None))) \
                or not isinstance(w_in, int) or not isinstance(h_in, int)
            bad_value = (isinstance(d["h"], str) and d["h"] not in hs) or (isinstance(d["v"], str) and d["v"] not in vs)
            if bad_type or bad_value:
                if not impl_result.startswith("err "):
                    return Failure(f"accepts-bad/{where}", f"invalid formatting arguments accepted: {impl_result[:60]}")
                return None
            width = w_in if w_in > 0 else max(d["tw"] + w_in, 1)
            height = h_in if h_in > 0 else max(d["th"] + h_in, 1)
            if op == "chkfmt":
                want = f"ok {pyarg_wire(hs[d['h']])} {width} {pyarg_wire(vs[d['v']])} {height}"
                if impl_result != want:
                    return Failure(where, f"_check_formatting gave `{impl_result}`, documented `{want}`")
                return None
            if not impl_result.startswith("ok "):
                return Failure(f"raises/{where}", impl_result)
            if impl_result.count(" ") > 1:
                return Failure(f"format-vs-_format_render/{where}", impl_result.split(" ", 2)[2] + f" (spec {d.get('_spec')!r})")
            p = {"t": "A", "w": width, "h": height, "ha": {"<": "L", ">": "R"}.get(hs[d["h"]], "C"),
                 "va": {"^": "T", "_": "B"}.get(vs[d["v"]], "M")}
            return self._screen_check(case, where + f"/{d['_rw']}x{d['_rh']}", " ", want_dims(p, d["_rw"], d["_rh"]))
        return None

    def _oracle_entry(self, case: Case, impl_result: str):
        """format()/f-string, draw() and ImageIterator: the box oracle on what each entry point returned,
        against the image's size at the moment of the call (of that next())"""
        d = case.data
        op = d["op"]
        style = d["inner"]["style"]
        where = f"{op}/{d['mode']}/{d['h']!r},{d['w']!r},{d['v']!r},{d['ht']!r}/term{d['tw']}x{d['th']}/{style}"
        hs = {"<": "<", "|": "|", ">": ">", "left": "<", "center": "|", "right": ">", None: None}
        vs = {"^": "^", "-": "-", "_": "_", "top": "^", "middle": "-", "bottom": "_", None: None}
        w_in = d["w"] if not (d["mode"] == "spec" and d["w"] is None) else 0
        h_in = d["ht"] if not (d["mode"] == "spec" and d["ht"] is None) else -2
        bad_type = not isinstance(d["h"], (str, type(None))) or not isinstance(d["v"], (str, type(None))) \
            or not isinstance(w_in, int) or not isinstance(h_in, int)
        bad_value = (isinstance(d["h"], str) and d["h"] not in hs) or (isinstance(d["v"], str) and d["v"] not in vs)
        if bad_type or bad_value:
            if not impl_result.startswith("err "):
                return Failure(f"accepts-bad/{where}", f"invalid formatting arguments accepted: {impl_result[:60]}")
            return None
        if op == "adraw" and (w_in > d["tw"] or h_in > d["th"]):
            if impl_result != "err ValueError":
                return Failure(f"adraw-big/{where}", f"padding size above the terminal size gave {impl_result[:60]}")
            return None
        if op == "draw" and w_in > d["tw"]:
            if impl_result != "err ValueError":
                return Failure(f"draw-wide/{where}", f"padding width above the terminal width gave {impl_result[:60]}")
            return None
        if not impl_result.startswith("ok "):
            return Failure(f"raises/{where}", impl_result)
        width = w_in if w_in > 0 else max(d["tw"] + w_in, 1)
        height = h_in if h_in > 0 else max(d["th"] + h_in, 1)
        p = {"t": "A", "w": width, "h": height, "ha": {"<": "L", ">": "R"}.get(hs[d["h"]], "C"),
             "va": {"^": "T", "_": "B"}.get(vs[d["v"]], "M")}
        side = self._side.get(id(case))
        if side is None:
            return None
        if op == "adraw":
            out = d["_out"]
            if not out.endswith("\x1b[m\n"):
                return Failure(f"draw-tail/{where}", f"draw() output does not end with SGR 0 and a newline: {out[-12:]!r}")
            inner = side[-1]  # the last frame drawn stays on screen, in the one box all frames share
            return self._box_check(case, where + f"/{inner['rw']}x{inner['rh']}/rep{d['repeat']}x{d['_nf']}", out[:-4], inner, " ",
                                   want_dims(p, inner["rw"], inner["rh"]), animation=True)
        if op != "iter":
            if impl_result.count(" ") > 1:
                return Failure(f"forms-differ/{where}", impl_result.split(" ", 2)[2] + f" (spec {d.get('_spec')!r})")
            out = d["_out"]
            if op == "draw":
                if not out.endswith("\x1b[m\n"):
                    return Failure(f"draw-tail/{where}", f"draw() output does not end with SGR 0 and a newline: {out[-12:]!r}")
                out = out[:-4]
            inner = side[0]
            return self._box_check(case, where + f"/{inner['rw']}x{inner['rh']}", out, inner, " ",
                                   want_dims(p, inner["rw"], inner["rh"]))
        frames, nf, rep = d["_frames"], d["_nf"], d["repeat"]
        for k, (fr, inner) in enumerate(zip(frames, side)):
            ended = rep > 0 and k >= rep * nf
            wk = f"{where}/{'cached' if d['cached'] is not False else 'uncached'}/rep{rep}/frame{k}of{nf}/sizes{d['_sizes'][:k + 1]}".replace(" ", "")
            if ended != (fr is None):
                return Failure(f"iter-end/{wk}", "StopIteration " + ("missing" if ended else "too early"))
            if fr is None:
                continue
            f = self._box_check(case, wk, fr, inner, " ", want_dims(p, inner["rw"], inner["rh"]), tag=k + 1, nplaces=1)
            if f is not None:
                return f
        return None

    # the screen oracle: batched over all cases seen by impl() ------------------------------
    def _inner_of(self, d):
        return self._old_image(d["inner"])[1] if d["op"] == "format" else inner_render(d["inner"])

    def _places(self, case: Case, Wt: int, Ht: int, tag: int = 0):
        rng = random.Random((int(case.key(), 16) & 0xFFFFFF) + 7717 * tag)
        out = []
        for k in range(2):
            W = Wt + (0 if k == 0 else rng.choice([0, 1, 5]))
            H = Ht + rng.choice([0, 0, 1, 4])
            x = rng.choice([0, W - Wt])
            top = rng.randrange(0, 3)
            row = top + rng.choice([0, H - Ht])
            out.append((W, H, row, x, top))
        return out

    def _screen_check(self, case: Case, where: str, fill: str, want):
        d = case.data
        return self._box_check(case, where, d["_out"], self._inner_of(d), fill, want)

    def _box_check(self, case: Case, where: str, out: str, inner: dict, fill: str, want, tag: int = 0, nplaces: int = 2,
                   animation: bool = False):
        """THE BOX ORACLE: `out` run on the terminal model occupies exactly the padded box, holds the
        render `inner` unchanged at the offset `want` dictates, and the fill (or nothing) elsewhere"""
        d = case.data
        rw, rh, kind = inner["rw"], inner["rh"], inner["kind"]
        l, t, r, b = want
        Wt, Ht = l + rw + r, t + rh + b
        if not animation and out.count("\n") != Ht - 1:
            return Failure(f"lines/{where}", f"{out.count(chr(10)) + 1} lines, expected {Ht} (render {rw}x{rh}, margins {want})")
        places = self._places(case, Wt, Ht, tag)[:nplaces]
        if animation:  # frames after the first return to column 0
            places = [(W, H, row, 0, top) for (W, H, row, x, top) in places]
        # the BYTES go to the Lean side: read there by TIV.Lex.lex (proved inverse to the models' printing),
        # one reading per output, run on every placement
        reqs = [lexcheck.runbytes_n_request(out, [(W, H, kind, row, x, top, x) for (W, H, row, x, top) in places]),
                lexcheck.runbytes_n_request(inner["out"], [(W, H, kind, row + t, x + l, top, x + l) for (W, H, row, x, top) in places])]
        self._outs[out] = None
        self._outs[inner["out"]] = None
        if self._collecting:
            self._collect.append(reqs)
            return None
        ans = self._cache.pop(tuple(reqs), None) or lexcheck.run_batched(self.driver, reqs)
        padded, alone = lexcheck.parse_runbytes_n(ans[0]), lexcheck.parse_runbytes_n(ans[1])
        for o, pr in ((out, padded), (inner["out"], alone)):
            self._lean_wire[o] = "err lex" if pr is None else " ".join([str(len(pr[0]))] + pr[0])
        if padded is None:
            return Failure(f"tokenize/{where}", "padded output is not a sequence of complete, canonical control sequences "
                           "of the library (rejected by the Lean lexer)")
        if alone is None:
            return Failure(f"tokenize-inner/{where}", "the inner render is rejected by the Lean lexer")
        res = [x for pair in zip(padded[1], alone[1]) for x in pair]
        glyph = {" ": "B", "▀": "U", "▄": "L"}.get(fill, f"C{ord(fill)}" if fill else None)
        for k, (W, H, row, x, top) in enumerate(places):
            f = compare_screens(res[2 * k], res[2 * k + 1], W, H, row, x, top, rw, rh, l, t, r, b, glyph)
            if f:
                return Failure(f"{f[0]}/{where}", f"{f[1]} (terminal {W}x{H}, cursor at row {row} col {x}, top {top}, "
                               f"inner {rw}x{rh} {d['inner'].get('style')}, margins {want})")
        return None

    def extra_checks(self, rng, tier, ev):
        """every real output of the run (padded outputs, frames, inner renders), read by the Python tokenizer
        (still used to build the model request lines) and by the Lean lexer (used by the oracle): identical wire
        tokens. A disagreement is a defect of the harness → exception → INFRA, exit 2."""
        outs = list(self._outs)
        bad = lexcheck.cross_check(self.driver, outs, self._lean_wire)
        ev["coverage"]["lexer_cross_check"] = {"outputs": len(outs), "disagreements": len(bad), "first": bad[:3]}
        if bad:
            raise RuntimeError(f"lexer cross-check: python tokenizer and Lean lexer disagree on {len(bad)} outputs: {bad[0]}")
        return []

    # -- targeted search (run when a tie broke) --------------------------------------------
    def search(self, rng: random.Random, tier: str, reasons):
        fails = []
        inner = {"style": "chars", "cols": 2, "lines": 2, "iseed": 1}
        blk = {"w": 3, "h": 4, "mode": "RGB", "pattern": "two-tone", "iseed": 5, "style": "block", "cols": 3, "lines": 2,
               "bg": None, "kitty_term": False}
        cases = []
        for w in range(-3, 9):
            for h in range(-3, 9):
                for ha, va in (("L", "T"), ("C", "M"), ("R", "B")):
                    for fill in ("gB", "-"):
                        p = {"t": "A", "w": w, "h": h, "ha": ha, "va": va, "fill": fill}
                        cases.append(Case("", {"op": "render", "tw": 7, "th": 6, "inner": inner, "p": p}, "search"))
                    hs, vs = {"L": "<", "C": "|", "R": ">"}[ha], {"T": "^", "M": "-", "B": "_"}[va]
                    cases.append(Case("", {"op": "format", "tw": 7, "th": 6, "inner": blk, "mode": "direct",
                                           "h": hs, "v": vs, "w": w, "ht": h}, "search"))
        for c in cases:
            try:
                f = self.oracle(c, self.impl(c))
            except Exception:
                continue
            if f is not None:
                f.case = c
                fails.append(f)
                if len(fails) >= 5:
                    break
        return fails


def parse_run(resp: str):
    p = resp.split(" ")
    if p[0] != "ok":
        return None
    r, c, pw, top, scrolls, wrapped, fg, bg, vis = p[1:10]
    nimg = int(p[10])
    imgs = p[11:11 + nimg]
    writes = p[12 + nimg:]
    cells = {}
    for wr in writes:
        a, b, content = wr.split(",", 2)
        cells[(int(a), int(b))] = content  # later writes win
    return {"row": int(r), "col": int(c), "top": int(top), "scrolls": int(scrolls), "wrapped": int(wrapped),
            "fg": fg, "bg": bg, "imgs": sorted(imgs), "cells": cells}


def compare_screens(padded: str, alone: str, W, H, row, x, top, rw, rh, l, t, r, b, glyph):
    P_, A_ = parse_run(padded), parse_run(alone)
    if P_ is None or A_ is None:
        return ("driver", (padded if P_ is None else alone)[:100])
    Wt, Ht = l + rw + r, t + rh + b
    if P_["scrolls"] or P_["top"] != top:
        return ("scroll", "the padded render scrolled the terminal")
    if P_["wrapped"]:
        return ("wrap", "the padded render wrapped at the right margin")
    if P_["row"] != row + Ht - 1:
        return ("row", f"cursor ends on row {P_['row']}, expected {row + Ht - 1}")
    if P_["col"] != min(x + Wt, W - 1):
        return ("col", f"cursor ends in column {P_['col']}, expected {min(x + Wt, W - 1)}")
    if P_["fg"] != "d" or P_["bg"] != "d":
        return ("sgr", "text attributes not default after the padded render")
    if P_["imgs"] != A_["imgs"]:
        return ("placement", f"graphics placements {P_['imgs']} differ from the inner render's at the offset {A_['imgs']}")
    box = {(row + i, x + j) for i in range(Ht) for j in range(Wt)}
    inner = {(row + t + i, x + l + j) for i in range(rh) for j in range(rw)}
    outside = set(P_["cells"]) - box
    if outside:
        return ("outside", f"cells outside the padded box changed: {sorted(outside)[:4]}")
    for cell in sorted(box):
        got = P_["cells"].get(cell)
        if cell in inner:
            if got != A_["cells"].get(cell):
                return ("inner", f"cell {cell} of the inner render holds {got}, the render alone puts {A_['cells'].get(cell)} there")
        elif glyph is None:
            if got is not None:
                return ("touched", f"padding cell {cell} was written ({got}) though the fill is empty")
        elif got != f"t:{glyph}:d:d":
            return ("fill", f"padding cell {cell} holds {got}, expected the fill glyph with default attributes")
    return None


if __name__ == "__main__":
    fw.main(C05)
