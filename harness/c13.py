#!/venv/bin/python
"""C13 — terminal attributes are always put back exactly as found (DESIGN.md §5 C13).

The REAL `read_tty` / `query_terminal` / `write_tty` / `Renderable.draw` run against a fake
`termios` / `select` / `os` / `monotonic` (module globals of term_image.utils and
term_image.renderable._renderable are replaced from here; no source hooks).  The fake keeps the
"kernel" attribute set as a C-like struct, converts to and from the Python list exactly as
CPython's termios module does, answers `select` / `more` / the clock from a script, records every
effectful action, and raises a chosen exception at the k-th action — either instead of the
action or right after it took effect.
"""
from __future__ import annotations

import ast
import inspect
import io
import itertools
import os
import random
import struct
import sys
import termios as T
import textwrap

sys.path.insert(0, os.path.dirname(os.path.abspath(__file__)))
from common import framework as fw  # noqa: E402
from common.framework import Case, Failure, Property  # noqa: E402

fw.setup_import_path()

import term_image  # noqa: E402
from term_image import utils as U  # noqa: E402
from term_image import _ctlseqs as ctlseqs  # noqa: E402
from term_image.geometry import Size  # noqa: E402
from term_image.padding import ExactPadding  # noqa: E402
from term_image.renderable import Frame, Renderable  # noqa: E402
from term_image.renderable import _renderable as R  # noqa: E402
from term_image.render import RenderIterator  # noqa: E402
from term_image.image.kitty import KittyImage  # noqa: E402
from term_image.image.iterm2 import ITerm2Image  # noqa: E402

NCCS = 32
EXC = {
    "kbdInt": KeyboardInterrupt,
    "termiosError": T.error,
    "osError": OSError,
    "stopIteration": StopIteration,
    "other": ValueError,
}
EXC_NAME = {v: k for k, v in EXC.items()}


class ScriptExhausted(BaseException):
    """the real code asked the environment more often than the script provides (harness bug or
    the code's control flow differs from the model's)"""


def exc_name(e: BaseException) -> str:
    for cls, name in ((KeyboardInterrupt, "kbdInt"), (T.error, "termiosError"), (OSError, "osError"),
                      (StopIteration, "stopIteration"), (ValueError, "other")):
        if type(e) is cls:
            return name
    return "unexpected:" + type(e).__name__


# ----------------------------------------------------------------------------------------
# the virtual terminal


class VT:
    def __init__(self, kattrs: dict, fault=None, sel=(), more=(), clock=()):
        self.k = {**kattrs, "cc": list(kattrs["cc"])}
        self.initial = self.image()
        self.init_k = {**kattrs, "cc": list(kattrs["cc"])}
        self.fault = fault  # None | (k, excname, after)
        self.n = 0
        self.events: list[str] = []
        self.fired_at = None
        self.sel = list(sel)
        self.more_script = list(more)  # True / False / excname
        self.clock = list(clock)
        self.exhausted = False
        # "live" mode (composite query functions): a responding terminal with a virtual clock
        self.live = False
        self.queue = bytearray()
        self.replies: list = []
        self.now = 0.0
        # signal mask model: SIGINT blocked? a SIGINT that arrived while blocked is pending
        self.sig_blocked = False
        self.sig_pending = False
        # observations at the moment the call returned / raised (exception still held) and after
        self.n_return = None
        self.image_held = None
        self.final_held = None
        self.image_dropped = None
        self.set_log: list = []  # (action index, attrs != entry before, attrs == entry after) per executed tcsetattr

    # -- kernel state ---------------------------------------------------------------------
    def image(self) -> bytes:
        k = self.k
        return struct.pack("<6I", k["iflag"], k["oflag"], k["cflag"], k["lflag"], k["ispeed"], k["ospeed"]) + bytes(k["cc"])

    def py_attrs(self) -> list:
        """what CPython's termios.tcgetattr builds"""
        k = self.k
        cc: list = [bytes([c]) for c in k["cc"]]
        if not k["lflag"] & T.ICANON:
            cc[T.VMIN] = k["cc"][T.VMIN]
            cc[T.VTIME] = k["cc"][T.VTIME]
        return [k["iflag"], k["oflag"], k["cflag"], k["lflag"], k["ispeed"], k["ospeed"], cc]

    @staticmethod
    def parse(attrs) -> dict:
        """what CPython's termios.tcsetattr does with its argument"""
        if not isinstance(attrs, list) or len(attrs) != 7:
            raise TypeError("tcsetattr, arg 3: must be 7 element list")
        cc = attrs[6]
        if not isinstance(cc, list) or len(cc) != NCCS:
            raise TypeError("tcsetattr: attributes[6] must be %d element list" % NCCS)
        out = []
        for x in cc:
            if isinstance(x, bytes) and len(x) == 1:
                out.append(x[0])
            elif isinstance(x, int) and not isinstance(x, bool) or isinstance(x, bool):
                out.append(int(x) & 0xFF)
            else:
                raise TypeError("tcsetattr: elements of attributes must be characters or integers")
        names = ("iflag", "oflag", "cflag", "lflag", "ispeed", "ospeed")
        d = {n: int(attrs[i]) & 0xFFFFFFFF for i, n in enumerate(names)}
        d["cc"] = out
        return d

    def describe(self, attrs) -> str:
        """e<echo>c<icanon>m<vmin as passed>t<vtime as passed>r<everything else as at entry>"""
        try:
            d = self.parse(attrs)
        except Exception as e:  # noqa: BLE001
            return "bad:" + type(e).__name__

        def passed(i):
            x = attrs[6][i]
            return x[0] if isinstance(x, bytes) else int(x)

        i0 = self.init_k
        mask = ~(T.ECHO | T.ICANON) & 0xFFFFFFFF
        same = (
            all(d[n] == i0[n] for n in ("iflag", "oflag", "cflag", "ispeed", "ospeed"))
            and d["lflag"] & mask == i0["lflag"] & mask
            and all(d["cc"][i] == i0["cc"][i] for i in range(NCCS) if i not in (T.VMIN, T.VTIME))
        )
        return "e%dc%dm%dt%dr%d" % (bool(d["lflag"] & T.ECHO), bool(d["lflag"] & T.ICANON),
                                     passed(T.VMIN), passed(T.VTIME), same)

    def final(self) -> str:
        k = self.k
        i0 = self.init_k
        mask = ~(T.ECHO | T.ICANON) & 0xFFFFFFFF
        same = (
            all(k[n] == i0[n] for n in ("iflag", "oflag", "cflag", "ispeed", "ospeed"))
            and k["lflag"] & mask == i0["lflag"] & mask
            and all(k["cc"][i] == i0["cc"][i] for i in range(NCCS) if i not in (T.VMIN, T.VTIME))
        )
        return "e%dc%dm%dt%dr%d" % (bool(k["lflag"] & T.ECHO), bool(k["lflag"] & T.ICANON),
                                     k["cc"][T.VMIN], k["cc"][T.VTIME], same)

    # -- one effectful action ---------------------------------------------------------------
    def act(self, label: str, effect=None):
        k = self.n
        self.n += 1
        if self.fault is not None and k == self.fault[0]:
            _, en, after = self.fault
            if en == "kbdInt" and self.sig_blocked:
                # a REAL SIGINT arriving while blocked stays pending; the action goes on and the
                # KeyboardInterrupt surfaces where the mask is lifted (fake pthread_sigmask)
                self.sig_pending = True
                self.fired_at = k
                self.events.append(label + "!pending:kbdInt")
                return effect() if effect is not None else None
            if after and effect is not None:
                try:
                    effect()
                except ScriptExhausted:
                    raise
                except BaseException:  # noqa: BLE001 — the injected exception supersedes the action's own
                    pass
            self.events.append(label + ("!a:" if after else "!b:") + en)
            self.fired_at = k
            raise EXC[en]("injected")
        self.events.append(label)
        return effect() if effect is not None else None

    def trace(self) -> list:
        """the actions up to the moment the call returned / raised"""
        return self.events if self.n_return is None else self.events[:self.n_return]

    def late(self) -> list:
        """actions performed after that (finalizers of objects the exception kept alive)"""
        return [] if self.n_return is None else self.events[self.n_return:]

    def script(self, seq: list, what: str):
        if not seq:
            self.exhausted = True
            raise ScriptExhausted(what)
        return seq.pop(0)


CUR: list = [None]  # the VT of the running case


def vt() -> VT:
    return CUR[0]


class FakeTermios:
    error = T.error

    def __getattr__(self, name):
        return getattr(T, name)

    def tcgetattr(self, fd):
        return vt().act("get", lambda: vt().py_attrs())

    def tcsetattr(self, fd, when, attrs):
        v = vt()
        wn = {T.TCSANOW: "now", T.TCSAFLUSH: "flush", T.TCSADRAIN: "drain"}.get(when, "when%r" % (when,))
        parsed = v.parse(attrs)  # a TypeError here is the real module's behaviour too

        def eff():
            before_ne = v.image() != v.initial
            v.k = parsed
            v.set_log.append((v.n - 1, before_ne, v.image() == v.initial))
            if v.live and when == T.TCSAFLUSH:
                v.queue.clear()

        return v.act("set(%s,%s)" % (wn, v.describe(attrs)), eff)

    def tcdrain(self, fd):
        return vt().act("dr")


class FakeOS:
    def __getattr__(self, name):
        return getattr(os, name)

    def read(self, fd, n):
        v = vt()
        if v.live:
            def eff():
                data = bytes(v.queue[:n])
                del v.queue[:n]
                return data
            return v.act("rd(%d)" % n, eff)
        return v.act("rd(%d)" % n, lambda: b"x" * max(1, min(n, 3)))

    def write(self, fd, data):
        v = vt()
        if v.live:
            def eff():
                if v.replies:
                    v.queue += v.replies.pop(0)  # the terminal answers
                return len(data)
            return v.act("wr", eff)
        return v.act("wr", lambda: len(data))

    def get_terminal_size(self, fd=None):
        return os.terminal_size((80, 30))


def fake_select(r, w, x, timeout=None):
    v = vt()
    cls = "inf" if timeout is None else ("zero" if timeout == 0 else ("pos" if timeout > 0 else "negative"))
    if v.live:
        def eff():
            if v.queue:
                return (r, [], [])
            if timeout is None:
                v.exhausted = True
                raise ScriptExhausted("select would block forever")
            v.now = round(v.now + max(timeout, 0.0), 6)  # quantised virtual clock
            return ([], [], [])
        return v.act("sel(%s)" % cls, eff)
    return v.act("sel(%s)" % cls, lambda: ((r if v.script(v.sel, "select") else []), [], []))


def fake_monotonic():
    v = vt()
    if v.live:
        return v.act("clk", lambda: v.now)
    return v.act("clk", lambda: v.script(v.clock, "clock"))


class FakeFcntl:
    def __getattr__(self, name):
        import fcntl as _f
        return getattr(_f, name)

    def ioctl(self, fd, req, buf, *a):
        # TIOCGWINSZ reports no pixel size, so get_cell_size falls through to the XTWINOPS query
        return vt().act("ioctl", lambda: 0)


def fake_more(buf):
    v = vt()

    def eff():
        m = v.script(v.more_script, "more")
        if isinstance(m, str):
            raise EXC[m]("more raised")
        return m

    return v.act("more", eff)


class FakeTTY:
    """stands in for sys.stdout"""

    encoding = "utf-8"

    def __init__(self, tty: bool):
        self.tty = tty

    def isatty(self):
        return self.tty

    def fileno(self):
        return 98

    def write(self, s):
        if s == R.HIDE_CURSOR:
            kind = "hide"
        elif s == "\n":
            kind = "nl"
        elif s == R.SHOW_CURSOR:
            kind = "show"
        elif s.startswith("\r"):
            kind = "move"
        elif s == "" or (s.startswith("\x1b[") and s.endswith("B") and s[2:-1].isdigit()):
            kind = "other"
        else:
            kind = "frame"
        vt().act("ow(%s)" % kind)
        return len(s)

    def flush(self):
        vt().act("ofl")


class Probe(Renderable):
    """a renderable whose every hook is an observable action"""

    size = Size(2, 2)

    def __init__(self, frames: int):
        super().__init__(frames, 1)

    def _get_render_size_(self):
        return self.size

    def _render_(self, render_data, render_args):
        data = render_data[Renderable]
        vt().act("rend")
        w, h = data.size
        return Frame(data.frame_offset, 1, data.size, "\n".join(("#" * w,) * h))

    def _handle_interrupted_draw_(self, render_data, render_args, output):
        vt().act("hnd")

    @classmethod
    def _finalize_render_data_(cls, render_data):
        # only `render_data.finalize()` of draw's finally block is an action of the model (a
        # finalisation by RenderData.__del__ after an aborted clean-up is the garbage collector's)
        if vt() is not None and sys._getframe(2).f_code.co_name == "draw":
            vt().act("fin")
        super()._finalize_render_data_(render_data)


_real_close = RenderIterator.close


def _close(self):
    # only the explicit `render_iter.close()` of `_animate_` is an action of the model; the
    # iterator's own close on exhaustion / garbage collection is internal to RenderIterator
    if vt() is not None and sys._getframe(1).f_code.co_name == "_animate_":
        vt().act("cls")
    return _real_close(self)


def install():
    U.termios = FakeTermios()
    U.os = FakeOS()
    U.select = fake_select
    U.monotonic = fake_monotonic
    U._tty_fd = 99
    U.fcntl = FakeFcntl()
    R.termios = U.termios
    R.sleep = lambda s: vt().act("slp")
    R.get_terminal_size = lambda: os.terminal_size((80, 30))
    R.OS_IS_UNIX = True
    RenderIterator.close = _close


# ----------------------------------------------------------------------------------------
# cases


def kattrs_from(d: dict) -> dict:
    """d: echo icanon vmin vtime + 'rest' seed -> kernel struct"""
    rr = random.Random(d.get("rest", 0))
    lflag = rr.getrandbits(32) & ~(T.ECHO | T.ICANON) & 0xFFFFFFFF
    if d["echo"]:
        lflag |= T.ECHO
    if d["icanon"]:
        lflag |= T.ICANON
    cc = [rr.randrange(256) for _ in range(NCCS)]
    cc[T.VMIN] = d["vmin"]
    cc[T.VTIME] = d["vtime"]
    return {"iflag": rr.getrandbits(32), "oflag": rr.getrandbits(32), "cflag": rr.getrandbits(32),
            "lflag": lflag, "ispeed": rr.choice([T.B9600, T.B38400, 15]), "ospeed": rr.choice([T.B9600, T.B38400, 15]),
            "cc": cc}


def env_of_timed(neg: bool, steps: list, ending, timeout_zero=False):
    """select / more / clock scripts and the timeout value that make the real loop follow the script"""
    tmo = -1.0 if neg else (0.0 if timeout_zero else 0.5)
    sel = [bool(s) for s in steps]
    more = [True] * len(steps)
    if ending == "stop":
        more.append(False)
    elif ending != "up":
        more.append(ending)  # exception name
    up = ending == "up"
    clock = [0.0]  # start
    clock.append(tmo if (up and not steps and not neg) else 0.0)  # duration before the loop
    for i in range(len(steps)):
        clock.append(tmo if (up and i == len(steps) - 1 and not neg) else 0.0)
    return tmo, sel, more, clock


def fmt_plan(plan) -> str:
    return "none" if plan is None else "some %d %s %d" % (plan[0], plan[1], int(plan[2]))


def fmt_attrs(a) -> str:
    return "%d %d %d %d" % (a["echo"], a["icanon"], a["vmin"], a["vtime"])


def fmt_timed(neg, steps, ending) -> str:
    en = ending if ending in ("up", "stop") else "raise " + ending
    return "%d %d%s %s" % (neg, len(steps), "".join(" %d" % s for s in steps), en)


def line_of(d: dict) -> str:
    op = d["op"]
    a = fmt_attrs(d["attrs"])
    if op == "rt":
        s = d["script"]
        sc = "nb %d" % s["n"] if s["kind"] == "nb" else "timed " + fmt_timed(s["neg"], s["steps"], s["ending"])
        return "rt %s %d %d %s %s" % (a, d["min"], d["echo"], sc, fmt_plan(d["plan"]))
    if op == "qt":
        s = d["script"]
        return "qt %s %d %s %s" % (a, d["enabled"], fmt_timed(s["neg"], s["steps"], s["ending"]), fmt_plan(d["plan"]))
    if op == "comp":
        items = comp_info(d)[1]
        if items is None:
            return "seq-unparsed %s %s %s %s" % (d["fn"], d["variant"], a, fmt_plan(d["plan"]))
        return "seq %s %d %s %s" % (a, len(items), " ".join(items), fmt_plan(d["plan"]))
    body = "still" if d["body"] == "still" else "anim %d" % d["body"]
    return "draw %s %d %d %s %s" % (a, d["hide"], d["nei"], body, fmt_plan(d["plan"]))



import contextlib
import gc
import signal as _signal

_REAL_SIGMASK = _signal.pthread_sigmask
UNRAISABLE = {"n": 0, "last": []}


def _unraisable(u):
    """exceptions out of finalizers (`Exception ignored in …`: generator close at GC, __del__) are
    counted and kept for the evidence instead of being sprayed over stderr"""
    UNRAISABLE["n"] += 1
    if len(UNRAISABLE["last"]) < 5:
        UNRAISABLE["last"].append("%s in %r" % (type(u.exc_value).__name__, u.object))


def fake_pthread_sigmask(how, mask):
    v = vt()
    if v is None:
        return _REAL_SIGMASK(how, mask)

    def eff():
        old = {_signal.SIGINT} if v.sig_blocked else set()
        has = _signal.SIGINT in set(mask)
        if how == _signal.SIG_BLOCK:
            v.sig_blocked = v.sig_blocked or has
        elif how == _signal.SIG_UNBLOCK:
            v.sig_blocked = v.sig_blocked and not has
        else:
            v.sig_blocked = has
        if v.sig_pending and not v.sig_blocked:
            v.sig_pending = False
            v.events.append("deliver:kbdInt")
            raise KeyboardInterrupt("pending SIGINT delivered")
        return old

    name = {_signal.SIG_BLOCK: "block", _signal.SIG_UNBLOCK: "unblock", _signal.SIG_SETMASK: "setmask"}.get(how, "?")
    return v.act("sigmask(%s)" % name, eff)


@contextlib.contextmanager
def fake_signals():
    _signal.pthread_sigmask = fake_pthread_sigmask
    old_hook = sys.unraisablehook
    sys.unraisablehook = _unraisable
    try:
        yield
    finally:
        _signal.pthread_sigmask = _REAL_SIGMASK
        sys.unraisablehook = old_hook


def run_call(v: VT, call) -> str:
    """Run the operation.  ANY exception is an outcome, never a crash.  The attributes are observed
    twice: when the call has returned / raised and the exception object is STILL HELD (a
    suspended generator or frame kept alive by the traceback has not been finalised), and again
    after the exception was dropped and the garbage collector ran."""
    held = None
    with fake_signals():
        try:
            try:
                call()
                out = "normal"
            except ScriptExhausted as e:
                out = "script-exhausted:" + str(e)
            except BaseException as e:  # noqa: BLE001
                held = e
                out = "raised:" + exc_name(e)
            v.fault = None  # the operation is over: nothing is injected into finalizers
            v.n_return = len(v.events)
            v.image_held = v.image()
            v.final_held = v.final()
            if v.sig_pending:
                out += "+sigint-still-pending"
            held = None  # drop the exception (and with it every frame its traceback kept alive)
            gc.collect(1)
            v.image_dropped = v.image()
        except BaseException as e:  # noqa: BLE001 — e.g. out of a finalizer run by the collector
            out = "harness-caught:" + type(e).__name__
            if v.n_return is None:
                v.n_return = len(v.events)
                v.image_held = v.image()
                v.final_held = v.final()
            v.image_dropped = v.image()
    return out


def execute(d: dict, plan):
    """run the real operation of case-data d under fault plan `plan`; -> (VT, outcome string)"""
    op = d["op"]
    if op == "comp":
        return execute_comp(d, plan)
    ka = kattrs_from(d["attrs"])
    saved_q = U._queries_enabled
    saved_out = sys.stdout
    try:
        if op == "rt":
            s = d["script"]
            if s["kind"] == "nb":
                v = VT(ka, plan, sel=[True] * s["n"] + [False])
                CUR[0] = v
                call = lambda: U.read_tty(fake_more, None, d["min"], echo=bool(d["echo"]))  # noqa: E731
            else:
                tmo, sel, more, clock = env_of_timed(s["neg"], s["steps"], s["ending"], s.get("tz", False))
                v = VT(ka, plan, sel=sel, more=more, clock=clock)
                CUR[0] = v
                call = lambda: U.read_tty(fake_more, tmo, d["min"], echo=bool(d["echo"]))  # noqa: E731
        elif op == "qt":
            s = d["script"]
            tmo, sel, more, clock = env_of_timed(s["neg"], s["steps"], s["ending"])
            v = VT(ka, plan, sel=sel, more=more, clock=clock)
            CUR[0] = v
            U._queries_enabled = bool(d["enabled"])
            # timeout=None exercises `timeout or _query_timeout` (0.1 by default; the scripted
            # clock makes "time up" happen exactly where the script says)
            if s["neg"]:
                call = lambda: U.query_terminal(b"\x1b[c", fake_more, tmo)  # noqa: E731
            else:
                call = lambda: U.query_terminal(b"\x1b[c", fake_more, d.get("qtimeout", tmo))  # noqa: E731
            if not s["neg"]:
                # duration values must reach whatever timeout is in force
                qt = d.get("qtimeout", tmo) or U._query_timeout
                v.clock = [c if c == 0.0 else qt for c in v.clock]
        else:
            v = VT(ka, plan)
            CUR[0] = v
            tty = d.get("tty", True)
            sys.stdout = FakeTTY(tty)
            frames = 1 if d["body"] == "still" else 1 + d["body"]
            probe = Probe(frames)
            kw = dict(hide_cursor=bool(d["hide_arg"]), echo_input=bool(d["echo_input"]), padding=ExactPadding())
            if d["body"] == "still":
                call = lambda: probe.draw(**kw)  # noqa: E731
            else:
                call = lambda: probe.draw(loops=1, **kw)  # noqa: E731
        out = run_call(v, call)
    finally:
        sys.stdout = saved_out
        U._queries_enabled = saved_q
        CUR[0] = None
    return v, out



# ----------------------------------------------------------------------------------------
# composite query functions (public entry points that run several mode-changing operations)

NV_FULL = b"\x1bP>|kitty(0.21.2)\x1b\\\x1b[?62;c"
NV_WEZ = b"\x1bP>|WezTerm 2023\x1b\\\x1b[?62;c"
DA1 = b"\x1b[?62;c"
COMPOSITES = {
    # name: (call, {variant: [reply to the 1st write, to the 2nd, …]})
    "name_version": (lambda: U.get_terminal_name_version(),
                     {"full": [NV_FULL], "da1": [DA1], "none": [b""], "partial": [b"\x1bP>|ki"]}),
    "fg_bg": (lambda: U.get_fg_bg_colors(),
              {"full": [b"\x1b]10;rgb:ff/ff/ff\x1b\\\x1b]11;rgb:00/00/00\x1b\\" + DA1], "da1": [DA1], "none": [b""]}),
    "cell_size": (lambda: U.get_cell_size(),
                  {"full": [b"\x1b[6;20;10t\x1b[4;600;800t" + DA1], "da1": [DA1], "none": [b""]}),
    "kitty_supported": (lambda: KittyImage.is_supported(),
                        {"ok": [NV_FULL, b"\x1b_Gi=31;OK\x1b\\" + DA1], "noreply": [NV_FULL, DA1], "none": [b"", b""]}),
    "iterm2_supported": (lambda: ITerm2Image.is_supported(), {"wez": [NV_WEZ], "none": [b""]}),
}
_REAL_READ_TTY = [None]


def reset_query_state():
    """first, uncached call; queries enabled"""
    for f in (U.get_terminal_name_version, U.get_fg_bg_colors):
        inv = getattr(f, "_invalidate_cache", None)
        if inv:
            inv()
    U._cell_size_cache[:] = [0] * 4
    KittyImage._supported = None
    ITerm2Image._supported = None
    U._queries_enabled = True
    U._query_timeout = 0.1


def execute_comp(d: dict, plan):
    ka = kattrs_from(d["attrs"])
    call, variants = COMPOSITES[d["fn"]]
    v = VT(ka, plan)
    v.live = True
    v.replies = [bytes(r) for r in variants[d["variant"]]]
    real_read_tty = U.read_tty
    saved = (U._queries_enabled, U._query_timeout)

    def read_tty_ticking(more=None, timeout=None, min=0, *, echo=False):
        # the library's own `more` predicates become observable actions (as `fake_more` is)
        if more is None:
            return real_read_tty(timeout=timeout, min=min, echo=echo)
        return real_read_tty(lambda buf: vt().act("more", lambda: more(buf)), timeout, min, echo=echo)

    try:
        reset_query_state()
        CUR[0] = v
        U.read_tty = read_tty_ticking
        out = run_call(v, call)
    finally:
        U.read_tty = real_read_tty
        U._queries_enabled, U._query_timeout = saved
        CUR[0] = None
        reset_query_state()
        U._queries_enabled, U._query_timeout = saved
    return v, out


class Unparsed(Exception):
    pass


def _flags(set_ev: str):
    import re as _re
    m = _re.match(r"set\((\w+),e(\d)c(\d)m(\d+)t(\d+)r(\d)\)", set_ev)
    if not m:
        raise Unparsed(set_ev)
    return m.group(1), int(m.group(2)), int(m.group(3)), int(m.group(4))


def _parse_rt(ev, i, restores):
    if ev[i:i + 2] != ["get", "get"] or not ev[i + 2].startswith("set(now"):
        raise Unparsed("rt head at %d" % i)
    _, echo, _, m = _flags(ev[i + 2])
    j = i + 3
    if ev[j] == "sel(zero)":
        n = 0
        while True:
            if ev[j] != "sel(zero)":
                raise Unparsed("nb loop at %d" % j)
            j += 1
            if ev[j] == "rd(100)":
                n += 1
                j += 1
            else:
                break
        item = "rt 0 %d nb %d" % (echo, n)
    else:
        if ev[j] != "clk":
            raise Unparsed("timed start at %d" % j)
        j += 1
        if m > 0:
            if ev[j] != "rd(%d)" % m or not ev[j + 1].startswith("set(now"):
                raise Unparsed("min read at %d" % j)
            j += 2
        if ev[j] != "clk":
            raise Unparsed("duration at %d" % j)
        j += 1
        steps, neg, ending = [], 0, "up"
        while ev[j] == "more":
            if ev[j + 1].startswith("sel("):
                neg = int(ev[j + 1] == "sel(inf)")
                j += 2
                if ev[j] == "rd(1)":
                    steps.append(1)
                    j += 1
                else:
                    steps.append(0)
                if ev[j] != "clk":
                    raise Unparsed("loop clock at %d" % j)
                j += 1
            else:
                ending = "stop"
                j += 1
                break
        item = "rt %d %d timed %s" % (m, echo, fmt_timed(neg, steps, ending))
    if not ev[j].startswith("set(now"):
        raise Unparsed("rt restore at %d" % j)
    restores.append(j)
    return j + 1, item


def parse_composite(ev: list):
    """split a fault-free action sequence into `io` / `qt …` / `rt …` items (the `seq` op of the
    driver) and list the index of every constituent's (nested ones too) restoring tcsetattr"""
    ev = list(ev) + ["<end>", "<end>", "<end>"]
    i, items, restores = 0, [], []
    while ev[i] != "<end>":
        if ev[i] == "ioctl":
            items.append("io")
            i += 1
        elif ev[i:i + 2] == ["get", "get"] and ev[i + 2].startswith("set(flush"):
            if ev[i + 3:i + 5] != ["wr", "dr"]:
                raise Unparsed("query write at %d" % i)
            j, rt = _parse_rt(ev, i + 5, restores)
            parts = rt.split(" ")
            if parts[:4] != ["rt", "0", "0", "timed"]:
                raise Unparsed("nested read is %s" % rt)
            if not ev[j].startswith("set(now"):
                raise Unparsed("query restore at %d" % j)
            restores.append(j)
            items.append("qt " + " ".join(parts[4:]))
            i = j + 1
        else:
            i, rt = _parse_rt(ev, i, restores)
            items.append(rt)
    return items, restores


_COMP_CACHE: dict = {}


def comp_info(d: dict):
    """fault-free run of a composite: events, `seq` items (None if the structure is not a sequence
    of the modelled operations), restore indices of all constituents, and — independently of any
    parsing — the indices of the OUTERMOST restores: a tcsetattr that takes the attributes from
    something else back to what they were on entry"""
    key = (d["fn"], d["variant"], fmt_attrs(d["attrs"]), d["attrs"].get("rest"))
    if key not in _COMP_CACHE:
        v, out = execute_comp(d, None)
        try:
            items, restores = parse_composite(v.trace())
        except (Unparsed, IndexError) as e:
            items, restores = None, []
        outer = [k for (k, before_ne, after_eq) in v.set_log if before_ne and after_eq]
        if len(_COMP_CACHE) > 20000:
            _COMP_CACHE.clear()
        _COMP_CACHE[key] = (list(v.trace()), items, restores, outer, out, v.image() == v.initial)
    return _COMP_CACHE[key]


def comp_configs(rng: random.Random):
    while True:
        fn = rng.choice(list(COMPOSITES))
        variant = rng.choice(list(COMPOSITES[fn][1]))
        yield dict(op="comp", fn=fn, variant=variant, attrs=dict(rng.choice(ATTR_GRID), rest=rng.randrange(1 << 30)))


def all_comp_configs():
    for fn, (_, variants) in COMPOSITES.items():
        for variant in variants:
            for a in (dict(echo=1, icanon=1, vmin=1, vtime=0, rest=5), dict(echo=0, icanon=0, vmin=0, vtime=0, rest=9),
                      dict(echo=1, icanon=0, vmin=4, vtime=10, rest=3)):
                yield dict(op="comp", fn=fn, variant=variant, attrs=a)


_FF_CACHE: dict = {}


def fault_free(d: dict):
    """events of the fault-free run; index of the first action of the operation's own clean-up and
    of its restoring tcsetattr (None, None when the operation never touches termios)"""
    if d["op"] == "comp":
        ev, items, restores, outer, out, _ = comp_info(d)
        return ev, None, None, out
    key = line_of({**d, "plan": None})
    if key not in _FF_CACHE:
        v, out = execute(d, None)
        ev = v.trace()
        sets = [i for i, e in enumerate(ev) if e.startswith("set(")]
        if not sets and d["op"] == "draw":
            # no echo suppression: the clean-up tag still covers write("\n") … flush()
            cs = [i for i, e in enumerate(ev) if e == "ow(nl)"][-1]
            rs = ev.index("fin") - 1
        elif not sets:
            cs = rs = None
        else:
            rs = sets[-1]
            cs = rs
            if d["op"] == "draw":
                nls = [i for i, e in enumerate(ev) if e == "ow(nl)"]
                cs = nls[-1]
        if len(_FF_CACHE) > 50000:
            _FF_CACHE.clear()
        _FF_CACHE[key] = (ev, cs, rs, out)
    return _FF_CACHE[key]


def in_cleanup(d: dict, v: VT) -> bool:
    if d["op"] == "comp":  # (the driver's flag: on some constituent's restoring tcsetattr)
        return v.fired_at is not None and v.fired_at in comp_info(d)[2]
    _, cs, rs, _ = fault_free(d)
    return v.fired_at is not None and cs is not None and cs <= v.fired_at <= rs


ORACLE_ERRORS: list = []
EXCS = ["kbdInt", "termiosError", "osError", "stopIteration", "other"]
ATTR_GRID = [
    dict(echo=e, icanon=c, vmin=m, vtime=t)
    for e in (1, 0) for c in (1, 0) for m in (1, 0, 4, 255) for t in (0, 1, 10, 255)
]
STEPS = [[], [1], [0], [1, 1], [0, 1], [1, 0, 1], [0, 0], [1, 1, 1, 1]]
ENDINGS = ["up", "stop", "other", "kbdInt", "osError"]


def configs(rng: random.Random):
    """an endless stream of operation configurations (without fault plan)"""
    while True:
        a = dict(rng.choice(ATTR_GRID), rest=rng.randrange(1 << 30))
        k = rng.random()
        if k < 0.45:
            if rng.random() < 0.25:
                s = dict(kind="nb", n=rng.choice([0, 1, 2, 3]))
            else:
                neg = rng.choice([0, 0, 1])
                steps = rng.choice(STEPS)
                ending = rng.choice([e for e in ENDINGS if not (neg and e == "up")])
                s = dict(kind="timed", neg=neg, steps=steps, ending=ending)
                if not neg and not steps and ending == "up" and rng.random() < 0.5:
                    s["tz"] = True  # timeout = 0
            yield dict(op="rt", attrs=a, min=rng.choice([0, 0, 1, 2, 5, 255, 256, 300]), echo=rng.choice([0, 1]), script=s)
        elif k < 0.75:
            neg = rng.choice([0, 0, 1])
            steps = rng.choice(STEPS)
            ending = rng.choice([e for e in ENDINGS if not (neg and e == "up")])
            d = dict(op="qt", attrs=a, enabled=0 if rng.random() < 0.05 else 1,
                     script=dict(kind="timed", neg=neg, steps=steps, ending=ending))
            if not neg:
                d["qtimeout"] = rng.choice([None, 0, 0.5, 0.25])
            yield d
        else:
            tty = rng.random() < 0.9
            hide_arg, echo_input = rng.choice([0, 1, 1]), rng.choice([0, 0, 1])
            yield dict(op="draw", attrs=a, tty=tty, hide_arg=hide_arg, echo_input=echo_input,
                       hide=int(bool(hide_arg and tty)), nei=int(bool(not echo_input and tty)),
                       body=rng.choice(["still", "still", 1, 2, 3]))


def kind_of(d, plan):
    op = d["op"]
    if op == "rt":
        s = d["script"]
        m = "nb" if s["kind"] == "nb" else ("neg" if s["neg"] else "pos") + ("-min" if d["min"] else "")
    elif op == "qt":
        m = "off" if not d["enabled"] else ("neg" if d["script"]["neg"] else "pos")
    elif op == "comp":
        m = "%s-%s" % (d["fn"], d["variant"])
    else:
        m = ("still" if d["body"] == "still" else "anim") + ("" if d["nei"] else "-echo")
    f = "nofault" if plan is None else ("sigint" if plan[1] == "kbdInt" else "exc") + ("-after" if plan[2] else "-before")
    return "%s/%s/%s" % (op, m, f)


class C13(Property):
    id = "C13"
    title = "Terminal attributes are always put back exactly as found"
    lean_props = ["TIV.C13.Props"]
    driver = "drv_c13"
    partial = ("signals delivered inside an operation's own clean-up (from the first action of its `finally` block to "
               "its restoring tcsetattr) are outside the property (DESIGN §4); real termios/select/os.read are "
               "replaced by a fake that mimics CPython's termios conversions (a real pty is used in the thorough tier)")
    assumptions = [
        "CPython try/finally semantics; an exception or SIGINT surfaces at an effectful action, either instead of "
        "it or right after it took effect",
        "locals of one activation (old_attr/new_attr) are not assigned by callees",
    ]
    quick_cases = 40000
    thorough_cases = 400000
    rule = ("configurations (operation, mode script, initial attributes) are drawn from one PRNG state derived from "
            "VERIF_SEED; for each configuration EVERY fault index of its fault-free action sequence is exercised "
            "(exhaustive), before and after flavour, SIGINT plus one other exception class; a case is non-trivial "
            "when the operation touches termios; distinct by request line")

    # -- translator -------------------------------------------------------------------
    def gen_constants(self):
        return {"TIV/C13/Generated.lean": generated_lean()}

    # -- generator --------------------------------------------------------------------
    def generate(self, rng: random.Random, tier: str):
        install()
        basic, comp = configs(rng), comp_configs(rng)
        # every public composite query function × reply variant once per run (deterministic part)
        fixed = [d for d in all_comp_configs() if d["attrs"]["rest"] == 5]
        while True:
            d = fixed.pop(0) if fixed else (next(comp) if rng.random() < 0.08 else next(basic))
            ev, cs, rs, _ = fault_free(d)
            n = len(ev)
            yield self.case(d, None)
            for k in range(n + 1):  # n: beyond the last action — never fires
                for after in (0, 1):
                    pool = [e for e in EXCS if not (d["op"] == "draw" and e == "stopIteration")]
                    if d["op"] == "comp":
                        pool = ["kbdInt", "osError", "termiosError"]
                        if tier == "quick":
                            pool = ["kbdInt", "osError", "osError"]  # (quick picks kbdInt + one of pool[1:])
                    # (a StopIteration raised inside RenderIterator's generator is rewritten by
                    #  CPython/RenderIterator — generator semantics the model does not carry)
                    excs = ["kbdInt", rng.choice(pool[1:])] if tier == "quick" else pool
                    for en in excs:
                        yield self.case(d, (k, en, after))

    def case(self, d, plan):
        dd = {**d, "plan": list(plan) if plan else None}
        nontrivial = not (d["op"] == "qt" and not d.get("enabled", 1)) and not (d["op"] == "draw" and not d["nei"])
        return Case(line_of(dd), dd, kind_of(d, plan), nontrivial)

    # -- implementation ---------------------------------------------------------------
    def impl(self, case: Case) -> str:
        try:
            install()
            d = case.data
            plan = tuple(d["plan"]) if d["plan"] else None
            v, out = execute(d, plan)
            case._vt = v  # for the oracle (not serialised)
            if d["op"] == "comp" and comp_info(d)[1] is None:
                return "err unparsed-structure " + ",".join(comp_info(d)[0])[:300]
            tr = ",".join(v.trace()) or "-"
            return "ok %s out=%s attrs=%s fired=%d cleanup=%d" % (
                tr, out, v.final_held or v.final(), v.fired_at is not None, in_cleanup(d, v))
        except BaseException as e:  # noqa: BLE001 — an injected fault surfacing at an unusual place
            CUR[0] = None
            return "err %s" % type(e).__name__

    # -- oracle -----------------------------------------------------------------------
    def oracle(self, case: Case, impl_result: str):
        try:
            install()
            d = case.data
            plan = tuple(d["plan"]) if d["plan"] else None
            v = getattr(case, "_vt", None)
            if v is None:
                v, _ = execute(d, plan)
            return judge(d, plan, v)
        except BaseException as e:  # noqa: BLE001
            CUR[0] = None
            ORACLE_ERRORS.append("%s on %s" % (type(e).__name__, case.line[:120]))
            return None

    def search(self, rng, tier, reasons):
        install()
        out = []
        seen = 0
        # the public composite query functions first (every fake system call, SIGINT / OSError /
        # termios.error, before and after), then the single operations
        stream = itertools.chain(all_comp_configs(),
                                 itertools.islice(configs(random.Random(12345)), 400 if tier == "quick" else 4000))
        for d in stream:
            ev, _, _, _ = fault_free(d)
            excs = ("kbdInt", "osError", "termiosError") if d["op"] == "comp" else ("kbdInt", "other", "termiosError")
            for plan in [None] + [(k, en, a) for k in range(len(ev)) for a in (0, 1) for en in excs]:
                v, _ = execute(d, plan)
                seen += 1
                f = judge(d, plan, v)
                if f:
                    f.case = self.case(d, plan)
                    out.append(f)
                    if len(out) >= 3:
                        return out
                    break
        return out

    def extra_checks(self, rng, tier, ev):
        fails = []
        ev["coverage"]["exceptions_ignored_in_finalizers"] = {"count": UNRAISABLE["n"], "first": UNRAISABLE["last"]}
        ev["coverage"]["oracle_errors"] = ORACLE_ERRORS[:5]
        if tier == "thorough":
            fails += pty_tier(rng, ev)
        return fails


def judge(d, plan, v: VT):
    """the property, stated on the fake kernel's attribute bytes: identical before and after,
    unless the fault landed inside the operation's own clean-up"""
    if v.exhausted:
        return None  # reported as a correspondence mismatch, not as a violation
    if d["op"] == "comp":
        # "exactly as before the call", at return or raise — unless the fault landed on an
        # OUTERMOST restore (a tcsetattr that, in the fault-free run, brings the attributes back to
        # their entry value); a nested operation's restore is NOT excluded
        if v.fired_at is not None and v.fired_at in comp_info(d)[3]:
            return None
    elif in_cleanup(d, v):
        return None
    held = v.image_held if v.image_held is not None else v.image()
    dropped = v.image_dropped if v.image_dropped is not None else v.image()
    if held != v.initial or dropped != v.initial:
        where = "nofault" if v.fired_at is None else "k%d/%s/%s" % (plan[0], plan[1], "after" if plan[2] else "before")
        op = d["op"]
        mode = kind_of(d, plan).split("/")[1]
        ev_at = v.events[v.fired_at] if v.fired_at is not None else "-"
        when = "at-return" if held != v.initial else "after-exception-dropped"
        return Failure(
            "%s/%s/%s/at=%s/%s" % (op, mode, where, ev_at.split("!")[0], when),
            "terminal attributes differ %s: before=%s when the call returned/raised (exception still held)=%s "
            "after dropping it + gc=%s events=%s late=%s"
            % (when, v.initial.hex(), held.hex(), dropped.hex(), ",".join(v.trace()), ",".join(v.late())))
    return None


# ----------------------------------------------------------------------------------------
# translator: the termios skeleton of the three functions, from their live source


def _src(fn):
    return ast.parse(textwrap.dedent(inspect.getsource(inspect.unwrap(fn)))).body[0]


def _termios_calls(node, region, out, cond=""):
    """termios.* calls in source order below `node`, labelled with the region they are in"""
    for child in ast.iter_child_nodes(node):
        if isinstance(child, ast.Try):
            for s in child.body:
                _termios_calls_stmt(s, "try" if region == "pre" else region, out)
            for h in child.handlers:
                for s in h.body:
                    _termios_calls_stmt(s, "try" if region == "pre" else region, out)
            for s in child.orelse:
                _termios_calls_stmt(s, "try" if region == "pre" else region, out)
            for s in child.finalbody:
                _termios_calls_stmt(s, "finally" if region == "pre" else region, out)
            if region == "pre":
                region = "post"
        else:
            _termios_calls_stmt(child, region, out)


def _termios_calls_stmt(s, region, out):
    if isinstance(s, ast.Try):
        holder = ast.Module(body=[s], type_ignores=[])
        _termios_calls(holder, region, out)
        return
    target = "-"
    if isinstance(s, ast.Assign) and len(s.targets) == 1 and isinstance(s.targets[0], ast.Name):
        target = s.targets[0].id
    if isinstance(s, (ast.If, ast.While, ast.For, ast.With, ast.FunctionDef)):
        _termios_calls(s, region, out)
        return
    for n in ast.walk(s):
        if isinstance(n, ast.Call) and isinstance(n.func, ast.Attribute) and isinstance(n.func.value, ast.Name) \
                and n.func.value.id == "termios":
            name = n.func.attr
            if name == "tcgetattr":
                out.append((region, name, "-", target))
            elif name == "tcsetattr":
                when = n.args[1].attr if isinstance(n.args[1], ast.Attribute) else ast.unparse(n.args[1])
                out.append((region, name, when, ast.unparse(n.args[2])))
            else:
                out.append((region, name, "-", "-"))


def skeleton(fn):
    f = _src(fn)
    out: list = []
    _termios_calls(f, "pre", out)
    return out


def attr_edits(fn):
    """statements that modify an attribute list in place, canonicalised"""
    f = _src(fn)
    out = []
    for n in ast.walk(f):
        if isinstance(n, (ast.AugAssign, ast.Assign)):
            tgt = n.target if isinstance(n, ast.AugAssign) else n.targets[0]
            if isinstance(tgt, ast.Subscript) and "attr" in ast.unparse(tgt):
                out.append(ast.unparse(n))
    return out


def finally_calls(fn):
    """call names of the outermost try's finally block, `if:`-prefixed when conditional"""
    f = _src(fn)
    tries = [n for n in f.body if isinstance(n, ast.Try)]
    out = []
    if not tries:
        return ["<no try statement at the top level of the function>"]
    for s in tries[-1].finalbody:
        pre = ""
        stmts = [s]
        if isinstance(s, ast.If):
            pre, stmts = "if:", s.body
        for st in stmts:
            for n in ast.walk(st):
                if isinstance(n, ast.Call) and isinstance(n.func, ast.Attribute):
                    out.append(pre + n.func.attr)
    return out


def termios_sites():
    """every function of the package (AST walk over all its modules) that mentions `tcsetattr`, resp.
    calls any `termios.tc*` function: ("module:qualname", …) sorted"""
    import pathlib

    root = pathlib.Path(term_image.__file__).resolve().parent
    setters, callers = set(), set()

    def visit(node, qual, mod):
        for child in ast.iter_child_nodes(node):
            if isinstance(child, (ast.FunctionDef, ast.AsyncFunctionDef, ast.ClassDef)):
                visit(child, qual + [child.name], mod)
                continue
            where = "%s:%s" % (mod, ".".join(qual) if qual else "<module>")
            for n in ast.walk(child):
                if isinstance(n, (ast.FunctionDef, ast.AsyncFunctionDef, ast.Lambda)) and n is not child:
                    continue
                names = []
                if isinstance(n, ast.Attribute):
                    names.append(n.attr)
                elif isinstance(n, ast.Name):
                    names.append(n.id)
                elif isinstance(n, ast.Constant) and isinstance(n.value, str) and len(n.value) < 40:
                    names.append(n.value)
                elif isinstance(n, ast.alias):
                    names.append(n.name)
                for nm in names:
                    if nm in ("tcsetattr", "setraw", "setcbreak", "cfmakeraw", "cfmakecbreak"):
                        setters.add(where)
                    if nm in ("tcsetattr", "tcgetattr", "tcdrain", "tcflush", "tcflow", "tcsendbreak", "tcsetwinsize"):
                        callers.add(where)
            # nested defs inside compound statements
            for n in ast.walk(child):
                if isinstance(n, (ast.FunctionDef, ast.AsyncFunctionDef)) and n is not child:
                    visit(ast.Module(body=[n], type_ignores=[]), qual, mod)

    for f in sorted(root.rglob("*.py")):
        mod = ".".join(f.relative_to(root).with_suffix("").parts)
        visit(ast.parse(f.read_text()), [], mod)
    return sorted(setters), sorted(callers)


SIGNAL_NAMES = ("pthread_sigmask", "sigprocmask", "siginterrupt", "set_wakeup_fd", "sigwait", "sigtimedwait",
                "sigwaitinfo", "setitimer", "alarm", "raise_signal", "pthread_kill", "default_int_handler")


def signal_sites():
    """every place of the package that changes signal disposition or mask: imports of `signal`,
    `signal.signal(…)`, `pthread_sigmask` & co. -> sorted ["module:what", …] (expected: none)"""
    import pathlib

    root = pathlib.Path(term_image.__file__).resolve().parent
    out = set()
    for f in sorted(root.rglob("*.py")):
        mod = ".".join(f.relative_to(root).with_suffix("").parts)
        for n in ast.walk(ast.parse(f.read_text())):
            if isinstance(n, ast.Import) and any(a.name.split(".")[0] == "signal" for a in n.names):
                out.add("%s:import signal" % mod)
            elif isinstance(n, ast.ImportFrom) and (n.module or "").split(".")[0] == "signal":
                out.add("%s:from signal import %s" % (mod, ",".join(a.name for a in n.names)))
            elif isinstance(n, ast.Attribute) and (n.attr in SIGNAL_NAMES or (
                    n.attr == "signal" and isinstance(n.value, ast.Name) and n.value.id in ("signal", "_signal"))):
                out.add("%s:%s" % (mod, n.attr))
            elif isinstance(n, ast.Name) and n.id in SIGNAL_NAMES:
                out.add("%s:%s" % (mod, n.id))
    return sorted(out)


def lean_str(s: str) -> str:
    return '"' + s.replace("\\", "\\\\").replace('"', '\\"') + '"'


def generated_lean() -> str:
    def skel(name, fn):
        items = skeleton(fn)
        return (f"def {name} : List (String × String × String × String) := ["
                + ", ".join("(" + ", ".join(lean_str(x) for x in it) + ")" for it in items) + "]\n")

    def strs(name, xs):
        return f"def {name} : List String := [" + ", ".join(lean_str(x) for x in xs) + "]\n"

    sig = inspect.signature(inspect.unwrap(U.read_tty))
    rd = sig.parameters
    qsig = inspect.signature(inspect.unwrap(U.query_terminal)).parameters
    dsig = inspect.signature(Renderable.draw).parameters
    return (
        "/-! GENERATED by harness/c13.py from the imported package — do not edit -/\n"
        "namespace TIV.C13.Generated\n"
        + skel("readTtySkel", U.read_tty)
        + skel("queryTerminalSkel", U.query_terminal)
        + skel("drawSkel", Renderable.draw)
        + skel("writeTtySkel", U.write_tty)
        + strs("tcsetattrSites", termios_sites()[0])
        + strs("termiosCallSites", termios_sites()[1])
        + strs("signalSites", signal_sites())
        + strs("readTtyEdits", attr_edits(U.read_tty))
        + strs("queryTerminalEdits", attr_edits(U.query_terminal))
        + strs("drawEdits", attr_edits(Renderable.draw))
        + strs("drawFinally", finally_calls(Renderable.draw))
        + strs("readTtyFinally", finally_calls(U.read_tty))
        + strs("queryTerminalFinally", finally_calls(U.query_terminal))
        + f"def readTtyTimeoutDefaultIsNone : Bool := {'true' if rd['timeout'].default is None else 'false'}\n"
        + f"def readTtyMinDefault : Nat := {int(rd['min'].default)}\n"
        + f"def readTtyEchoDefault : Bool := {'true' if rd['echo'].default else 'false'}\n"
        + f"def queryTimeoutDefaultIsNone : Bool := {'true' if qsig['timeout'].default is None else 'false'}\n"
        + f"def defaultQueryTimeoutPositive : Bool := {'true' if term_image.DEFAULT_QUERY_TIMEOUT > 0 and U._query_timeout > 0 else 'false'}\n"
        + f"def drawEchoInputDefault : Bool := {'true' if dsig['echo_input'].default else 'false'}\n"
        + f"def drawHideCursorDefault : Bool := {'true' if dsig['hide_cursor'].default else 'false'}\n"
        + "end TIV.C13.Generated\n"
    )


# ----------------------------------------------------------------------------------------
# thorough tier: a real pty and real SIGINT


class RealHooks:
    """the REAL termios / select / os on a REAL pty; the k-th instrumented call is bracketed by a
    REAL `signal.raise_signal(SIGINT)` (Python's default handler turns it into KeyboardInterrupt)"""

    def __init__(self, slave, master, fault, reply=b"", more=()):
        self.slave, self.master, self.fault = slave, master, fault
        self.n = 0
        self.events: list[str] = []
        self.fired_at = None
        self.reply = reply
        self.more_script = list(more)

    def sigint(self):
        import signal

        signal.raise_signal(signal.SIGINT)
        if signal.SIGINT in signal.pthread_sigmask(signal.SIG_BLOCK, []):
            return  # blocked by the code under test: the kernel keeps it pending until the mask is lifted
        for _ in range(1000):  # the handler runs at the next bytecode boundary
            pass
        raise RuntimeError("SIGINT was not delivered")

    def call(self, label, fn, *args):
        k = self.n
        self.n += 1
        self.events.append(label)
        if self.fault is not None and k == self.fault[0]:
            self.fired_at = k
            if not self.fault[1]:
                self.sigint()  # raises KeyboardInterrupt here unless the code under test blocks SIGINT
                return fn(*args)
            r = None
            try:
                r = fn(*args)
            except Exception:  # noqa: BLE001
                pass
            self.sigint()
            return r
        return fn(*args)


def run_on_pty(d: dict, fault):
    """-> (hooks, attrs before, attrs after, outcome)"""
    import select as real_select
    import time

    master, slave = os.openpty()
    h = None
    saved = (U.termios, U.os, U.select, U.monotonic, U._tty_fd, R.termios, R.sleep, sys.stdout, U._queries_enabled)
    try:
        a = d["attrs"]
        at = T.tcgetattr(slave)
        at[3] = (at[3] | T.ECHO) if a["echo"] else (at[3] & ~T.ECHO)
        at[3] = (at[3] | T.ICANON) if a["icanon"] else (at[3] & ~T.ICANON)
        at[6][T.VMIN] = a["vmin"] if not a["icanon"] else bytes([a["vmin"]])
        at[6][T.VTIME] = a["vtime"] if not a["icanon"] else bytes([a["vtime"]])
        T.tcsetattr(slave, T.TCSANOW, at)
        before = T.tcgetattr(slave)
        s = d.get("script", {})
        steps = s.get("steps", [])
        ending = s.get("ending", "stop")
        more = [True] * len(steps) + ([False] if ending == "stop" else [] if ending == "up" else [ending])
        nbytes = d.get("min", 0) + len(steps) if s.get("kind") != "nb" else s.get("n", 0)
        h = RealHooks(slave, master, fault, reply=b"y" * nbytes, more=more)

        class RT:
            error = T.error

            def __getattr__(self, name):
                return getattr(T, name)

            def tcgetattr(self, fd):
                return h.call("get", T.tcgetattr, fd)

            def tcsetattr(self, fd, when, attrs):
                return h.call("set", T.tcsetattr, fd, when, attrs)

            def tcdrain(self, fd):
                return h.call("dr", T.tcdrain, fd)

        class ROS:
            def __getattr__(self, name):
                return getattr(os, name)

            def read(self, fd, n):
                return h.call("rd", os.read, fd, n)

            def write(self, fd, data):
                def w(fd, data):
                    r = os.write(fd, data)
                    if h.reply:
                        os.write(h.master, h.reply)  # the "terminal" answers the query
                        h.reply = b""
                    return r
                return h.call("wr", w, fd, data)

        def more_fn(buf):
            def m():
                x = h.more_script.pop(0) if h.more_script else False
                if isinstance(x, str):
                    raise EXC[x]("more raised")
                return x
            return h.call("more", m)

        U.termios = RT()
        U.os = ROS()
        U.select = lambda r, w, x, t=None: h.call("sel", real_select.select, r, w, x, t)
        U.monotonic = lambda: h.call("clk", time.monotonic)
        U._tty_fd = slave
        R.termios = U.termios
        R.sleep = lambda s_: h.call("slp", lambda: None)
        op = d["op"]
        if op == "rt":
            if h.reply:
                os.write(master, h.reply)  # input typed before the call
                h.reply = b""
            tmo = None if s["kind"] == "nb" else (-1.0 if s["neg"] else 0.03)
            call = lambda: U.read_tty(more_fn, tmo, d["min"], echo=bool(d["echo"]))  # noqa: E731
        elif op == "qt":
            U._queries_enabled = True
            call = lambda: U.query_terminal(b"\x1b[c", more_fn, -1.0 if s["neg"] else 0.03)  # noqa: E731
        else:
            f = os.fdopen(os.dup(slave), "w")

            class Out:
                encoding = "utf-8"

                def isatty(self):
                    return True

                def fileno(self):
                    return slave

                def write(self, x):
                    return h.call("ow:nl" if x == "\n" else "ow", f.write, x)

                def flush(self):
                    r = h.call("ofl", f.flush)
                    try:  # keep the pty's output buffer from filling up
                        while real_select.select([master], [], [], 0)[0]:
                            os.read(master, 4096)
                    except OSError:
                        pass
                    return r

            sys.stdout = Out()
            probe = RealProbe(1 if d["body"] == "still" else 1 + d["body"], h)
            kw = dict(hide_cursor=bool(d["hide_arg"]), echo_input=False, padding=ExactPadding())
            call = (lambda: probe.draw(**kw)) if d["body"] == "still" else (lambda: probe.draw(loops=1, **kw))
        held = None
        try:
            call()
            out = "normal"
        except BaseException as e:  # noqa: BLE001
            held = e
            out = "raised:" + type(e).__name__
        h.fault = None
        after = T.tcgetattr(slave)  # the exception is still held
        held = None
        gc.collect(1)
        after2 = T.tcgetattr(slave)
        if after2 != after:
            after = after2 if after == before else after
            out += "+changed-after-exception-dropped"
        return h, before, after, out
    finally:
        _clear_real_sigint()
        (U.termios, U.os, U.select, U.monotonic, U._tty_fd, R.termios, R.sleep, sys.stdout, U._queries_enabled) = saved
        for fd in (master, slave):
            try:
                os.close(fd)
            except OSError:
                pass


def _clear_real_sigint():
    """leave no blocked / pending SIGINT behind, whatever the code under test did to the mask"""
    import signal

    try:
        if signal.SIGINT in signal.sigpending() or signal.SIGINT in signal.pthread_sigmask(signal.SIG_BLOCK, []):
            old = signal.signal(signal.SIGINT, signal.SIG_IGN)
            signal.pthread_sigmask(signal.SIG_UNBLOCK, {signal.SIGINT})
            signal.signal(signal.SIGINT, old)
    except BaseException:  # noqa: BLE001
        pass


class RealProbe(Renderable):
    size = Size(2, 2)

    def __init__(self, frames, hooks):
        super().__init__(frames, 1)
        self.h = hooks

    def _get_render_size_(self):
        return self.size

    def _render_(self, render_data, render_args):
        data = render_data[Renderable]
        self.h.call("rend", lambda: None)
        return Frame(data.frame_offset, 1, data.size, "##\n##")


def pty_tier(rng, ev):
    """real pty, real termios/select/os.read, real SIGINT at every instrumented call"""
    fails = []
    stats = {"configs": 0, "runs": 0, "in_cleanup": 0, "sigint_delivered": 0}
    try:
        m, s_ = os.openpty()
        os.close(m)
        os.close(s_)
    except OSError as e:
        ev["coverage"]["pty_tier"] = {"skipped": repr(e)}
        return fails
    R.get_terminal_size = lambda: os.terminal_size((80, 30))
    import signal

    old_handler = signal.signal(signal.SIGINT, signal.default_int_handler)  # even if SIGINT is ignored by the parent
    try:
        _pty_sweep(rng, stats, fails)
    finally:
        signal.signal(signal.SIGINT, old_handler if old_handler is not None else signal.SIG_DFL)
    ev["coverage"]["pty_tier"] = stats
    return fails


def _pty_sweep(rng, stats, fails):
    todo = []
    for d in configs(rng):
        if d["op"] == "qt" and not d["enabled"]:
            continue
        if d["op"] == "draw" and not d["nei"]:
            continue
        sc = d.get("script", {})
        if sc.get("kind") == "timed":
            sc["steps"] = [1] * len(sc["steps"])  # an idle `select` would really block
            if sc["neg"] and sc["ending"] == "up":
                continue
        if d["op"] == "rt" and d["min"] > 50:
            d["min"] = 3
        todo.append(d)
        if len(todo) >= 60:
            break
    for d in todo:
        h0, before, after, out0 = run_on_pty(d, None)
        stats["configs"] += 1
        if before != after:
            fails.append(Failure("pty/%s/nofault" % d["op"], "attributes differ after a fault-free run on a real pty: %r -> %r (%s)"
                                 % (before, after, ",".join(h0.events)), Case(line_of({**d, "plan": None}), {**d, "plan": None})))
            continue
        ev0 = h0.events
        sets = [i for i, e in enumerate(ev0) if e == "set"]
        rs = sets[-1]
        cs = rs if d["op"] != "draw" else [i for i, e in enumerate(ev0) if e == "ow:nl"][-1]
        for k in range(len(ev0)):
            for aft in (0, 1):
                h, before, after, out = run_on_pty(d, (k, aft))
                stats["runs"] += 1
                stats["sigint_delivered"] += h.fired_at is not None
                if h.fired_at is not None and cs <= h.fired_at <= rs:
                    stats["in_cleanup"] += 1
                    continue
                if before != after:
                    plan = [k, "kbdInt", aft]
                    fails.append(Failure(
                        "pty/%s/k%d/%s/at=%s" % (d["op"], k, "after" if aft else "before", ev0[k]),
                        "attributes differ after a real SIGINT on a real pty: %r -> %r (%s; outcome %s)"
                        % (before, after, ",".join(h.events), out),
                        Case(line_of({**d, "plan": plan}), {**d, "plan": plan})))
                    break


if __name__ == "__main__":
    fw.main(C13)
